#!/bin/bash
# tools/import_benign.sh <round-dir> <agent-dir-name>...   e.g. tools/import_benign.sh /tmp/b5 P5
# Copies the behaviour-preserving patches of a refactoring agent into benign/<agent>-<i>/ after checking that each
# applies, builds and keeps the pinned suite green on a scratch copy; then runs every check against it.
cd "$(dirname "$0")/.."
RD=$1; shift
export GOFLAGS=-mod=mod GOPROXY=off GOSUMDB=off GOTOOLCHAIN=local; unset GOWORK
IDS="C01 C02 C03 C04 C05 C06 C08 C09 C10 C11 C12 C13 C14 C15 C16 C17 C18 C19 C20"
for a in "$@"; do
  for d in "$RD/$a"/out/*/; do
    i=$(basename "$d"); [ -f "$d/patch.diff" ] || continue
    T=$(mktemp -d /tmp/lcv-ben-XXXXXX)
    rsync -a --exclude .git /repo/ "$T/repo/"
    if ! (cd "$T/repo" && patch -p1 -s --no-backup-if-mismatch < "$d/patch.diff" >/dev/null 2>&1); then echo "REJECT $a-$i: does not apply"; rm -rf "$T"; continue; fi
    if ! LCV_SRC="$T/repo" tools/baseline.sh "$T/repo" > "$T/base.log" 2>&1; then echo "REJECT $a-$i: suite fails ($(tail -1 "$T/base.log"))"; rm -rf "$T"; continue; fi
    rm -rf "$T"
    mkdir -p "benign/$a-$i"; cp "$d/patch.diff" "benign/$a-$i/patch.diff"; cp "$d/README.md" "benign/$a-$i/README.md" 2>/dev/null
    LCV_NOBUILD=1 MUTW=600 tools/mutant.sh "benign/$a-$i/patch.diff" $IDS 2>&1 | grep -E "^(DETECTED|ERROR|SKIP)" || echo "silent  $a-$i"
  done
done
