#!/bin/bash
# tools/benign.sh : every behaviour-preserving patch under benign/ must leave every check silent.
cd "$(dirname "$0")/.."
export GOFLAGS=-mod=mod GOPROXY=off GOSUMDB=off GOTOOLCHAIN=local; unset GOWORK
(cd lcv && go build -o ../bin/lcverif ./cmd/lcverif) || exit 2
IDS="C01 C02 C03 C04 C05 C06 C08 C09 C10 C11 C12 C13 C14 C15 C16 C17 C18 C19 C20"
export MUTW=700
ls benign/*/patch.diff | xargs -P 14 -I{} sh -c "LCV_NOBUILD=1 tools/mutant.sh {} $IDS 2>&1" > benign/RESULT.raw
echo "false alarms (a check reporting a violation on a behaviour-preserving change):"
grep -E "^(DETECTED|ERROR|SKIP)" benign/RESULT.raw || echo "  none"
echo "silent: $(grep -c '^MISSED' benign/RESULT.raw) check runs"
