#!/usr/bin/env python3
"""tools/import_seed.py <Cxx> <i> <pkgdir> <TestRegex> <race:0|1> <breaks> <needs>
Copies a confirmed seeded change from /tmp/seed/<Cxx>/out/<i> into /verif/seeded/<Cxx>-<i>/ and writes meta.json."""
import json, os, shutil, sys
pid, i, pkg, test, race, breaks, needs = sys.argv[1:8]
src = "/tmp/seed/%s/out/%s" % (pid, i)
dst = "/verif/seeded/%s-%s" % (pid, i)
os.makedirs(dst, exist_ok=True)
shutil.copy(src + "/patch.diff", dst + "/patch.diff")
shutil.copy(src + "/demo_test.go", dst + "/demo_test.go.txt")
if os.path.exists(src + "/README.md"):
    shutil.copy(src + "/README.md", dst + "/AGENT_README.md")
meta = {
    "property": pid,
    "breaks": breaks,
    "needs_to_manifest": needs,
    "demo": {"file": "demo_test.go.txt (copy as <pkgdir>/zz_demo_test.go)", "package_dir": pkg, "test": test, "race": race == "1"},
    "confirmed_by": "tools/confirm_seed.sh %s %s %s%s  -> builds, pinned baseline 160/160 passes with the change, demo FAILS with it and PASSES without it" % (dst, pkg, test, " -race" if race == "1" else ""),
    "source": "independent sub-agent given only the property text and a scratch worktree",
    "detected_by": [],
}
json.dump(meta, open(dst + "/meta.json", "w"), indent=1)
print("imported", dst)
