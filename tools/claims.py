# Table of claims, exec'd by gen_manifest.py.  claim(id, technique, level text, level note, design ref) / na(id, reason)

STDNOTE = ("Trusted base: the Go type checker and go/ssa construction (x/tools v0.29.0); the standard library is not analysed but summarised "
           "(entries printed in the evidence's trusted_base); unsafe/reflection are not modelled. ")

claim("C09", "effect/ownership abstract interpretation over SSA (no write to shared memory on any path from Match/MatchFrom, through go-diff)",
      "Decides, for all inputs and all interleavings, the structural clause 'no instruction reachable from Match/MatchFrom writes memory reachable from the shared classifier, a global or the caller's input; no goroutine/channel/unsummarised external call with shared mutable arguments; formatting methods callable under tracing are effect-free'. That clause implies data-race freedom among concurrent Match calls. It does not decide equality of concurrent and sequential results beyond that (rests on C04).",
      STDNOTE + "Field-based heap summary (sound over-approximation). go-diff v1.1.0 is analysed from source in the module cache.",
      "DESIGN.md §3 E1, §4 C09")

claim("C04", "effect analysis + map-order taint with comparator totality by finite relation enumeration + trace non-interference (control dependence) + nondeterminism-source and token-id-use rules",
      "Decides, for all call histories, map seeds, trace settings and inputs, the structural clauses: Match/MatchFrom/Normalize write nothing that outlives the call and no entry point writes the caller's bytes; trace predicates only guard observer calls; every map iteration in the Match tree is order-insensitive or its output passes a total sort (3^k orderings enumerated) before being observed; no wall-clock/random source influences results; token ids are used through equality only; target words keep their identity. Two clauses fail today and are listed as known findings (go-diff's 1 s DiffTimeout; out-of-vocabulary words rendered as a placeholder). Bit-level float behaviour and the numeric pipeline are not decided.",
      STDNOTE + "Audited assumptions printed in the evidence: functionally-dependent fields of matchRange at the sort in targetMatchedRanges; go-diff uses rune equality only; identity-append exception in go-diff's diffHalfMatchI (verified structurally on every run).",
      "DESIGN.md §3 E1-E3,E5, §4 C04")

claim("C14", "lock-set (must-hold) dataflow with a guarded-by table, check-then-act acquisition identity, write-once lazy-init typestate, plus effect analysis enumerating every shared write reachable from the v1 entry points",
      "Decides on every interleaving: each access to Classifier.values holds muValues in the needed mode; a write decided by a read of the same guarded location shares its lock acquisition; knownValue.set is initialised once under the write lock behind a nil test in the same critical section and read only behind it; queue operations in spawned goroutines hold the queue's mutex; no other write to memory shared between callers is reachable from MultipleMatch/NearestMatch/AddValue/License.*. Does not decide that concurrent results equal sequential ones.",
      STDNOTE + "Guarded-by table confirmed by reading (printed as assumption); sync primitives give the documented happens-before.",
      "DESIGN.md §3 E6, §4 C14")

claim("C10", "NonEmpty obligations (dominating length guards, construction, provenance) + audited panic/MustCompile sites + loop-progress dominance",
      "Decides for all inputs: every first/last/constant-position index or slice expression of v2 and v2/assets is guarded; explicit panics and regexp.MustCompile reachable from the API are audited; every iteration of the tokenizer's read and rune loops consumes input. Does not decide non-constant index arithmetic or termination of the numeric loops (stated in DESIGN.md).",
      STDNOTE + "Provenance rules (docs-key format, embedded asset tree shape) are re-verified from the sources on every run.",
      "DESIGN.md §3 E4, §4 C10")

claim("C03", "dominating-guard facts with linear forms, struct-literal field provenance, comparator first-key enumeration, key-format/decoder table agreement, line-accounting invariant",
      "Decides for all inputs and thresholds: the Confidence stored in every license match was compared >= threshold by a dominating branch; the span guard equals EndTokenIndex-StartTokenIndex+1 > 0; Start/EndLine are the lines of exactly those tokens of this call's document; results are an order-preserving filter of a slice sorted with Confidence as primary descending key; (MatchType,Name,Variant) are decoded from the key that was scored and the key format agrees with its decoders; Copyright literals are well formed; the line counter advances at most once per rune with paired deferred increments. Does not decide Confidence <= 1.0.",
      STDNOTE,
      "DESIGN.md §3 E4, §4 C03")

claim("C12", "NonEmpty guard facts + taint of the raw directory argument + dominating suffix guard + embedded asset-tree table + loader argument agreement + freshness of DefaultClassifier by effect analysis",
      "Decides for all directory trees and spellings: segment accesses are guarded; the raw dir argument reaches only path-aware functions (never string arithmetic); a path is collected exactly under HasSuffix(path, \"txt\"); every embedded asset is category/name/variant + txt; both loaders pass components 0,1,2 to AddContent in order; DefaultClassifier returns a classifier allocated by the call. Equality of Match results of the two classifiers additionally rests on C04.",
      STDNOTE + "The asset tree is read through go/packages' embed expansion of the current tree.",
      "DESIGN.md §4 C12")

claim("C13", "who-may-call/constant-argument rule for regexp.MustCompile over the whole module, quoting and error-use rule at the registration sites, dominating `> 0` guard on queued matches, inclusive pre-filter comparison",
      "Decides for all known values: registration cannot panic in the regexp compiler (MustCompile only on constants; registered values are QuoteMeta'd and the Compile error is used); every queued Match has confidence 1.0 or a dominating > 0 test; the length pre-filter admits ratio == threshold. Exact Offset/Extent of the occurrence shortcut and the <= 1 bound are not decided (a reproduced defect of the shortcut for one-token values is described in DESIGN.md as outside what is decided).",
      STDNOTE,
      "DESIGN.md §4 C13")

claim("C16", "dominating-call fact on every append to the result + shape of the threshold predicate + case-insensitivity table rule for the common-words gate",
      "Decides for all inputs that License.MultipleMatch never returns a match that did not pass WithinConfidenceThreshold on its own confidence, that the predicate is conf > T or a tiny-epsilon equality, and that the common-license-words gate cannot reject re-cased text where it sees raw input. That every corpus text is recognised is behavioural and not decided.",
      STDNOTE,
      "DESIGN.md §4 C16")

claim("C18", "table/exhaustiveness rules over the language tables (style reachability, delimiter pairing for all 47 languages, sibling fallback agreement) + lexer consumption typestate and progress analysis on SSA + channel-close path rule",
      "Decides: every comment style with delimiter rows is reachable from some language and vice versa; multi-line start/end delimiters are paired for every language; the two fallback tables agree; in lex no rune is consumed right after a delimiter without being examined (four (read, origin) pairs failed on the pinned tree - D8a/D8b - and were repaired by a fix: commit; any such pair is a violation); every lexing loop consumes input or exits; the ChunkIterator producer closes its channel on all paths; raw strings have no escape. Agreement with a reference lexer on all strings and the chunk-grouping arithmetic are not decided.",
      STDNOTE + "Tables are read by conditional constant propagation over the SSA form (no repository code runs); a table function that is not a function of constants is reported as undecided (fail).",
      "DESIGN.md §3 E7,E8, §4 C18")

claim("C20", "effect/ownership analysis per method with operands as shared memory + result freshness through the heap summary + structural pairing rule for setIndex + must-pass-through delegation rule",
      "Decides for all operation sequences: no StringSet/IntSet method other than Insert/Delete writes its receiver or argument, and every returned set/slice (and its backing map) is allocated by the call; pqHeap.Swap/Push report exactly the cell indices they stored into under the nil guard; Queue.Push/Pop/Fix/Remove reach their container/heap call on every path with unchanged arguments. The set-algebra laws and the heap order are not decided.",
      STDNOTE,
      "DESIGN.md §3 E1, §4 C20")

claim("C19", "struct-literal field agreement, path-condition truth tables over enumerated CFG paths, lock-set dataflow, fan-out/ordering rules on goroutine closures, must-exit path rule for main, scanner-limit and counter rules",
      "Decides for all file sets, flags and -tasks values: matches are copied field-for-field into the report for the same element; a match is recorded iff headers or MatchType != Header; the shared result list is only touched under the exclusive lock; each file spawns exactly one task with its own name after taking a token, the token is returned before completion is signalled and channels are closed only after the wait; exit status 0 is reachable only with at least one result; the line re-reader is not limited to 64 KiB lines and accumulates exactly lines startLine..endLine. Output formatting/ordering is not decided.",
      STDNOTE,
      "DESIGN.md §4 C19")

claim("C08", "error-flow path analysis (first effect on every other-error path), EOF-classifier shape test, delegation/pass-through rules, single-consumer rule, carry-over and decoder-window dataflow rules",
      "Decides for all inputs, fragmentations and failure offsets: a non-EOF reader error is returned (nil document / zero Results) before any other effect in tokenizeStream and match, and passed through by MatchFrom; end of input is decided only by comparing the error with io.EOF/io.ErrUnexpectedEOF; Match is MatchFrom over a bytes.Reader; the reader is consumed only through io.ReadFull; the next read continues exactly after the copied leftover bytes; the decoder is not capped at the window. Buffer index arithmetic beyond these clauses is not decided.",
      STDNOTE,
      "DESIGN.md §3 E8, §4 C08")

THIN = (" Only the clauses named here are decided; the behavioural core of this property is numeric and is explicitly NOT decided (DESIGN.md says which part). ")

claim("C15", "gob field-coverage rule over the serialised type graph + writer/reader entry-sequence agreement + complete-read and name-derivation rules + effect analysis of the loader",
      "Decides for all file sets: every field of the serialised types is exported/encodable or regenerated by Deserialize; writer and reader agree on two entries per license (text, then the gob of the search set of that same text), each read completely; the reader strips exactly the extension the writer requires; both sides use the same Normalizers; loading writes no package-level state. Equality of match results additionally rests on the classifier being deterministic.",
      STDNOTE, "DESIGN.md §4 C15")

claim("C01", "call-site agreement rules (tokenizer configuration, q/threshold single writer), inclusive-guard fact, tokenizer window dataflow rules, span/line linear-form agreement",
      "Decides the structural necessary conditions of 'a verbatim copy is found whole at 1.0': same tokenizer configuration and dictionary on both sides; q derived from the one stored threshold and used on both sides; inclusive acceptance test; window carry-over and decoder window; span/line agreement." + THIN,
      STDNOTE, "DESIGN.md §4 C01")

claim("C02", "argument/value-identity rules on the scoring pipeline (whole-document denominator, one diffRange partition, offsets applied to matching ends via linear forms), Confidence provenance, line-accounting invariant",
      "Decides: the diff is against the whole corpus document whose length is also the confidence denominator; the distance is scoreDiffs of exactly the retained range; trimmed word counts are textLength of the two outer parts and are applied to the start and end of the span; every reported Confidence is score's result; only a decoded newline advances the line counter." + THIN,
      STDNOTE, "DESIGN.md §4 C02")

claim("C05", "lower-casing dataflow rule on every write into the word buffer (specialised to normalize=true), punctuation table rule, decoder window rule, line-accounting invariant",
      "Decides: with normalisation on every rune/byte appended to a word buffer went through unicode.ToLower; every typographic dash maps to '-'; the decoder is not capped at the window (byte shifts cannot change a rune); only a decoded newline ends a line." + THIN,
      STDNOTE, "DESIGN.md §4 C05")

claim("C06", "table well-formedness/idempotence rule, flag-survival phi rule across the read loop, replace-all rule, token-text provenance rule, Copyright literal rule, pseudo-match segregation rule",
      "Decides: the interchangeable-word table is well formed and idempotent; hyphenation flags survive buffer refills; the https->http rewrite covers every occurrence in a token; a token's text is cleanupToken at its own position; Copyright literals are well formed; Copyright pseudo-matches must not be pruned by the line-range overlap filter (fails today: known finding D12)." + THIN,
      STDNOTE, "DESIGN.md §4 C06")

claim("C11", "non-interference of the line counter from the normalisation flags (data + control dependence), result freshness by effect analysis, case-insensitivity table rule, trailing-dot guard fact, word-table idempotence",
      "Decides: line numbers cannot depend on the normalize/updateDict flags; Normalize uses Match's tokenizer and returns memory of its own; the ignorable-line patterns are case-insensitive; a number token cannot keep a trailing dot; the word table is idempotent." + THIN,
      STDNOTE, "DESIGN.md §4 C11")

claim("C17", "substring/offset provenance rule in Tokenize (with guard facts for string(rune)), sort-before-untangle rule with comparator first-key enumeration, same-string rule",
      "Decides: every contribution to a token's Text is s[i:i+size] at the decoded position (or string(r) under a guard excluding the replacement rune) and Offset is that position; candidate ranges are sorted by target position before untangling; the tokenised string is the string offsets are applied to." + THIN,
      STDNOTE, "DESIGN.md §4 C17")

na("C07", "quantifies over the numeric behaviour of the sliding-window density, offset clamping and error-margin fusion at document edges; no clause of it is visible in the shape of the code and any proxy would be a frozen fragment (DESIGN.md §4 C07)")


# Rules added after the seeding rounds (DESIGN.md 10.2, 10.6): (technique addition, level-text addition)
ADDED = {
 "C01": ("", " Also: the run detector is called with the search set's own clamped q. In the containment branch of the overlap filter a candidate is given up only under a strict comparison (equal weights keep both copies); the window is filled by a loop that reports the reader's own error and the decoder sees exactly the valid bytes."),
 "C02": ("line-accounting invariant over enumerated iteration paths (linear forms)", " Line accounting: on every path through one iteration of the tokenizer's rune loop the line counter plus the held-back line breaks advance by exactly one when the decoded rune is a newline and not otherwise, and no held line break survives the hand-over of a line's words to the document (so StartLine/EndLine are the lines the words stand on). The confidence is 1 - float(distance)/float(length) with no integer arithmetic on the way."),
 "C03": ("line-accounting invariant over enumerated iteration paths, loop-nesting rule for token production", " The line-to-tokens conversion emits at most one token per buffered word (token indices stay below the number of input words); the line counter obeys the accounting invariant described under C02. The returned matches are exactly the candidates the overlap filter retained (the result-building append is control dependent on the retain flag only); the components of the corpus key are checked against the separator the key is split at (fails today: known finding D39)."),
 "C04": ("must-pass-through rule for AddContent", " AddContent reaches addDocument on every path; an explicitly set go-diff DiffTimeout is reported like the default one. A successful return of match never carries constant Results (notices and line count do not depend on the corpus); token ids are converted to diff runes around the surrogate range."),
 "C05": ("scan-position rule, result-provenance rule for the token clean-up", " The scan position moves only by the size of the decoded rune (no byte is stepped over without being decoded and dispatched); the token clean-up returns text it built rune by rune, never its raw argument unless that was shown to consist of letters only. Text resolved from HTML character references is lower-cased as well; all hyphens and dashes U+2010..U+2015 and the minus sign map to '-'; on every iteration path that appends the rune to an open word unicode.IsSpace(r) returned false."),
 "C06": ("dominance rule for the notice patterns, key-provenance rule for the spelling table", " The notice patterns are consulted on every path that reaches the token loop; the spelling table is looked up with the cleaned word; integer tokenizer state survives buffer refills too. A word found in the list-marker table is a marker whatever its closing character; after the line buffer is emptied in the middle of a line the following words carry a non-zero position; the scheme rewrite runs to a fixed point and covers the cleaned word; every retained candidate (Copyright matches included) is returned."),
 "C08": ("scan-position rule", " The scan position moves only by the size of the decoded rune; all tokenizer state (flags, line, held line breaks) is carried across buffer refills. The reader is consumed only through a fill loop whose shape is checked (fills the window or stops at the reader's own error, which it returns unchanged); io.EOF is the only end-of-input sentinel; the decoder's slice ends at the valid bytes."),
 "C10": ("division-guard facts, loop-carried string accumulation rule", " Every integer division by a run-time value is dominated by a non-zero test; no loop extends a string by concatenation (quadratic time on a very long line); the run detector gets the clamped q. The methods that build a lazily built part of a document (frequency table, search set) assign it on every path, and match builds the input's search set unconditionally or under exactly the condition under which the loop that reads it runs."),
 "C11": ("case-folding rule for word-table lookups, result-not-trimmed rule, must-derive-from rule for the interned word", " Lower-case word tables consulted by the token clean-up are consulted with a case-folded key or only when normalising (Normalize keeps the capital of a word's first letter); the result of Normalize is not trimmed at its beginning; the interned word derives from html.UnescapeString on every path; the first token is written only after the end-of-line test. Normalize and match tokenise the unmodified input; a cleaned number ends neither in a dot nor in a hyphen; Normalize writes one line break per line advanced; whether a line is a notice is also decided on its cleaned form."),
 "C12": ("walk-callback path rules, single-writer rule for the corpus map", " The walk callback tests the walk error before using the FileInfo and returns SkipDir only for directories; the corpus map is assigned only by the constructor. Only entries that are not directories are collected; AddContent receives the whole contents ReadFile returned; between the loop over the files and AddContent only the segment-count and error tests decide."),
 "C13": ("def-use rule for the raw text, comparator strictness by finite relation enumeration, occurrence-shortcut path rule", " A function that normalises its text parameter uses the raw parameter for nothing else; result lists are sorted by a strict order on exact comparisons with Confidence first; the exact-occurrence shortcut can assign first and last token on one path. An exact occurrence is reported with the byte range the regular expression delimits (never by way of token indices); duplicate removal compares offsets strictly with the exclusive end of a range; New keeps a private copy of the normaliser list (E1 provenance)."),
 "C14": ("publish-after-initialise ordering rule", " A known value is stored in the shared map only after its fields are initialised. No mutex of the classifier is acquired again by a callee while the caller holds it (RWMutex reader/writer deadlock); every DiffMain call of the v1 classifier must run without go-diff's wall-clock deadline (fails today: known finding D37)."),
 "C15": ("loop-scope rule for the decoded search set, order rule for the trailing-text cut", " Each archive entry is decoded into a search set variable declared inside the loop over the entries; the trailing text is cut off before any element of Normalizers is applied. No step of Next/read/Next/read is skipped on a path back to the loop head; the errors of closing the tar and gzip writers reach the result and no success return precedes the closes; the default archive option stands in front of the caller's options."),
 "C16": ("provenance rule for the returned list", " What MultipleMatch returns is the list it filtered in this call (built from nil by the guarded appends), not a cached or shared value."),
 "C17": ("SSA shape rule for TargetRange, path enumeration of the scan loop", " A path through one iteration of Tokenize's scan loop on which the rune contributes to no token has taken the true branch of unicode.IsSpace(r). Tokens may also be cut from the input in one piece (Text: s[a:b], Offset: a, b a scan position or len(s)); a candidate's byte range runs from the Offset of token TargetStart to Offset+len(Text) in bytes of token TargetEnd-1, both taken from the same token. FindPotentialMatches contains no sort of the candidates by anything but target position."),
 "C18": ("tables read by conditional constant propagation over SSA (one declared Language constant at a time)", " The lexed text is the input plus at most a terminating newline; string contents are recorded as a comment only behind a triple-quote match; every cycle of lex passes an end-of-input test. Boolean flags that record how a loop was left are followed path-sensitively by the lexer typestate; every rune consumed while a doc string is collected is added to its text; after an escape character the next rune is consumed before any delimiter match."),
 "C19": ("no-early-exit loop rule, value-identity rule for the bytes matched", " The loop over the library's matches has no early exit; the bytes given to Match are the bytes this call read from the named file; literals and record sites are followed through unexported helpers. The result list is sorted by a strict total order over every field before it is printed, so the output does not depend on the order in which the tasks delivered."),
 "C20": ("both-inclusions rule for Equal", " Equal returns true only behind both inclusions (equal map sizes and one containment loop, or containment loops in both directions)."),
}
for _id, (_t, _l) in ADDED.items():
    if _id in CLAIMED:
        t, text, note, ref = CLAIMED[_id]
        if _t:
            t = t + " + " + _t
        CLAIMED[_id] = (t, text + _l, note, ref)

# rules that are necessary conditions of more than one property are run by each of those checks
SHARED = {
 "C01": ("effect/ownership analysis of Match/MatchFrom (shared with C04/C09)", " Shared rule R04.1: Match and MatchFrom write nothing reachable from the classifier, a package-level variable or the input (a cached document list or a shared scratch hasher loses the copy of a later-added document or of an overlapping call)."),
 "C02": ("effect analysis and map-order taint of Match, must-pass-through rule for AddContent (shared with C04), refill-carried state rule (shared with C06)", " Shared rules: R04.1 and R04.4 (each reported identity/confidence pair comes from one corpus document: no state carried between documents, no map order reaching the result), R04.8 (the document named by a match is the one added under that identity: AddContent stores on every path), R06.3 (line state survives a buffer refill)."),
 "C03": ("stored-threshold rule (shared with C01)", " Shared rule R01.2: the threshold compared with is the value the caller configured - stored as given by NewClassifier and written nowhere else."),
 "C09": ("nondeterminism-source rule for the diff deadline (shared with C04)", " Shared rule R04.5: no wall-clock deadline decides how fine the word diff is (under N concurrent calls the deadline passes earlier than for a call run alone); the default one-second deadline of go-diff is known finding D4."),
 "C13": ("lock-set rule for the match queue (shared with C14)", " Shared rule R14.4: every operation on the queue that MultipleMatch's goroutines push into holds the queue's mutex (a lost push is an unreported copy)."),
 "C15": ("quoting rule at the registration sites (shared with C13)", " Shared rule R13.1: the archived text is quoted before it is compiled for the exact-occurrence shortcut, as AddValue does."),
 "C16": ("effect analysis of the v1 entry points (shared with C14), archive-reader event rule (shared with C15)", " Shared rules: R14.5 (NearestMatch/MultipleMatch keep no scratch state between calls), R15.2/R15.4 (when the corpus is loaded every archived text is read completely and paired with its own search set)."),
}
for _id, (_t, _l) in SHARED.items():
    if _id in CLAIMED:
        t, text, note, ref = CLAIMED[_id]
        if _t:
            t = t + " + " + _t
        CLAIMED[_id] = (t, text + _l, note, ref)

# rules added after the fourth round of seeded changes / fifth round of refactorings
ROUND4 = {
 "C01": ("loop-completeness rule for the q-gram join and the scoring loop", " R01.5: the loop over the source occurrences of a q-gram and the loop over a document's candidate ranges are left only when exhausted. Shared R06.9/R06.10: the position offset left by a hyphenated word ends with its line."),
 "C02": ("", " Shared R04.6/R04.10: every word keeps its own rune through the diff library (the id->rune step read as a table at the surrogate boundaries; overflow of the rune alphabet is known finding D45)."),
 "C03": ("immutability rule for Match objects", " R03.13: the fields of a Match are written only by the composite literal that builds it."),
 "C04": ("table reading of the id<->rune conversion by conditional constant propagation", " R04.10: idToRune/runeToID evaluated at the boundaries of the surrogate range: no surrogate, strictly increasing, exact round trip; an unbounded alphabet is known finding D45."),
 "C05": ("", " Shared R03.13 (a notice pseudo-match is not extended after construction) and R06.9/R06.10 (the position offset is reset at every counted line break)."),
 "C06": ("back-edge value rule for the line's position offset, control-dependence rule for the CR before a hyphen join", " R06.10: every counted line break takes the position offset back to zero. R06.11: white space flushes the open word only after the rune was tested against the carriage return (CR LF texts, D43). R06.3 covers the word and line buffers and requires the refill step to hand the rune loop's values round unchanged. Shared R03.9/R03.11 (line accounting)."),
 "C08": ("", " R08.3: nil is the reader's error only before the first Read (an error reset behind a Read is reported). R06.3: buffers are state; the refill step changes nothing."),
 "C10": ("quadratic-rewrite shape rule, either-or rule over two cooperating sites", " R10.6 also reports a string rewritten to a fixed point by whole-string replacement passes (D41). R10.7c: a document that reaches the second pass has a search set - either every corpus store builds it or the first pass admits by a comparison that is false for NaN."),
 "C11": ("loop-nesting rule for the line-break writer, same-loop rule for word writes", " R11.9 requires the line-break write to be repeated (a loop inside the token loop). R11.11: every word is written in the loop that first writes the line breaks leading to its line (D44). Shared R06.4 and R06.6."),
 "C12": ("no-defer-in-loop rule", " R12.11: nothing is deferred inside the loop over the corpus files."),
 "C13": ("", " Shared R17.4: a candidate's byte range ends with its last token."),
 "C14": ("", " The effect engine's heap summary has one cell per element type (slices, arrays, variadic argument arrays), so that a pointer appended through a variadic array keeps its provenance."),
 "C15": ("argument-identity rule for the inner classifier, error-return rule for the archive iterator", " R15.8: the inner string classifier is built with the License's own threshold. R15.9: an error of tar.Reader.Next other than EOF is returned."),
 "C16": ("", " Shared R15.8 and R15.9."),
 "C17": ("field-provenance rule for range bounds (sums and differences expanded)", " R17.6: target bounds of a range are computed from target bounds only, source bounds from source bounds only; a difference of two bounds (a length) may cross. R17.1 accepts substring tokens built by a package-level helper."),
 "C18": ("sibling-consistency rule over the language table read by constant propagation", " R18.12: the languages exempt from string lexing are all the languages of their comment style (D42)."),
 "C19": ("dominating-fact rule for SkipDir, literal-provenance rule for recorded results", " R19.9: the walk callback returns SkipDir only behind info.IsDir(). R19.10: what is appended to the result list is a LicenseType built in this call."),
 "C20": ("length algebra of the heap adapter along every path, loop-completeness rule for the set mutators", " R20.5: Push grows the array by one, Pop shrinks it by one, Swap leaves its length alone, on every path. R20.6: Insert/Delete look at every element they are given."),
}
for _id, (_t, _l) in ROUND4.items():
    if _id in CLAIMED:
        t, text, note, ref = CLAIMED[_id]
        if _t:
            t = t + " + " + _t
        CLAIMED[_id] = (t, text + _l, note, ref)

# rules added after seed rounds 5 and 6 (DESIGN 10.10, 10.11)
ROUND56 = {
 "C01": ("commit rule for withdrawals, one-window rule for run literals", " R01.6: a retained match is withdrawn in favour of a better candidate only when that candidate is itself kept. R01.7: every run the run detector creates starts as one window. Shared R05.5: the weights of the containment branch come from the token spans of the two matches."),
 "C02": ("verdict-provenance rule for scoreDiffs", " R02.5: scoreDiffs hands back the word distance it computed or a constant verdict, never an adjusted distance. Shared R04.4 (no map range left early with a non-constant result), R06.3."),
 "C04": ("natural-loop exit rule for map ranges, constant-argument rule for the diff's line mode", " R04.4 also reports a loop over a map that is left before all entries were seen with anything but a constant verdict. R04.11: the diff library's line mode is off (token id 10 is a word, not a line end)."),
 "C05": ("", " R05.1 follows the normalisation flag into helpers. R05.5: the overlap weights are computed from the token spans."),
 "C06": ("no-length-guard rule for the spelling table, contiguity rule for the roman list markers read as a table", " R06.12: the spelling lookup is made for every word, whatever its length. R06.13: the roman numerals among the list markers run from i to their maximum without a hole (D46)."),
 "C08": ("end-of-input consumption rule, reader-error provenance rule", " R08.4: the bytes carried over start where the rune loop stopped. R08.7: the only error returned is the reader's. R08.8: at the end of the input everything in the buffer is consumed."),
 "C13": ("", " R13.9: the exact-occurrence scan runs for every known value that can occur in the text, also one as long as the text. R13.1 follows the quoting into helpers."),
 "C14": ("no-copied-lock rule, arrival-order rule for goroutine-fed queues", " R14.9: no value that contains a mutex is passed or loaded by value. R14.10: the order function of a queue that goroutines push into separates equal confidences by name, and no loop over a map in the package is left early with anything but a constant verdict (D48). Shared R13.6."),
 "C15": ("fail-or-archive rule for the archive writer, read-only rule for package-level state while archiving", " R15.10: a failing step of ArchiveLicenses ends the call with the error (nothing is logged and skipped). R15.11: package-level variables are only read while archiving. Shared R14.10 (D48), R13.1."),
 "C16": ("guard rule for the exact-match shortcut (followed through a remembered pointer and helpers), list-identity rule for the scoring loop, suffix-constant rule for character-set trims", " R16.3: the scoring loop ranges over the list the pre-filter filled, uncut. R16.4: confidence 1.0 is reported only behind an equality of the two texts. R16.5: no strings.Trim* is given an extension-like constant."),
 "C17": ("", " R17.7: the End stored into a token range lies inside the token list."),
 "C18": ("nesting-counter rule on natural loops, effect summary of Parse, exhaustiveness of the comment-style switch over the language constants", " R18.13: comments that nest are counted to any depth. R18.14: Parse writes no package-level state and returns fresh memory. R18.15: every language ClassifyLanguage can return has comment delimiters (D47)."),
 "C19": ("all-arguments rule for the walk, error-or-text rule for the text reader (defer-spilled returns resolved)", " R19.11: every command-line argument is walked. R19.12: the text of a classification is empty only together with an error."),
 "C20": ("self-merge rule, element-comparison rule for ordering functions, nil-only replacement rule for a mutator's map", " R20.7: a merge loop never writes the set it ranges over. R20.8: an ordering function compares the two elements, not a difference that can wrap. R20.9: a mutator replaces the receiver's map only where it was found nil."),
}
for _id, (_t, _l) in ROUND56.items():
    if _id in CLAIMED:
        t, text, note, ref = CLAIMED[_id]
        if _t:
            t = t + " + " + _t
        CLAIMED[_id] = (t, text + _l, note, ref)

# rules added after seed round 7 (DESIGN 10.11)
ROUND7 = {
 "C01": ("producer/consumer order rule for truncated candidate lists", " R01.8: a list that is cut at its first element below a bound was sorted by that field, descending, in the function that made it. Shared R12.2 (labels do not depend on how the corpus directory was spelled)."),
 "C02": ("", " Shared R06.15 (the position given to the word clean-up includes the offset of the words handed over before) and R03.14."),
 "C03": ("path evaluation of the line argument of every hand-over", " R03.14: on every enumerated path through the rune loop the words of a line are handed over under the line counter as the iteration found it."),
 "C04": ("", " Shared R08.3 (the window filler counts the bytes of every Read, also of the one that reports the end)."),
 "C05": ("no-case-predicate rule for the tokenizer", " R05.7: the tokenizer folds case (ToLower) and never tests it (IsUpper/IsLower/IsTitle). Shared R03.14."),
 "C06": ("both-results-used rule and offset-dependence rule for the line stringifier", " R06.14: the notice match the line stringifier returns is used at every call. R06.15: the position given to the word clean-up includes the line offset."),
 "C08": ("decoder-only access rule for the read buffer", " R08.9: no byte of the read buffer is fetched past the rune decoder."),
 "C10": ("nested same-list loop rule with input-governed length", " R10.9: a loop over a list nested in a loop over the same list, where the list holds an entry per notice line of the input (D49, repaired). Shared R03.11, R08.1."),
 "C11": ("unconditional case folding behind the first rune", " R11.12: a rune behind the first one of a word is lower-cased whether or not the text is being normalised. Shared R08.4/R08.5/R08.8. R11.5/R11.9/R11.11 are decided over the write sites of Normalize and of the helpers it calls."),
 "C13": ("injectivity lint for built map keys, dominating-fact rule between exact scan and token search, no-transformation rule for the normalised text", " R13.10: no map key is built from run-time parts that run together. R13.11: the token search runs only where the exact scan found nothing. R13.12: the normalised text is handed on as it is."),
 "C14": ("no package-level channel in the concurrent region; channel cells in the effect engine", " R14.11: no spawned goroutine sends to or receives from a package-level channel. R14.12: what goroutines send back through a channel is not kept in the order of arrival. The effect engine summarises a channel like the elements of a slice."),
 "C15": ("control-dependence rule for archive entries, base-name provenance of entry names, no-store rule for loaded search sets", " R15.12: the loader stores into no field of a search set it read. R15.13: between the loop over the files and the writing of an entry stand only error tests, the extension test and loop heads. R15.14: the Name of every tar header derives from filepath.Base."),
 "C16": ("", " Shared R13.8 (the classifier keeps its own copy of the normaliser list) and R15.3 (loading an archive writes no package-level state)."),
 "C17": ("side-provenance rule by search-set parameter, first-key rule for every sort of match ranges", " R17.8: no Target* bound is computed from the source set alone, nor a Src* bound from the target set. R17.9: every sort of match ranges has TargetStart ascending as its first key. Shared R14.12 (no result collected in completion order)."),
 "C18": ("text-independence of ChunkIterator's branches, CFG-shape rule for the end-of-line exit of string literals, evaluated quote table", " R18.16: no branch of ChunkIterator depends on a comment's text. R18.17: the code behind `c == newline` under a chain of language tests is entered from that test alone. R18.18: the apostrophe is no quote in the Lisp and Verilog families (D50)."),
 "C19": ("defer/exit ordering rule, file-name provenance of classification texts, grouping rule for anchored patterns", " R19.13: no deferred Flush in front of a process exit. R19.14: every source of a classification's Text is handed that classification's file name. R19.15: a pattern anchored by concatenation is grouped."),
 "C20": ("uniform-treatment rule for mutators, argument-only guard rule for Union", " R20.10: what Insert/Delete do with an element does not stand behind a test inside the loop over the elements. R20.11: the loop that copies the argument's elements into a union is guarded by tests on the argument only."),
}
for _id, (_t, _l) in ROUND7.items():
    if _id in CLAIMED:
        t, text, note, ref = CLAIMED[_id]
        if _t:
            t = t + " + " + _t
        CLAIMED[_id] = (t, text + _l, note, ref)

# rules added after seed round 8 (DESIGN 10.12)
ROUND8 = {
 "C01": ("no-capacity rule for candidate lists, similarity-only admission rule", " R01.9: no append to a list of candidates under a test of its length against a constant, no cut to a constant length. R01.10: a corpus document is admitted to the detailed comparison by tests of its token similarity only. Shared R06.5."),
 "C02": ("", " Shared R08.3."),
 "C03": ("", " Shared R08.4/R08.5/R08.8."),
 "C05": ("path rules on white space over all enumerated iterations of the rune loop", " R05.8: on a path where the rune is white space it is compared with line feed and carriage return only. R05.9: no notice pattern is tested behind a condition on the line number. R05.10: while a word is open only white space ends it."),
 "C06": ("dominating-fact rule for the trailing-hyphen test, same-object rule across refills", " R06.17: the trailing-hyphen test stands behind `buffer not empty` only. R06.3 also requires the dictionaries to be the same objects in every window."),
 "C10": ("progress argument over enumerated loop paths", " R10.3: every way round the rune loop ends behind the decoded rune or pushes it back with the word buffer emptied. Shared R08.3."),
 "C11": ("flag-independence rule for the punctuation table", " R11.13: what the punctuation table does to a rune does not depend on the normalize flag. Shared R01.9 and the effect analysis of Normalize (R04.1)."),
 "C12": ("skip-not-fail rule for shallow paths", " R12.12: a path with fewer than three segments is skipped, not an error."),
 "C13": ("", " R13.3 also covers the MinDiffRatio pre-filter. R13.13: AddPrecomputedValue does not reach normalize."),
 "C14": ("contradiction rule on locked and bare accesses, no-branch-on-shared-capture rule", " R14.13: a field written under its struct's own mutex is never accessed without it. R14.14: no function that can run in a spawned goroutine branches on a captured variable that such functions assign. R14.1 accepts a helper whose every call site holds the lock."),
 "C15": ("", " R15.3 also reports unsummarised calls handed package-level memory. R15.16: the license file reader is handed the list element itself."),
 "C16": ("", " Shared R13.5."),
 "C17": ("", " R17.10: the unknown text is sliced with the bounds TargetRange returned."),
 "C18": ("", " R18.19: the read primitive advances the line number under `r == line feed` only. R18.20: in the loop that appends comments to a chunk the loop-carried comment becomes the appended one. R18.21: NestedComments is true for Swift, Kotlin, Dart and Haskell (D51)."),
 "C19": ("results-provenance rule for the printing loop, error-tests-only rule in front of Match", " R19.16: the loop that prints ranges over what GetResults returned. R19.17: the library's Match is called behind error tests only. R19.5 also decides a `run() error` main."),
 "C20": ("", " R20.2: Push reports the new element's index under the nil guard only."),
}
for _id, (_t, _l) in ROUND8.items():
    if _id in CLAIMED:
        t, text, note, ref = CLAIMED[_id]
        if _t:
            t = t + " + " + _t
        CLAIMED[_id] = (t, text + _l, note, ref)

ROUND9 = {
 "C01": ("", " Shared R08.3 and R03.6."),
 "C02": ("", " Shared R06.5 and R04.12."),
 "C04": ("no-decision-on-loop-carried-state rule for loops over maps, provenance rule for dictionary look-ups", " R04.12: the tokenizer asks the dictionary for the id of the cleaned word itself, never of a string computed from it. R04.13: inside a loop over a map no branch depends on a map the loop itself fills (unless whole values are de-duplicated)."),
 "C05": ("single-exit rule for loops over a candidate's lines", " R05.11: a loop bounded by a candidate's EndLine has that test as its only exit. Shared R08.1/R08.2."),
 "C06": ("whole-word rule for the spelling table", " R06.18: the key of the spelling look-up is the word returned on a miss, and a hit returns the table's value itself. Shared R03.13 and R04.12."),
 "C10": ("buffer-copy-in-loop rule, growing-list re-scan rule", " R10.10: (*bytes.Buffer).String is not called inside the loop that fills the buffer. R10.11: no loop re-walks on every round a list that the enclosing loop extends (fails at three sites on the pinned tree, known finding D54). Shared R04.11."),
 "C11": ("same-predicate rule for number words, single-writer rule for dictionary maps", " R11.14: the number path of cleanupToken selects its runes with unicode.IsDigit, the predicate that chose the path. R11.15: the word maps of a dictionary are assigned only where it is created. Shared R06.10."),
 "C12": ("dominance rule for calls that take the classifier", " R12.13: inside the loop over the files every call that is handed the classifier stands behind the test of the number of path segments."),
 "C13": ("no-rounding rule, inclusive-threshold rule, parameter-purity rule for New, hit-verification rule", " R13.14: no function of the package rounds a floating-point value. R13.15: every comparison with the classifier's threshold keeps equality on the accepting side. R13.16: New never merges its normaliser parameter with another list. R13.17: a hit of the regular expression is compared with the value's bytes (fails on the pinned tree, known finding D53)."),
 "C14": ("release-on-every-exit rule for locks", " R14.15: behind every Lock/RLock each path to a return passes the matching release, or the release is deferred."),
 "C15": ("must-pass-through rule for registration, Add-before-go rule, byte-for-byte provenance rule", " R15.17: no path from the second read of an archive entry pair back to the loop head avoids the registration. R15.18: no goroutine calls Add on a wait group of its parent. R15.19: between the file reader and the cut-off/normaliser chain the bytes pass through conversions only. Shared R16.4."),
 "C16": ("control-dependence rule for nil results", " R16.6: License.NearestMatch returns nil only under the common-words gate or a nil result of the classifier. Shared R15.17."),
 "C18": ("evaluated delimiter facts, no-case-folding rule", " R18.22: the evaluated line and block comment delimiters of 22 well-known languages are those of the language. R18.23: no function of the lexer package calls a case-folding function."),
 "C19": ("flow rule for the context error, no-library-globals rule", " R19.18: the branch of a select taken on ctx.Done() returns a value built from ctx.Err(). R19.19: no function of the tool stores into a package-level variable of a library package."),
 "C20": ("leaf rule for Equal, unconditional-exchange rule for Swap, departure report rule for Pop", " R20.12: what Equal returns is computed from look-ups, sizes and predicates of the package. R20.13: in front of Swap's stores and reports stand only the nil guard and comparisons of the two indices. R20.14: Pop reports a negative index to the element it returns (D52)."),
}
for _id, (_t, _l) in ROUND9.items():
    if _id in CLAIMED:
        t, text, note, ref = CLAIMED[_id]
        if _t:
            t = t + " + " + _t
        CLAIMED[_id] = (t, text + _l, note, ref)

ROUND10 = {
 "C01": ("", " Shared R12.8/R12.14 and R10.12."),
 "C02": ("", " Shared R08.1/R08.2."),
 "C03": ("provenance rule for TotalInputLines", " R03.15: TotalInputLines is the line of the last token, or 0 without tokens."),
 "C04": ("", " R04.13 also reports a test of the size of a map that the loop over a map itself fills (a cap on the entries taken)."),
 "C05": ("key-agreement rule for indexes", " R05.12: a map that match fills in one loop and consults in another is consulted under the keys it is filled under (same start, bound, step and key expression)."),
 "C06": ("call-site agreement rule, verdict-dominance rule in the overlap filter", " R06.19: the call sites of a helper inside tokenizeStream agree on which integer arguments are variables. R06.20: a store into the retain flag of another candidate stands behind the current candidate's own verdict."),
 "C10": ("guarded-index rule for byte buffers", " R10.13: a []byte is read at a computed index only behind a test of that index."),
 "C11": ("flag-provenance rule through the call chain", " R11.16: the flag handed to cleanupToken traces back to the first bool parameter of tokenizeStream. R11.9 now counts loop depth by natural-loop membership."),
 "C12": ("", " R12.8 accepts the directory test only. R12.14: no other property of the FileInfo decides whether an entry is collected. R12.10 also applies where the loader calls addDocument itself."),
 "C13": ("compile-provenance rule for stored expressions, loop-variable capture rule", " R13.18: the regexp stored with a known value is the result of a Compile in the registering call. R13.19: no function literal that outlives its iteration binds a variable the loop assigns (the module's Go version gives one variable per loop)."),
 "C14": ("deferred-release rule around function values, no-lazy-global rule", " R14.16: a lock that is held across a call of a function value is released by a deferred call. R14.17: outside package initialisation no package-level variable is assigned without a lock or sync.Once."),
 "C15": ("sibling rule on granularities, no-retuning rule", " R15.20: every call of searchset.New passes the same granularity. R15.21: the root package stores into no field of stringclassifier.Classifier."),
 "C16": ("sibling rule on registration literals, evaluated pattern, push-only rule", " R16.7: every field AddValue sets in a knownValue is set by AddPrecomputedValue too. R16.8: the nonWords pattern, read from the initialiser, matches no letter and no digit. R16.9: nearestMatch and its tasks only push to the queue."),
 "C17": ("filled-cells rule for returned lists", " R17.11: a list of lists that is allocated with a length and returned is filled on every round of its loop. Shared R13.5."),
 "C18": ("width rule for utf8.RuneError", " R18.24: a decoded rune is compared with utf8.RuneError only where the width of the same decode is used. R18.12 also evaluates QuoteCharacter for HTML and Markdown. R18.15 and R18.16 follow helpers."),
 "C20": ("allocated-map rule for returned sets", " R20.15: a set literal that an operation returns has its map stored on every path to the return."),
}
for _id, (_t, _l) in ROUND10.items():
    if _id in CLAIMED:
        t, text, note, ref = CLAIMED[_id]
        if _t:
            t = t + " + " + _t
        CLAIMED[_id] = (t, text + _l, note, ref)

ROUND11 = {
 "C01": ("must-pass-through rule for scoring, append-under-absent-key rule, no-narrow-arithmetic rule", " R01.11: between the loops over the proposed ranges and the call of score stand only the loops and trace tests. R01.12: a list kept under a map key is not extended only where the key is absent. R01.13: no addition, subtraction or multiplication in an 8- or 16-bit integer type. Shared R11.15 and R10.12."),
 "C02": ("", " Shared R08.4/R08.5/R08.8, R08.11 and R06.1."),
 "C03": ("", " R03.15 follows a helper that returns the line."),
 "C04": ("", " Shared R01.11."),
 "C05": ("", " Shared R08.11."),
 "C06": ("every-candidate-reaches-its-verdict rule, position-guard rule for the notice patterns", " R06.21: the use of a candidate's verdict dominates every way back to the head of the loop over the candidates. R06.22: the line-anchored notice patterns are applied only behind a test of the position of the buffer's first word (fails on the pinned tree, known finding D56). Shared R11.10."),
 "C08": ("tokenize-before-return rule, reader-decides-exit rule", " R08.10: the call of tokenizeStream dominates every return of match. R08.11: every way out of the loop around the window read stands directly behind a test of the read's error."),
 "C09": ("", " The effect analysis carries the provenance of a struct that is stored as a whole into its reference fields (a value receiver spilled to a local still holds the caller's map)."),
 "C10": ("guarded-index rule for tables of lists", " R10.14: a [][]T allocated with a length is indexed by a computed position only behind a test of it. Shared R04.1."),
 "C11": ("", " R11.4 also covers every character the number path keeps that header() takes for the end of a marker. R11.10 requires the test of the cleaned line for every line (no constant on some path, no other condition). Shared R10.12."),
 "C12": ("no-carried-state rule for the walk callback", " R12.15: the walk callback assigns no captured variable but the list it appends to."),
 "C13": ("", " R13.7 also reads a recorded end field."),
 "C15": ("whole-list rule, header-format rule", " R15.22: the loop over the list of files is left only at its end or with an error. R15.23: no tar header is pinned to USTAR."),
 "C16": ("", " R16.1 follows the helper that builds the list and a boolean helper that accepts an element only within the threshold. R16.10: the common-words gate compares a count of matching patterns with at least one. Shared R15.21."),
 "C17": ("pending-word-first rule", " R17.12: a token that is built and appended in one step is appended behind the test for a pending word."),
 "C18": ("tested-bound rule for string slices, RuneLen pitfall rule, carriage-return rule", " R18.25: the input is sliced up to a computed bound only behind a test of that bound. R18.26: utf8.RuneLen is not applied to a rune that came out of a decoder. R18.27: the text of a single-line comment is recorded through a trim of the carriage return (D55)."),
 "C20": ("chosen-operand rule", " R20.16: a map that is ranged over or probed is an operand's map on every path (no nil edge). R20.8 also reports an ordering function that compares the results of a call instead of the elements."),
}
for _id, (_t, _l) in ROUND11.items():
    if _id in CLAIMED:
        t, text, note, ref = CLAIMED[_id]
        if _t:
            t = t + " + " + _t
        CLAIMED[_id] = (t, text + _l, note, ref)

ROUND12 = {
 "C01": ("", " Shared R06.23."),
 "C05": ("consumer-agreement rule for the word flush", " R05.13: the results of the word flush are consumed alike at every site. Shared R06.24."),
 "C06": ("paired-test rule for the carriage return, hand-over rule for the position offset", " R06.23: every test of the rune against the carriage return that lets it be skipped is paired with a test for a trailing hyphen. R06.24: the position offset of a line is set to a non-zero constant only behind a hand-over of the line's words in the same iteration."),
 "C09": ("deferred-release rule around function values", " R09.2: a lock held across a call of a function value of the caller is released by a deferred call."),
 "C10": ("", " R10.6 also reports a fixed-point loop over html.UnescapeString."),
 "C11": ("class-test rule for the clean-up", " R11.18: the only unicode class tests of cleanupToken are IsLetter and IsDigit."),
 "C12": ("embed-coverage rule, nil-guard sibling rule", " R12.4 also requires every depth-3 txt file of the assets directory to be embedded. R12.16: a method of TraceConfiguration that LoadLicenses reaches reads its receiver's fields behind the nil test its siblings start with."),
 "C13": ("", " Shared R14.1 and R14.6."),
 "C15": ("order-independence rule for the archive reader", " R15.24: no ordered comparison of strings in the loop over the archive's entries."),
 "C19": ("results-before-return rule, by-name rule for JSON entries, no-mode-bits rule", " R19.20: NewJSONResult finds the entry of a file by a map look-up keyed by Filename. R19.21: the tool does not test FileMode.IsRegular/Type/Perm. R19.22: in the function that calls GetResults every return that is not the return of an error stands behind that call."),
 "C20": ("derived-state rule for sets, no-interface-equality rule for the queue", " R20.17: a function that writes the map of a set also assigns every other field of that set. R20.18: the queue compares no two interface values with ==."),
}
for _id, (_t, _l) in ROUND12.items():
    if _id in CLAIMED:
        t, text, note, ref = CLAIMED[_id]
        if _t:
            t = t + " + " + _t
        CLAIMED[_id] = (t, text + _l, note, ref)
