# Table of claims, exec'd by gen_manifest.py.  claim(id, technique, level text, level note, design ref) / na(id, reason)

STDNOTE = ("Trusted base: the Go type checker and go/ssa construction (x/tools v0.29.0); the standard library is not analysed but summarised "
           "(entries printed in the evidence's trusted_base); unsafe/reflection are not modelled. ")

claim("C09", "effect/ownership abstract interpretation over SSA (no write to shared memory on any path from Match/MatchFrom, through go-diff)",
      "Decides, for all inputs and all interleavings, the structural clause 'no instruction reachable from Match/MatchFrom writes memory reachable from the shared classifier, a global or the caller's input; no goroutine/channel/unsummarised external call with shared mutable arguments; formatting methods callable under tracing are effect-free'. That clause implies data-race freedom among concurrent Match calls. It does not decide equality of concurrent and sequential results beyond that (rests on C04).",
      STDNOTE + "Field-based heap summary (sound over-approximation). go-diff v1.1.0 is analysed from source in the module cache.",
      "DESIGN.md §3 E1, §4 C09")

_pending = "check not built yet in this round (planned: see DESIGN.md §4); not claimed until its rules run against /repo"
for _id in ["C01","C02","C03","C04","C05","C06","C08","C10","C11","C12","C13","C14","C15","C16","C17","C18","C19","C20"]:
    na(_id, _pending)
na("C07", "quantifies over the numeric behaviour of the sliding-window density, offset clamping and error-margin fusion at document edges; no clause of it is visible in the shape of the code and any proxy would be a frozen fragment (DESIGN.md §4 C07)")
