#!/usr/bin/env python3
"""tools/gen_seed_prompts.py <round-dir> [ids...]
Writes <round-dir>/<Cxx>/prompt.txt for a fresh seeding sub-agent: the property's text (nothing from /verif's
machinery), the task (up to 3 breaking changes that compile and pass the suite, each with a demo), the one-line
descriptions of the changes already collected for that property (so that new mechanisms are looked for), and a
second part asking for inputs on which the UNMODIFIED tree already violates the property.
The caller creates the worktree <round-dir>/<Cxx>/wt (git -C /repo worktree add --detach ...) and <round-dir>/<Cxx>/out."""
import json, os, sys, glob

rd = sys.argv[1]
want = sys.argv[2:]
props = [json.loads(l) for l in open('/verif/properties.jsonl')]
for d in props:
    pid = d['id']
    if want and pid not in want:
        continue
    prev = []
    for m in sorted(glob.glob('/verif/seeded/%s-*/meta.json' % pid)):
        b = json.load(open(m)).get('breaks', '')
        b = b.split(' | clause:')[0]
        prev.append('  - ' + b[:220])
    wt = '%s/%s/wt' % (rd, pid)
    out = '%s/%s/out' % (rd, pid)
    os.makedirs(out, exist_ok=True)
    txt = f"""You are working in a scratch git worktree of the Go repository google/licenseclassifier at {wt}
(two Go modules: the root module and ./v2; Go is installed; there is NO network).
Use this environment in EVERY shell call (it does not persist):
  export GOFLAGS=-mod=mod GOPROXY=off GOSUMDB=off GOTOOLCHAIN=local; unset GOWORK
Work ONLY inside {wt} and {out}. Never read or write /repo, /verif, /root/.vp or other directories under {rd}.
Do not look for or use any verification tooling; you only need the repository's own source and tests.

PROPERTY that the library is supposed to satisfy (id {pid}):
  Title: {d['title']}
  Statement: {d['statement']}
  Quantified over: {d['quantifier']}

PART A: produce up to 3 *different*, realistic changes to the repository's NON-test source code, each of which BREAKS this
property, while
  (a) the code still compiles:   for m in . v2; do (cd $m && go build ./... ); done
  (b) the existing test suite still passes:   for m in . v2; do (cd $m && go test -vet=off -count=1 ./... ); done
      NOTE: on the UNMODIFIED tree the root package "github.com/google/licenseclassifier" already fails
      ("open licenses.db: file does not exist") - ignore that one package; every other package must stay ok.
Realistic = the kind of regression a developer could plausibly introduce (refactoring slip, optimisation, caching, an
off-by-one, a dropped or weakened guard, reordered statements, a changed tie-break, a lock narrowed, an error swallowed...).
Strongly prefer changes that need something SPECIFIC to manifest - a particular interleaving, a fault at a particular point,
a multi-step sequence of operations, an unusual input, or two cooperating sites that each look fine alone - not ones that
ordinary use would expose at once. Make the changes as different from one another as you can (different functions /
mechanisms / clauses of the property). Do not modify test files, go.mod or go.sum. Keep each change small (a few lines).

Other people have ALREADY produced the following changes for this property; do NOT repeat them or close variants of them - find
DIFFERENT mechanisms, functions and clauses of the property:
{chr(10).join(prev) if prev else '  (none)'}

For each change i (1, 2, 3) write:
  {out}/<i>/patch.diff   - `git diff` against HEAD, must apply with `git apply` at the repository root
  {out}/<i>/demo_test.go - a demonstration: a Go test file (say in its first comment line which package directory it has to
                           be copied into and the exact `go test` command, e.g. with -race) that FAILS with the change applied
                           and PASSES on the unmodified tree
  {out}/<i>/README.md    - what the change breaks (start with a one-line title `# {pid} / change <i> - ...`, then paragraphs
                           `**Clause broken:** ...` and `**What it needs to manifest:** ...`), and the exact commands you ran with
                           their outcome (build, suite, demo with and without the change)
After saving each patch, reset the worktree (git checkout -- . && git clean -fdq) so that the patches are independent of each
other, and remove demo files from the worktree. You must confirm (a), (b) and the demo's fail/pass behaviour yourself before
finishing. If you cannot find 3, deliver fewer, but each one fully confirmed.

PART B: while you read the code, look for inputs, call sequences or interleavings for which the UNMODIFIED tree ALREADY violates
the property as stated (a genuine defect, not a matter of taste). For each one you can demonstrate, write
  {out}/existing/<k>/demo_test.go - a Go test (first comment line: package directory and `go test` command) that FAILS on the
                                     unmodified tree because the property is violated
  {out}/existing/<k>/README.md    - which clause is violated, by which input, and where in the code the cause lies
Only report what you reproduced. It is fine to report none.

Final answer: a short list of the changes of part A (file/function, one line each, confirmed or not) and of the findings of
part B (one line each).
"""
    open('%s/%s/prompt.txt' % (rd, pid), 'w').write(txt)
    print(pid, len(prev), 'previous changes listed')
