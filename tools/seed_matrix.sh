#!/bin/bash
# tools/seed_matrix.sh [patch-glob...]
# Runs every check against every seeded change and every reverse-fix mutant (in parallel) and prints
# the catch matrix: which checks report which change. Output: seeded/MATRIX.txt
cd "$(dirname "$0")/.."
export GOFLAGS=-mod=mod GOPROXY=off GOSUMDB=off GOTOOLCHAIN=local; unset GOWORK
(cd lcv && go build -o ../bin/lcverif ./cmd/lcverif) || exit 2
IDS="C01 C02 C03 C04 C05 C06 C08 C09 C10 C11 C12 C13 C14 C15 C16 C17 C18 C19 C20"
PATCHES=${@:-$(ls seeded/*/patch.diff mutants/*.diff)}
export MUTW=160
printf "%s\n" $PATCHES | xargs -P 14 -I{} sh -c "LCV_NOBUILD=1 tools/mutant.sh {} $IDS 2>&1" > seeded/MATRIX.raw
python3 - <<'PY'
import re,collections
rows=collections.OrderedDict()
for l in open('seeded/MATRIX.raw'):
    m=re.match(r'(DETECTED|MISSED|ERROR|SKIP)\s+(\S+)\s+(\S+)',l)
    if not m: continue
    st,a,b=m.groups()
    if st=='SKIP':
        rows.setdefault(a,{})['SKIP']=1; continue
    name=b.rstrip(':')
    rows.setdefault(name,{})[a]=(st,l.strip())
out=[]
for name in sorted(rows):
    r=rows[name]
    det=[k for k,v in r.items() if k!='SKIP' and v[0]=='DETECTED']
    err=[k for k,v in r.items() if k!='SKIP' and v[0]=='ERROR']
    out.append("%-40s detected by: %s%s"%(name,' '.join(sorted(det)) or '-', ('   ERRORS: '+' '.join(err)) if err else ''))
open('seeded/MATRIX.txt','w').write('\n'.join(out)+'\n')
print('\n'.join(out))
PY
