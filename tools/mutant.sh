#!/bin/bash
# tools/mutant.sh <patch.diff> <property-id>... [-- tier]
# Applies a patch to a scratch copy of /repo (outside /repo and /verif), runs the
# given checks against the copy (LCV_REPO), prints a one-line verdict per check and
# removes the copy. Evidence files of /verif are saved and restored, so a mutant
# run never replaces committed evidence.
# exit 0 = every listed check reported a violation (mutant detected).
set -u
cd "$(dirname "$0")/.."
PATCH=$(readlink -f "$1"); shift
TIER=quick
IDS=()
while [ $# -gt 0 ]; do
  if [ "$1" = "--" ]; then TIER=$2; break; fi
  IDS+=("$1"); shift
done
SRC=${LCV_SRC:-/repo}
TMP=$(mktemp -d /tmp/lcv-mut-XXXXXX)
SAVE=$(mktemp -d /tmp/lcv-ev-XXXXXX)
trap 'rm -rf "$TMP" "$SAVE"' EXIT
rsync -a --exclude .git "$SRC"/ "$TMP"/repo/
if ! (cd "$TMP/repo" && patch -p1 -s --no-backup-if-mismatch < "$PATCH"); then
  echo "SKIP: patch does not apply: $PATCH"; exit 3
fi
cp -a evidence/. "$SAVE"/ 2>/dev/null
rc=0
for id in "${IDS[@]}"; do
  out=$(LCV_REPO="$TMP/repo" ./check "$id" "$TIER" 2>&1); code=$?
  if [ $code -eq 1 ] && echo "$out" | grep -q "^VIOLATION property=$id"; then
    echo "DETECTED $id $(basename "$PATCH"): $(echo "$out" | grep -E '^\s+(VIOLATION|UNDECIDED) ' | head -3 | tr '\n' ' ' | cut -c1-400)"
  else
    echo "MISSED   $id $(basename "$PATCH") (exit $code)"; rc=1
    [ -n "${VERBOSE:-}" ] && echo "$out" | tail -5
  fi
done
rm -rf evidence; mkdir -p evidence; cp -a "$SAVE"/. evidence/ 2>/dev/null
exit $rc
