#!/bin/bash
# tools/mutant.sh <patch.diff> <property-id>... [-- tier]
# Applies a patch to a scratch copy of /repo (outside /repo and /verif), runs the given checks against
# the copy (LCV_REPO) with their evidence redirected to the scratch dir (LCV_OUT), prints a one-line
# verdict per check and removes the copy.
# exit 0 = every listed check reported a violation (mutant detected).
set -u
cd "$(dirname "$0")/.."
PATCH=$(readlink -f "$1"); shift
TIER=quick
IDS=()
while [ $# -gt 0 ]; do
  if [ "$1" = "--" ]; then TIER=$2; break; fi
  IDS+=("$1"); shift
done
export GOFLAGS=-mod=mod GOPROXY=off GOSUMDB=off GOTOOLCHAIN=local; unset GOWORK
if [ -z "${LCV_NOBUILD:-}" ] && { [ ! -x bin/lcverif ] || [ -n "$(find lcv -name '*.go' -newer bin/lcverif 2>/dev/null | head -1)" ]; }; then
  (cd lcv && go build -o ../bin/lcverif ./cmd/lcverif) || { echo "cannot build lcverif"; exit 2; }
fi
SRC=${LCV_SRC:-/repo}
TMP=$(mktemp -d /tmp/lcv-mut-XXXXXX)
trap 'rm -rf "$TMP"' EXIT
rsync -a --exclude .git "$SRC"/ "$TMP"/repo/
if ! (cd "$TMP/repo" && patch -p1 -s --no-backup-if-mismatch < "$PATCH" >/dev/null 2>&1); then
  echo "SKIP     $(basename "$(dirname "$PATCH")")/$(basename "$PATCH"): patch does not apply"; exit 3
fi
NAME="$(basename "$(dirname "$PATCH")")/$(basename "$PATCH")"
rc=0
for id in "${IDS[@]}"; do
  out=$(LCV_REPO="$TMP/repo" LCV_OUT="$TMP" ./bin/lcverif check "$id" "$TIER" 2>&1); code=$?
  if [ $code -eq 1 ] && echo "$out" | grep -q "^VIOLATION property=$id"; then
    echo "DETECTED $id $NAME: $(echo "$out" | grep -E '^\s+(VIOLATION|UNDECIDED) ' | head -3 | sed 's/^ *//' | tr '\n' ' ' | cut -c1-${MUTW:-400})"
  elif [ $code -eq 0 ]; then
    echo "MISSED   $id $NAME"; rc=1
  else
    echo "ERROR    $id $NAME (exit $code): $(echo "$out" | tail -2 | tr '\n' ' ')"; rc=1
  fi
done
exit $rc
