#!/usr/bin/env python3
"""Generates /verif/MANIFEST.json from the table below and validates it against
/root/.vp/MANIFEST.schema.json when that schema (and jsonschema) is available."""
import json, os, sys

HERE = os.path.dirname(os.path.dirname(os.path.abspath(__file__)))

ENV = "GOFLAGS=-mod=mod GOPROXY=off GOSUMDB=off GOTOOLCHAIN=local"

# id -> (technique, level text, level note, design ref)
CLAIMED = {}
NOT_APPLICABLE = {}

def claim(id, technique, text, note, ref):
    CLAIMED[id] = (technique, text, note, ref)

def na(id, reason):
    NOT_APPLICABLE[id] = reason

exec(open(os.path.join(HERE, "tools", "claims.py")).read())

checks = []
for id in sorted(CLAIMED):
    technique, text, note, ref = CLAIMED[id]
    checks.append({
        "property_id": id,
        "quick_cmd": "./check %s quick" % id,
        "thorough_cmd": "./check %s thorough" % id,
        "evidence_file": "/verif/evidence/%s.json" % id,
        "replay_cmd_template": "./bin/lcverif explain {path}",
        "engine": "lcverif",
        "level_claimed": {"category": "other", "text": text, "design_ref": ref},
        "level_note": note,
        "technique": technique,
    })

m = {
    "version": 1,
    "setup_cmd": "cd /verif/lcv && env %s GOWORK=off go build -o ../bin/lcverif ./cmd/lcverif" % ENV,
    "hooks": {
        "guard": "verif",
        "enable": "none: the checks are static analyses of the unmodified sources; no hook or instrumentation exists in /repo, the guard name is reserved and unused",
        "baseline_off_cmd": "/verif/tools/baseline.sh /repo",
        "source_commits": [],
        "add_only": True,
    },
    "engines": [{
        "name": "lcverif",
        "path": "/verif/lcv",
        "serves_properties": sorted(CLAIMED),
        "kind_free_text": "purpose-built static analyser over go/packages + go/ssa (x/tools v0.29.0): effect/ownership abstract interpretation, lock-set dataflow, dominating-guard facts, comparator totality by finite relation enumeration, taint/non-interference, table and exhaustiveness rules, CFG path rules",
    }],
    "checks": checks,
    "notes": "Technique family: static analysis only. Every check loads /repo's current working tree (both Go modules and the go-diff dependency), type-checks it, builds SSA and decides structural clauses that are necessary conditions of the property; nothing under /repo is executed. All claims are at level 'other'; DESIGN.md states per property what is decided and what is not. LCV_REPO=<dir> points a check at another tree (used for mutant runs on scratch copies).",
    "not_applicable": [{"property_id": k, "reason": NOT_APPLICABLE[k]} for k in sorted(NOT_APPLICABLE)],
}

out = os.path.join(HERE, "MANIFEST.json")
json.dump(m, open(out, "w"), indent=1)
open(out, "a").write("\n")

ids = {json.loads(l)["id"] for l in open(os.path.join(HERE, "properties.jsonl"))}
covered = set(CLAIMED) | set(NOT_APPLICABLE)
if ids != covered or (set(CLAIMED) & set(NOT_APPLICABLE)):
    print("property coverage mismatch:", sorted(ids ^ covered), sorted(set(CLAIMED) & set(NOT_APPLICABLE)))
    sys.exit(1)
try:
    import jsonschema
    jsonschema.validate(m, json.load(open("/root/.vp/MANIFEST.schema.json")))
    print("MANIFEST.json valid: %d claimed, %d not applicable" % (len(CLAIMED), len(NOT_APPLICABLE)))
except ImportError:
    print("MANIFEST.json written (jsonschema not available for validation)")
