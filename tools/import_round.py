import json, os, shutil, re
for line in open('/tmp/seed3x/list.txt'):
    parts=line.split()
    if not parts: continue
    pid,i,pkg,test=parts[:4]; race=len(parts)>4
    src="/tmp/seed3/%s/out/%s"%(pid,i)
    j=int(i)+6
    dst="/verif/seeded/%s-%d"%(pid,j)
    os.makedirs(dst,exist_ok=True)
    shutil.copy(src+"/patch.diff",dst+"/patch.diff")
    shutil.copy(src+"/demo_test.go",dst+"/demo_test.go.txt")
    breaks="";needs=""
    if os.path.exists(src+"/README.md"):
        shutil.copy(src+"/README.md",dst+"/AGENT_README.md")
        t=open(src+"/README.md").read()
        m=re.search(r'^# (.*)$',t,re.M)
        if m: breaks=m.group(1).strip()
        m=re.search(r'\*\*Clause broken:?\*\*:?\s*(.*?)(?:\n\n|\Z)',t,re.S)
        if m: breaks+=" | clause: "+" ".join(m.group(1).split())
        m=re.search(r'\*\*What it needs to manifest:?\*\*:?\s*(.*?)(?:\n\n|\Z)',t,re.S)
        if m: needs=" ".join(m.group(1).split())
    meta={"property":pid,"round":3,"breaks":breaks,"needs_to_manifest":needs,
      "demo":{"file":"demo_test.go.txt (copy as <pkgdir>/zz_demo_test.go)","package_dir":pkg,"test":test,"race":race},
      "confirmed_by":"tools/confirm_seed.sh %s %s %s%s  -> builds, pinned baseline 160/160 passes with the change, demo FAILS with it and PASSES without it"%(dst,pkg,test," -race" if race else ""),
      "source":"independent sub-agent (round 3) given only the property text and a scratch worktree",
      "detected_by":[]}
    json.dump(meta,open(dst+"/meta.json","w"),indent=1)
    print(dst, "|", breaks[:100], "|", needs[:60])
