#!/usr/bin/env python3
"""tools/import_round.py <round-dir> <list-file> <round-number>
Imports confirmed seeded changes of one round of seeding agents into /verif/seeded/<Cxx>-<n>/ (n continues the numbering of
the property, counting obsolete seeds). list-file lines: <Cxx> <i> <package dir> <TestRegex> [-race]; only lines whose
confirmation log <dir of list>/<Cxx>-<i>.log ends in CONFIRMED are imported."""
import json, os, shutil, re, sys, glob
rd, lst, rnd = sys.argv[1], sys.argv[2], int(sys.argv[3])
logdir = os.path.dirname(lst)
def next_index(pid):
    m = 0
    for d in glob.glob('/verif/seeded/%s-*' % pid) + glob.glob('/verif/seeded/obsolete/%s-*' % pid):
        try: m = max(m, int(d.rsplit('-', 1)[1]))
        except ValueError: pass
    return m + 1
for line in open(lst):
    parts = line.split()
    if not parts: continue
    pid, i, pkg, test = parts[:4]; race = len(parts) > 4
    log = '%s/%s-%s.log' % (logdir, pid, i)
    if not os.path.exists(log) or 'CONFIRMED' not in open(log).read().strip().split('\n')[-1]:
        print('NOT CONFIRMED', pid, i); continue
    src = "%s/%s/out/%s" % (rd, pid, i)
    j = next_index(pid)
    dst = "/verif/seeded/%s-%d" % (pid, j)
    os.makedirs(dst, exist_ok=True)
    shutil.copy(src + "/patch.diff", dst + "/patch.diff")
    shutil.copy(src + "/demo_test.go", dst + "/demo_test.go.txt")
    breaks = ""; needs = ""
    if os.path.exists(src + "/README.md"):
        shutil.copy(src + "/README.md", dst + "/AGENT_README.md")
        t = open(src + "/README.md").read()
        m = re.search(r'^# (.*)$', t, re.M)
        if m: breaks = m.group(1).strip()
        m = re.search(r'\*\*Clause broken:?\*\*:?\s*(.*?)(?:\n\n|\Z)', t, re.S)
        if m: breaks += " | clause: " + " ".join(m.group(1).split())
        m = re.search(r'\*\*What it needs to manifest:?\*\*:?\s*(.*?)(?:\n\n|\Z)', t, re.S)
        if m: needs = " ".join(m.group(1).split())
    meta = {"property": pid, "round": rnd, "breaks": breaks, "needs_to_manifest": needs,
      "demo": {"file": "demo_test.go.txt (copy as <pkgdir>/zz_demo_test.go)", "package_dir": pkg, "test": test, "race": race},
      "confirmed_by": "tools/confirm_seed.sh %s %s %s%s  -> builds, pinned baseline 160/160 passes with the change, demo FAILS with it and PASSES without it" % (dst, pkg, test, " -race" if race else ""),
      "source": "independent sub-agent (round %d) given only the property text and a scratch worktree" % rnd,
      "detected_by": []}
    json.dump(meta, open(dst + "/meta.json", "w"), indent=1)
    print(dst, "|", breaks[:110])
