#!/bin/bash
# Runs the pinned baseline suite (the command of /root/.vp/BASELINE.json, both
# modules) on a checkout of google/licenseclassifier and compares the set of
# passing tests with BASELINE.json's stable_pass list.
# usage: tools/baseline.sh [repo-dir]      (default /repo)
# exit 0 iff every stable_pass test passed.
set -u
REPO=${1:-/repo}
export GOFLAGS=-mod=mod GOPROXY=off GOSUMDB=off GOTOOLCHAIN=local
unset GOWORK
OUT=$(mktemp)
trap 'rm -f "$OUT"' EXIT
for m in . v2; do
  (cd "$REPO/$m" && go test -mod=mod -json -vet=off -count=1 -timeout 25m ./... 2>/dev/null) >>"$OUT"
done
python3 - "$OUT" <<'EOF'
import json,sys
passed=set(); failed=set()
for l in open(sys.argv[1]):
    l=l.strip()
    if not l.startswith('{'): continue
    try: e=json.loads(l)
    except Exception: continue
    if 'Test' not in e: continue
    k=e['Package']+'::'+e['Test']
    if e.get('Action')=='pass': passed.add(k)
    elif e.get('Action')=='fail': failed.add(k)
base=set(json.load(open('/root/.vp/BASELINE.json'))['stable_pass'])
missing=sorted(base-passed)
print("baseline: %d/%d stable tests pass; %d extra failures"%(len(base&passed),len(base),len(failed-base)))
for m in missing: print("  NOT PASSING:",m)
sys.exit(1 if missing else 0)
EOF
