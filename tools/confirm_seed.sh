#!/bin/bash
# tools/confirm_seed.sh <dir with patch.diff + demo_test.go> <package dir relative to repo> <TestRegex> [-race]
# Confirms a seeded change on scratch copies of /repo's HEAD: with the patch the code
# builds, the pinned baseline still passes and the demonstration FAILS; without the
# patch the demonstration PASSES. Prints CONFIRMED or the step that failed.
set -u
SD=$(readlink -f "$1"); PKG=$2; TEST=$3; RACE=${4:-}
export GOFLAGS=-mod=mod GOPROXY=off GOSUMDB=off GOTOOLCHAIN=local
unset GOWORK
TMP=$(mktemp -d /tmp/lcv-seed-XXXXXX)
trap 'rm -rf "$TMP"' EXIT
mkdir -p "$TMP/with" "$TMP/without"
git -C /repo archive HEAD | tar -x -C "$TMP/with"
git -C /repo archive HEAD | tar -x -C "$TMP/without"
(cd "$TMP/with" && patch -p1 -s --no-backup-if-mismatch < "$SD/patch.diff") || { echo "FAIL: patch does not apply"; exit 1; }
for m in . v2; do (cd "$TMP/with/$m" && go build ./... ) || { echo "FAIL: build"; exit 1; }; done
/verif/tools/baseline.sh "$TMP/with" || { echo "FAIL: baseline suite does not pass with the change"; exit 1; }
mod=.; case "$PKG" in v2*) mod=v2;; esac
runtest() { # dir
  mkdir -p "$1/$PKG"; if [ -f "$SD/demo_test.go" ]; then cp "$SD/demo_test.go" "$1/$PKG/zz_demo_test.go"; else cp "$SD/demo_test.go.txt" "$1/$PKG/zz_demo_test.go"; fi
  (cd "$1/$PKG" && go test $RACE -vet=off -count=1 -run "$TEST" . 2>&1 | tail -15)
}
out=$(runtest "$TMP/with")
if echo "$out" | grep -q "^ok"; then echo "FAIL: demo passes WITH the change"; echo "$out"; exit 1; fi
echo "$out" | grep -E -m3 'FAIL|DATA RACE|panic' | sed 's/^/  with:    /'
out=$(runtest "$TMP/without")
if ! echo "$out" | grep -q "^ok"; then echo "FAIL: demo fails WITHOUT the change"; echo "$out"; exit 1; fi
echo "  without: $(echo "$out" | tail -1)"
echo "CONFIRMED $SD"
