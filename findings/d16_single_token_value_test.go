package triage

import (
	"testing"

	"github.com/google/licenseclassifier/stringclassifier"
)

func TestD16(t *testing.T) {
	for _, tc := range []struct{ known, unknown string }{{"abc", "x abc"}, {"abc", "abc def ghi"}, {"abc", "x abc y"}, {"abc def", "x abc def y"}} {
		func() {
			defer func() {
				if r := recover(); r != nil {
					t.Errorf("known %q in %q: panic %v", tc.known, tc.unknown, r)
				}
			}()
			c := stringclassifier.New(.8)
			c.AddValue("k", tc.known)
			ms := c.MultipleMatch(tc.unknown)
			if len(ms) != 1 {
				t.Errorf("known %q in %q: %d matches", tc.known, tc.unknown, len(ms))
				return
			}
			got := tc.unknown[ms[0].Offset : ms[0].Offset+ms[0].Extent]
			if got != tc.known || ms[0].Confidence != 1.0 {
				t.Errorf("known %q in %q: reported %q (offset %d extent %d) confidence %v", tc.known, tc.unknown, got, ms[0].Offset, ms[0].Extent, ms[0].Confidence)
			}
		}()
	}
}
