package triage

import (
	"os"
	"strings"
	"testing"

	"github.com/google/licenseclassifier/v2/assets"
)

func TestD12(t *testing.T) {
	c, _ := assets.DefaultClassifier()
	b, _ := os.ReadFile("/repo/v2/assets/License/GPL-2.0/license.txt")
	lines := strings.Split(string(b), "\n")
	for _, at := range []int{0, 100} {
		var out []string
		out = append(out, lines[:at]...)
		out = append(out, "Copyright 2020 Foo Bar")
		out = append(out, lines[at:]...)
		r := c.Match([]byte(strings.Join(out, "\n")))
		n := 0
		for _, m := range r.Matches {
			if m.MatchType == "Copyright" {
				n++
				if m.StartLine != at+1 {
					t.Errorf("notice inserted as line %d reported on line %d", at+1, m.StartLine)
				}
			}
		}
		t.Logf("notice inserted as line %d: %d Copyright match(es), %d matches in total", at+1, n, len(r.Matches))
		if n != 1 {
			t.Errorf("notice inserted as line %d inside/next to GPL-2.0 is not reported as a Copyright match", at+1)
		}
	}
}
