package triage

import (
	"testing"

	classifier "github.com/google/licenseclassifier/v2"
)

func TestD14(t *testing.T) {
	g := []byte("this program is free software you can redistribute it under the terms of the gnu general public license as published by the free software foundation either version two of the license or any later one")
	in := []byte("this program is free software you can redistribute it under the terms of the gnu lesser general public license as published by the free software foundation either version two of the license or any later one")
	c1 := classifier.NewClassifier(.8)
	c1.AddContent("License", "G", "g.txt", g)
	c2 := classifier.NewClassifier(.8)
	c2.AddContent("License", "G", "g.txt", g)
	c2.AddContent("License", "Unrelated", "u.txt", []byte("alpha beta gamma delta lesser epsilon zeta eta theta iota kappa lambda"))
	r1, r2 := c1.Match(in), c2.Match(in)
	t.Logf("corpus {G}: %d matches; corpus {G, unrelated}: %d matches", len(r1.Matches), len(r2.Matches))
	if len(r1.Matches) != len(r2.Matches) {
		t.Fatal("Match result depends on an unrelated corpus document")
	}
}
