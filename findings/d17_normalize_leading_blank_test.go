package triage

import (
	"strings"
	"testing"

	classifier "github.com/google/licenseclassifier/v2"
)

func TestD17(t *testing.T) {
	lic := "permission is hereby granted free of charge to any person obtaining a copy of this software and associated documentation files"
	c := classifier.NewClassifier(.8)
	c.AddContent("License", "X", "x.txt", []byte(lic))
	for _, in := range []string{lic + "\nmore text\n", "\n\n" + lic + "\nmore text\n", "Copyright 2020 Foo\n" + lic + "\n"} {
		r := c.Match([]byte(in))
		n := string(c.Normalize([]byte(in)))
		lines := strings.Split(n, "\n")
		for _, m := range r.Matches {
			if m.MatchType == "Copyright" {
				continue
			}
			got := ""
			if m.StartLine-1 < len(lines) {
				got = lines[m.StartLine-1]
			}
			t.Logf("input %q...: match lines %d-%d; normalized line %d = %q", in[:12], m.StartLine, m.EndLine, m.StartLine, got)
			if !strings.HasPrefix(got, "permission is hereby") {
				t.Errorf("line %d of Normalize output does not hold the words Match attributes to line %d", m.StartLine, m.StartLine)
			}
		}
	}
}
