package core

import (
	"bufio"
	"encoding/json"
	"fmt"
	"os"
	"path/filepath"
	"sort"
	"strconv"
	"strings"
	"time"
)

// Status of one obligation.
const (
	Discharged = "discharged"
	Violation  = "violation"
	Undecided  = "undecided" // counts as a violation
	Info       = "info"      // cross-reference only, never fails
)

// Obligation is one decided instance of a rule.
type Obligation struct {
	Rule      string `json:"rule"`
	Construct string `json:"construct"` // stable key: function / callee / field / expression, never a line
	Pos       string `json:"pos"`
	Status    string `json:"status"`
	Detail    string `json:"detail,omitempty"`
	Known     bool   `json:"known_finding,omitempty"`
}

// Report accumulates what a check analysed.
type Report struct {
	Prop        string
	Tier        string
	Seed        int
	Start       time.Time
	Explanation string
	Obls        []Obligation
	Counts      map[string]int
	Trusted     map[string]bool
	Assumptions map[string]bool
	Notes       []string
	CheckerCmd  string
	// Filter, when set, keeps only the obligations of the rules it accepts (a check that borrows single rules of
	// another check's rule group); unresolved anchors are always kept.
	Filter func(rule string) bool
}

func NewReport(prop, tier string) *Report {
	seed := 0
	if s := os.Getenv("VERIF_SEED"); s != "" {
		seed, _ = strconv.Atoi(s)
	}
	return &Report{Prop: prop, Tier: tier, Seed: seed, Start: time.Now(), Counts: map[string]int{}, Trusted: map[string]bool{}, Assumptions: map[string]bool{}}
}

func (r *Report) add(rule, construct, pos, status, detail string) {
	if r.Filter != nil && rule != "anchor" && !r.Filter(rule) {
		return
	}
	r.Obls = append(r.Obls, Obligation{Rule: rule, Construct: construct, Pos: pos, Status: status, Detail: detail})
}
func (r *Report) OK(rule, construct, pos, detail string) {
	r.add(rule, construct, pos, Discharged, detail)
}
func (r *Report) Fail(rule, construct, pos, detail string) {
	r.add(rule, construct, pos, Violation, detail)
}
func (r *Report) Undecided(rule, construct, pos, detail string) {
	r.add(rule, construct, pos, Undecided, detail)
}
func (r *Report) Info(rule, construct, pos, detail string) { r.add(rule, construct, pos, Info, detail) }
func (r *Report) Count(name string, n int)                 { r.Counts[name] += n }
func (r *Report) Trust(s string)                           { r.Trusted[s] = true }
func (r *Report) Assume(s string)                          { r.Assumptions[s] = true }
func (r *Report) Note(f string, a ...interface{})          { r.Notes = append(r.Notes, fmt.Sprintf(f, a...)) }

// Check records ok/fail in one call.
func (r *Report) Check(ok bool, rule, construct, pos, okDetail, failDetail string) bool {
	if ok {
		r.OK(rule, construct, pos, okDetail)
	} else {
		r.Fail(rule, construct, pos, failDetail)
	}
	return ok
}

// RequireMin fails when a rule matched fewer instances than were confirmed by
// reading, so that a rule cannot pass vacuously.
func (r *Report) RequireMin(rule, what string, got, min int) {
	if r.Filter != nil && !r.Filter(rule) {
		return
	}
	r.Counts[rule+":"+what] = got
	if got < min {
		r.Fail(rule, "instance-count:"+what, "-", fmt.Sprintf("rule matched %d instances of %s, expected at least %d (confirmed by reading): the rule would pass vacuously", got, what, min))
	}
}

// Anchor records an unresolved anchor as a violation and reports whether v is usable.
func (r *Report) Anchor(ok bool, name string) bool {
	if !ok {
		r.Fail("anchor", "anchor:"+name, "-", "unresolved anchor: "+name+" no longer resolves; the rules anchored on it cannot be decided")
	}
	return ok
}

// KnownFinding is one line of /verif/known_findings.jsonl.
type KnownFinding struct {
	Status    string `json:"status"` // "known" or "fixed"
	Property  string `json:"property"`
	Rule      string `json:"rule"`
	Construct string `json:"construct"`
	What      string `json:"what"`
	Commit    string `json:"commit,omitempty"`
}

func LoadKnown(path string) ([]KnownFinding, error) {
	f, err := os.Open(path)
	if err != nil {
		if os.IsNotExist(err) {
			return nil, nil
		}
		return nil, err
	}
	defer f.Close()
	var out []KnownFinding
	sc := bufio.NewScanner(f)
	sc.Buffer(make([]byte, 0, 1<<16), 1<<24)
	for sc.Scan() {
		l := strings.TrimSpace(sc.Text())
		if l == "" || strings.HasPrefix(l, "#") {
			continue
		}
		var k KnownFinding
		if err := json.Unmarshal([]byte(l), &k); err != nil {
			return nil, fmt.Errorf("%s: %v", path, err)
		}
		out = append(out, k)
	}
	return out, sc.Err()
}

// Finish sorts obligations, matches violations against the committed
// known-findings file, writes the evidence and the replay report and returns
// the process exit code.
func (r *Report) Finish(verifDir string) int {
	sort.SliceStable(r.Obls, func(i, j int) bool {
		a, b := r.Obls[i], r.Obls[j]
		if a.Rule != b.Rule {
			return a.Rule < b.Rule
		}
		if a.Construct != b.Construct {
			return a.Construct < b.Construct
		}
		return a.Pos < b.Pos
	})
	// de-duplicate identical obligations (same rule+construct+status)
	var dd []Obligation
	seen := map[string]bool{}
	for _, o := range r.Obls {
		k := o.Rule + "\x00" + o.Construct + "\x00" + o.Status
		if seen[k] {
			continue
		}
		seen[k] = true
		dd = append(dd, o)
	}
	r.Obls = dd

	known, err := LoadKnown(filepath.Join(verifDir, "known_findings.jsonl"))
	if err != nil {
		fmt.Printf("ERROR reading known findings: %v\n", err)
		return 2
	}
	nObl, nDis, nViol, nKnown, nInfo := 0, 0, 0, 0, 0
	var viol []Obligation
	for i := range r.Obls {
		o := &r.Obls[i]
		switch o.Status {
		case Info:
			nInfo++
			continue
		case Discharged:
			nObl++
			nDis++
			continue
		}
		nObl++
		matched := false
		for _, k := range known {
			if k.Status == "known" && k.Property == r.Prop && k.Rule == o.Rule && k.Construct == o.Construct {
				matched = true
				o.Known = true
				fmt.Printf("KNOWN-FINDING: property=%s rule=%s construct=%s at %s: %s\n", r.Prop, o.Rule, o.Construct, o.Pos, k.What)
				break
			}
		}
		if matched {
			nKnown++
		} else {
			nViol++
			viol = append(viol, *o)
		}
	}
	for _, k := range known {
		if k.Status != "known" || k.Property != r.Prop {
			continue
		}
		found := false
		for _, o := range r.Obls {
			if o.Known && o.Rule == k.Rule && o.Construct == k.Construct {
				found = true
			}
		}
		if !found {
			fmt.Printf("note: known finding %s/%s %s was not re-detected on this tree (stale entry or repaired)\n", k.Property, k.Rule, k.Construct)
		}
	}

	wall := time.Since(r.Start).Seconds()
	outDir := filepath.Join(verifDir, "out")
	evDir := filepath.Join(verifDir, "evidence")
	if alt := os.Getenv("LCV_OUT"); alt != "" {
		// mutant / self-test runs must never replace the evidence of the real tree
		outDir = filepath.Join(alt, "out")
		evDir = filepath.Join(alt, "evidence")
	}
	os.MkdirAll(outDir, 0755)
	replay := filepath.Join(outDir, fmt.Sprintf("%s-%s.report.json", r.Prop, r.Tier))
	full := map[string]interface{}{
		"property": r.Prop, "tier": r.Tier, "obligations": r.Obls, "counts": r.Counts, "notes": r.Notes,
		"violations": viol,
	}
	if b, err := json.MarshalIndent(full, "", " "); err == nil {
		os.WriteFile(replay, b, 0644)
	}

	// evidence
	var samples []interface{}
	perRule := map[string]int{}
	for _, o := range r.Obls {
		if o.Status == Info {
			continue
		}
		if perRule[o.Rule] < 6 || o.Status != Discharged {
			samples = append(samples, o)
		}
		perRule[o.Rule]++
	}
	if len(samples) == 0 {
		samples = append(samples, "no obligations")
	}
	trusted := keys(r.Trusted)
	cov := map[string]interface{}{
		"explanation":         r.Explanation,
		"obligations":         nObl,
		"discharged":          nDis,
		"known_findings":      nKnown,
		"undischarged":        nViol,
		"info_items":          nInfo,
		"samples":             samples,
		"checker_cmd":         r.CheckerCmd,
		"trusted_base":        trusted,
		"counts":              r.Counts,
		"obligations_by_rule": perRule,
		"notes":               r.Notes,
	}
	ev := map[string]interface{}{
		"property_id": r.Prop,
		"tier":        r.Tier,
		"seed":        r.Seed,
		"level":       "other",
		"coverage":    cov,
		"assumptions": keys(r.Assumptions),
		"wall_s":      wall,
		"violations":  nViol,
	}
	os.MkdirAll(evDir, 0755)
	b, _ := json.MarshalIndent(ev, "", " ")
	if err := os.WriteFile(filepath.Join(evDir, r.Prop+".json"), append(b, '\n'), 0644); err != nil {
		fmt.Printf("ERROR writing evidence: %v\n", err)
		return 2
	}

	fmt.Printf("%s %s: %d obligations, %d discharged, %d known findings, %d violations (%.1fs)\n", r.Prop, r.Tier, nObl, nDis, nKnown, nViol, wall)
	var cn []string
	for k, v := range r.Counts {
		cn = append(cn, fmt.Sprintf("%s=%d", k, v))
	}
	sort.Strings(cn)
	fmt.Printf("  analysed: %s\n", strings.Join(cn, " "))
	if nViol > 0 {
		for _, o := range viol {
			fmt.Printf("  %s [%s] %s at %s: %s\n", strings.ToUpper(o.Status), o.Rule, o.Construct, o.Pos, o.Detail)
		}
		fmt.Printf("VIOLATION property=%s replay=%s\n", r.Prop, replay)
		return 1
	}
	return 0
}

func keys(m map[string]bool) []string {
	out := []string{}
	for k := range m {
		out = append(out, k)
	}
	sort.Strings(out)
	return out
}
