package core

import (
	"fmt"
	"go/constant"
	"go/token"
	"go/types"
	"sort"
	"strings"

	"golang.org/x/tools/go/ssa"
)

// ---------------------------------------------------------------------------
// Access paths: a canonical, position-independent rendering of an SSA value so
// that two loads of the same location (go/ssa has no CSE) compare equal.

func AP(v ssa.Value) string { return ap(v, 0) }

func ap(v ssa.Value, depth int) string {
	if depth > 12 {
		return v.Name()
	}
	switch x := v.(type) {
	case *ssa.Parameter:
		return x.Name()
	case *ssa.FreeVar:
		return "^" + x.Name()
	case *ssa.Global:
		if x.Pkg != nil {
			return x.Pkg.Pkg.Name() + "." + x.Name()
		}
		return x.Name()
	case *ssa.Const:
		if x.Value == nil {
			return "nil"
		}
		return x.Value.ExactString()
	case *ssa.Function:
		return x.Name()
	case *ssa.Builtin:
		return x.Name()
	case *ssa.FieldAddr:
		return "&" + ap(x.X, depth+1) + "." + FieldName(x)
	case *ssa.Field:
		return ap(x.X, depth+1) + "." + FieldName(x)
	case *ssa.UnOp:
		switch x.Op {
		case token.MUL:
			if p, ok := Unspill(x).(*ssa.Parameter); ok {
				return p.Name()
			}
			s := ap(x.X, depth+1)
			if strings.HasPrefix(s, "&") {
				return s[1:]
			}
			return "*" + s
		case token.NOT:
			return "!" + ap(x.X, depth+1)
		case token.SUB:
			return "-" + ap(x.X, depth+1)
		}
		return x.Op.String() + ap(x.X, depth+1)
	case *ssa.IndexAddr:
		return "&" + ap(x.X, depth+1) + "[" + ap(x.Index, depth+1) + "]"
	case *ssa.Index:
		return ap(x.X, depth+1) + "[" + ap(x.Index, depth+1) + "]"
	case *ssa.Lookup:
		return ap(x.X, depth+1) + "[" + ap(x.Index, depth+1) + "]"
	case *ssa.BinOp:
		return "(" + ap(x.X, depth+1) + x.Op.String() + ap(x.Y, depth+1) + ")"
	case *ssa.Convert:
		return ap(x.X, depth+1)
	case *ssa.ChangeType:
		return ap(x.X, depth+1)
	case *ssa.Call:
		if b, ok := x.Call.Value.(*ssa.Builtin); ok {
			var as []string
			for _, a := range x.Call.Args {
				as = append(as, ap(a, depth+1))
			}
			return b.Name() + "(" + strings.Join(as, ",") + ")"
		}
		if f := x.Call.StaticCallee(); f != nil && isPureAccessor(f) {
			var as []string
			for _, a := range x.Call.Args {
				as = append(as, ap(a, depth+1))
			}
			return f.Name() + "(" + strings.Join(as, ",") + ")"
		}
		return x.Name()
	case *ssa.Extract:
		return ap(x.Tuple, depth+1) + "#" + fmt.Sprint(x.Index)
	case *ssa.Slice:
		s := ap(x.X, depth+1) + "["
		if x.Low != nil {
			s += ap(x.Low, depth+1)
		}
		s += ":"
		if x.High != nil {
			s += ap(x.High, depth+1)
		}
		return s + "]"
	}
	return v.Name()
}

// isPureAccessor recognises trivial in-repo accessors such as
// (*indexedDocument).size whose body is `return len(d.Tokens)`.
func isPureAccessor(f *ssa.Function) bool {
	if len(f.Blocks) != 1 {
		return false
	}
	for _, in := range f.Blocks[0].Instrs {
		switch x := in.(type) {
		case *ssa.FieldAddr, *ssa.Field, *ssa.UnOp, *ssa.Return, *ssa.DebugRef:
		case *ssa.Call:
			if b, ok := x.Call.Value.(*ssa.Builtin); !ok || (b.Name() != "len" && b.Name() != "cap") {
				return false
			}
		default:
			return false
		}
	}
	return true
}

// InlineAccessor returns the access path of the value returned by a pure accessor
// called with the given receiver path, e.g. size(d) -> len(d.Tokens).
func InlineAccessor(call *ssa.Call) (string, bool) {
	f := call.Call.StaticCallee()
	if f == nil || !isPureAccessor(f) || len(f.Params) != len(call.Call.Args) {
		return "", false
	}
	ret, ok := f.Blocks[0].Instrs[len(f.Blocks[0].Instrs)-1].(*ssa.Return)
	if !ok || len(ret.Results) != 1 {
		return "", false
	}
	s := AP(ret.Results[0])
	for i, p := range f.Params {
		s = replaceIdent(s, p.Name(), AP(call.Call.Args[i]))
	}
	return s, true
}

func replaceIdent(s, id, with string) string {
	var b strings.Builder
	for i := 0; i < len(s); {
		if strings.HasPrefix(s[i:], id) && (i == 0 || !isIdentCh(s[i-1])) && (i+len(id) == len(s) || !isIdentCh(s[i+len(id)])) {
			b.WriteString(with)
			i += len(id)
			continue
		}
		b.WriteByte(s[i])
		i++
	}
	return b.String()
}

func isIdentCh(c byte) bool {
	return c == '_' || (c >= '0' && c <= '9') || (c >= 'a' && c <= 'z') || (c >= 'A' && c <= 'Z')
}

// ---------------------------------------------------------------------------
// Linear forms over access-path leaves.

type Lin struct {
	Coef  map[string]int64
	Const int64
}

func (l Lin) String() string {
	var ks []string
	for k, c := range l.Coef {
		if c != 0 {
			ks = append(ks, fmt.Sprintf("%+d*%s", c, k))
		}
	}
	sort.Strings(ks)
	return strings.Join(ks, "") + fmt.Sprintf("%+d", l.Const)
}

func (l Lin) Equal(o Lin) bool { return l.String() == o.String() }

func (l Lin) Add(o Lin, sign int64) Lin {
	r := Lin{Coef: map[string]int64{}, Const: l.Const + sign*o.Const}
	for k, c := range l.Coef {
		r.Coef[k] += c
	}
	for k, c := range o.Coef {
		r.Coef[k] += sign * c
	}
	return r
}

// LinOf normalises an integer SSA expression to a linear form; subst maps phi /
// parameter names to replacement values (used to see through call boundaries).
func LinOf(v ssa.Value, subst map[ssa.Value]ssa.Value) Lin {
	if s, ok := subst[v]; ok {
		v = s
	}
	switch x := v.(type) {
	case *ssa.Const:
		if x.Value != nil && x.Value.Kind() == constant.Int {
			if n, ok := constant.Int64Val(x.Value); ok {
				return Lin{Coef: map[string]int64{}, Const: n}
			}
		}
	case *ssa.BinOp:
		switch x.Op {
		case token.ADD:
			return LinOf(x.X, subst).Add(LinOf(x.Y, subst), 1)
		case token.SUB:
			return LinOf(x.X, subst).Add(LinOf(x.Y, subst), -1)
		}
	case *ssa.Convert:
		if b, ok := x.Type().Underlying().(*types.Basic); ok && b.Info()&types.IsInteger != 0 {
			if bx, ok := x.X.Type().Underlying().(*types.Basic); ok && bx.Info()&types.IsInteger != 0 {
				return LinOf(x.X, subst)
			}
		}
	case *ssa.Call:
		if s, ok := InlineAccessor(x); ok {
			return Lin{Coef: map[string]int64{s: 1}}
		}
	}
	return Lin{Coef: map[string]int64{AP(v): 1}}
}

// ---------------------------------------------------------------------------
// Dominating facts.

// Fact is a branch condition known to hold (Truth) at a program point.
type Fact struct {
	Cond  ssa.Value
	Truth bool
	If    *ssa.If
}

// Dominates reports whether block a dominates block b.
func Dominates(a, b *ssa.BasicBlock) bool { return a.Dominates(b) }

// FactsAt returns the branch conditions that hold whenever control reaches block b:
// for every dominating If one of whose successors s dominates b, where the other
// successor does not, and s is entered only through that edge.
func FactsAt(b *ssa.BasicBlock) []Fact {
	return factsAt(b, 0)
}

func factsAt(b *ssa.BasicBlock, depth int) []Fact {
	var out []Fact
	for d := b.Idom(); d != nil; d = d.Idom() {
		if len(d.Instrs) == 0 {
			continue
		}
		ifi, ok := d.Instrs[len(d.Instrs)-1].(*ssa.If)
		if !ok {
			continue
		}
		t, f := d.Succs[0], d.Succs[1]
		if t == f {
			continue
		}
		onT := t.Dominates(b) && singleEntry(t, d)
		onF := f.Dominates(b) && singleEntry(f, d)
		if onT == onF {
			continue
		}
		cond, truth := ifi.Cond, onT
		for {
			if u, ok := cond.(*ssa.UnOp); ok && u.Op == token.NOT {
				cond, truth = u.X, !truth
				continue
			}
			break
		}
		out = append(out, Fact{Cond: cond, Truth: truth, If: ifi})
		out = append(out, expandBoolPhi(cond, truth, ifi, depth)...)
	}
	return out
}

// expandBoolPhi: a boolean phi produced by a short-circuit expression stored in a variable.
// phi == true  and all other edges are the constant false  => the remaining edge's value is true and the
//
//	facts of its predecessor block held (a && b);
//
// phi == false and all other edges are the constant true   => the remaining edge's value is false (a || b).
func expandBoolPhi(cond ssa.Value, truth bool, ifi *ssa.If, depth int) []Fact {
	phi, ok := cond.(*ssa.Phi)
	if !ok || depth > 3 {
		return nil
	}
	impossible := "false"
	if !truth {
		impossible = "true"
	}
	var rest []int
	for i, e := range phi.Edges {
		if c, ok := e.(*ssa.Const); ok && c.Value != nil && c.Value.String() == impossible {
			continue
		}
		rest = append(rest, i)
	}
	if len(rest) != 1 {
		return nil
	}
	e := phi.Edges[rest[0]]
	pb := phi.Block().Preds[rest[0]]
	var out []Fact
	ec, et := e, truth
	for {
		if u, ok := ec.(*ssa.UnOp); ok && u.Op == token.NOT {
			ec, et = u.X, !et
			continue
		}
		break
	}
	if _, isConst := ec.(*ssa.Const); !isConst {
		out = append(out, Fact{Cond: ec, Truth: et, If: ifi})
		out = append(out, expandBoolPhi(ec, et, ifi, depth+1)...)
	}
	// facts that held when control passed through the predecessor that supplied the value
	for _, f := range factsAt(pb, depth+1) {
		out = append(out, f)
	}
	// and the branch decisions inside the predecessor chain that lead to pb from the phi's dominator
	if len(pb.Instrs) > 0 {
		if d := pb.Idom(); d != nil {
			_ = d
		}
	}
	return out
}

// singleEntry: every predecessor of s other than d is dominated by s (loop back edges).
func singleEntry(s, d *ssa.BasicBlock) bool {
	for _, p := range s.Preds {
		if p == d {
			continue
		}
		if !s.Dominates(p) {
			return false
		}
	}
	return true
}

// FactsAtInstr is FactsAt for the block of an instruction.
func FactsAtInstr(in ssa.Instruction) []Fact { return FactsAt(in.Block()) }

// CmpFact normalises a comparison fact to (lhs op rhs) that is known TRUE.
type Cmp struct {
	Op   token.Token // EQL NEQ LSS LEQ GTR GEQ
	X, Y ssa.Value
}

func negate(op token.Token) token.Token {
	switch op {
	case token.EQL:
		return token.NEQ
	case token.NEQ:
		return token.EQL
	case token.LSS:
		return token.GEQ
	case token.GEQ:
		return token.LSS
	case token.GTR:
		return token.LEQ
	case token.LEQ:
		return token.GTR
	}
	return token.ILLEGAL
}

// AsCmp turns a fact into a comparison that holds, if the condition is a comparison.
func (f Fact) AsCmp() (Cmp, bool) {
	b, ok := f.Cond.(*ssa.BinOp)
	if !ok {
		return Cmp{}, false
	}
	switch b.Op {
	case token.EQL, token.NEQ, token.LSS, token.LEQ, token.GTR, token.GEQ:
	default:
		return Cmp{}, false
	}
	op := b.Op
	if !f.Truth {
		op = negate(op)
	}
	return Cmp{Op: op, X: b.X, Y: b.Y}, true
}

// ConstInt returns the integer value of a constant.
func ConstInt(v ssa.Value) (int64, bool) {
	c, ok := v.(*ssa.Const)
	if !ok || c.Value == nil || c.Value.Kind() != constant.Int {
		return 0, false
	}
	return constant.Int64Val(c.Value)
}

// ConstString returns the string value of a constant.
func ConstString(v ssa.Value) (string, bool) {
	c, ok := v.(*ssa.Const)
	if !ok || c.Value == nil || c.Value.Kind() != constant.String {
		return "", false
	}
	return constant.StringVal(c.Value), true
}

// ConstFloat returns the float value of a numeric constant.
func ConstFloat(v ssa.Value) (float64, bool) {
	c, ok := v.(*ssa.Const)
	if !ok || c.Value == nil {
		return 0, false
	}
	switch c.Value.Kind() {
	case constant.Float, constant.Int:
		f, _ := constant.Float64Val(c.Value)
		return f, true
	}
	return 0, false
}

// ---------------------------------------------------------------------------
// Post-dominators and control dependence.

type PostDom struct {
	fn    *ssa.Function
	ipdom map[*ssa.BasicBlock]*ssa.BasicBlock // nil = virtual exit
	order map[*ssa.BasicBlock]int
}

// NewPostDom computes immediate post-dominators with the iterative algorithm on
// the reverse CFG with a virtual exit that succeeds every block without successors.
func NewPostDom(fn *ssa.Function) *PostDom {
	n := len(fn.Blocks)
	const exit = -1
	// reverse post-order of the reverse CFG
	visited := make([]bool, n)
	var post []int
	var dfs func(i int)
	preds := func(i int) []int { // successors in the original CFG = predecessors in reverse CFG ordering
		var out []int
		for _, s := range fn.Blocks[i].Succs {
			out = append(out, s.Index)
		}
		return out
	}
	rsucc := func(i int) []int { // successors in the reverse CFG = preds in the original
		var out []int
		for _, p := range fn.Blocks[i].Preds {
			out = append(out, p.Index)
		}
		return out
	}
	dfs = func(i int) {
		visited[i] = true
		for _, s := range rsucc(i) {
			if !visited[s] {
				dfs(s)
			}
		}
		post = append(post, i)
	}
	var exits []int
	for i, b := range fn.Blocks {
		if len(b.Succs) == 0 {
			exits = append(exits, i)
		}
	}
	for _, x := range exits {
		if !visited[x] {
			dfs(x)
		}
	}
	// blocks in infinite loops never reach exit; treat them as exits too
	for i := range fn.Blocks {
		if !visited[i] {
			exits = append(exits, i)
			dfs(i)
		}
	}
	rpoNum := make([]int, n)
	for k, b := range post {
		rpoNum[b] = k // higher = closer to exit in processing order reversed below
	}
	idom := make([]int, n)
	for i := range idom {
		idom[i] = -2 // undefined
	}
	isExit := map[int]bool{}
	for _, x := range exits {
		isExit[x] = true
		idom[x] = exit
	}
	intersect := func(a, b int) int {
		for a != b {
			if a == exit || b == exit {
				return exit
			}
			for a != exit && b != exit && rpoNum[a] < rpoNum[b] {
				a = idom[a]
			}
			for a != exit && b != exit && rpoNum[b] < rpoNum[a] {
				b = idom[b]
			}
			if a == exit || b == exit {
				if a == b {
					return a
				}
				return exit
			}
		}
		return a
	}
	changed := true
	for changed {
		changed = false
		for k := len(post) - 1; k >= 0; k-- {
			b := post[k]
			if isExit[b] {
				continue
			}
			newIdom := -2
			for _, s := range preds(b) {
				if idom[s] == -2 {
					continue
				}
				if newIdom == -2 {
					newIdom = s
				} else {
					newIdom = intersect(s, newIdom)
				}
			}
			if newIdom != -2 && idom[b] != newIdom {
				idom[b] = newIdom
				changed = true
			}
		}
	}
	pd := &PostDom{fn: fn, ipdom: map[*ssa.BasicBlock]*ssa.BasicBlock{}}
	for i, b := range fn.Blocks {
		if idom[i] >= 0 {
			pd.ipdom[b] = fn.Blocks[idom[i]]
		} else {
			pd.ipdom[b] = nil
		}
	}
	return pd
}

// Ipdom returns the immediate post-dominator of b (nil for the virtual exit).
func (pd *PostDom) Ipdom(b *ssa.BasicBlock) *ssa.BasicBlock { return pd.ipdom[b] }

// PostDominates reports whether a post-dominates b (a == b counts).
func (pd *PostDom) PostDominates(a, b *ssa.BasicBlock) bool {
	for x := b; x != nil; x = pd.ipdom[x] {
		if x == a {
			return true
		}
	}
	return false
}

// ControlDeps returns, for each block, the set of (If-terminated) blocks it is
// control dependent on (Ferrante et al.: b is control dependent on d iff d has a
// successor s with b post-dominating s, and b does not strictly post-dominate d).
func (pd *PostDom) ControlDeps() map[*ssa.BasicBlock][]*ssa.BasicBlock {
	out := map[*ssa.BasicBlock][]*ssa.BasicBlock{}
	for _, d := range pd.fn.Blocks {
		if len(d.Succs) < 2 {
			continue
		}
		for _, s := range d.Succs {
			// walk from s up the post-dominator tree until ipdom(d)
			stop := pd.ipdom[d]
			for x := s; x != nil && x != stop; x = pd.ipdom[x] {
				out[x] = appendUnique(out[x], d)
				if x == d {
					break
				}
			}
		}
	}
	return out
}

func appendUnique(l []*ssa.BasicBlock, b *ssa.BasicBlock) []*ssa.BasicBlock {
	for _, x := range l {
		if x == b {
			return l
		}
	}
	return append(l, b)
}

// TransitiveControlDeps closes ControlDeps transitively.
func (pd *PostDom) TransitiveControlDeps() map[*ssa.BasicBlock]map[*ssa.BasicBlock]bool {
	direct := pd.ControlDeps()
	out := map[*ssa.BasicBlock]map[*ssa.BasicBlock]bool{}
	for _, b := range pd.fn.Blocks {
		seen := map[*ssa.BasicBlock]bool{}
		var work []*ssa.BasicBlock
		work = append(work, direct[b]...)
		for len(work) > 0 {
			d := work[len(work)-1]
			work = work[:len(work)-1]
			if seen[d] {
				continue
			}
			seen[d] = true
			work = append(work, direct[d]...)
		}
		out[b] = seen
	}
	return out
}

// ---------------------------------------------------------------------------
// Misc helpers.

// StaticCalleeName returns "pkgpath.Func" or "(pkgpath.T).M" for a static call, "" otherwise.
func StaticCalleeName(cc *ssa.CallCommon) string {
	if cc.IsInvoke() {
		return "(" + types.TypeString(cc.Value.Type(), nil) + ")." + cc.Method.Name()
	}
	f := cc.StaticCallee()
	if f == nil {
		if b, ok := cc.Value.(*ssa.Builtin); ok {
			return "builtin." + b.Name()
		}
		return ""
	}
	if o := f.Origin(); o != nil {
		f = o
	}
	if obj, ok := f.Object().(*types.Func); ok && obj != nil {
		return obj.FullName()
	}
	return f.String()
}

// CallsIn lists call instructions (Call, Go, Defer) of a function.
func CallsIn(fn *ssa.Function) []ssa.CallInstruction {
	var out []ssa.CallInstruction
	for _, b := range fn.Blocks {
		for _, in := range b.Instrs {
			if c, ok := in.(ssa.CallInstruction); ok {
				out = append(out, c)
			}
		}
	}
	return out
}

// WithAnon returns fn and all functions nested in it.
func WithAnon(fn *ssa.Function) []*ssa.Function {
	out := []*ssa.Function{fn}
	for _, a := range fn.AnonFuncs {
		out = append(out, WithAnon(a)...)
	}
	return out
}

// IsFieldAddrOf reports whether v is &X.f for a field named f of the named struct type.
func IsFieldAddrOf(v ssa.Value, typeName, field string) bool {
	fa, ok := v.(*ssa.FieldAddr)
	if !ok {
		return false
	}
	return FieldName(fa) == field && strings.HasSuffix(TypeName(fa.X.Type()), typeName)
}

// LoadOfField reports whether v is a load (*&X.f) or value-field access of field f.
func LoadOfField(v ssa.Value, typeName, field string) bool {
	switch x := v.(type) {
	case *ssa.UnOp:
		if x.Op == token.MUL {
			return IsFieldAddrOf(x.X, typeName, field)
		}
	case *ssa.Field:
		return FieldName(x) == field && strings.HasSuffix(TypeName(x.X.Type()), typeName)
	}
	return false
}

// Unspill sees through the heap spill of a captured parameter: a load of an Alloc whose
// only store is the initial store of a Parameter yields that parameter.
func Unspill(v ssa.Value) ssa.Value {
	u, ok := v.(*ssa.UnOp)
	if !ok || u.Op != token.MUL {
		return v
	}
	al, ok := u.X.(*ssa.Alloc)
	if !ok {
		return v
	}
	var src ssa.Value
	n := 0
	for _, r := range *al.Referrers() {
		if st, ok := r.(*ssa.Store); ok && st.Addr == al {
			n++
			src = st.Val
		}
	}
	if n == 1 {
		if p, ok := src.(*ssa.Parameter); ok {
			return p
		}
	}
	return v
}
