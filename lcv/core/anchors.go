package core

// Anchor fallback: rules are anchored on functions by package path + name. When a name no
// longer resolves (an unexported function was renamed), the function is looked up by the
// *shape* recorded for it in anchors.json (generated from the tree the rules were written
// against): structural signature + the set of standard-library functions it calls. A unique
// best candidate is accepted and noted; otherwise the anchor stays unresolved (and the rule fails).

import (
	"encoding/json"
	"fmt"
	"go/types"
	"os"
	"path/filepath"
	"sort"
	"strings"
	"sync"

	"golang.org/x/tools/go/ssa"
)

// KnownNames: every function name that existed in the tree the table was generated from, per
// package. A function that still has one of those names was not renamed, so it is not a candidate
// when another anchor has to be resolved by shape.
var knownNames = map[string]bool{}

type AnchorShape struct {
	Pkg     string   `json:"pkg"`
	Spec    string   `json:"spec"`
	Sig     string   `json:"sig"`     // structural signature
	Callees []string `json:"callees"` // external (non-repo) static callees
	Blocks  int      `json:"blocks"`
}

var (
	anchorMu     sync.Mutex
	anchorTable  map[string]AnchorShape
	anchorLoaded bool
	// AnchorFile is set by the command (default <verif>/anchors.json).
	AnchorFile string
	// Requested records every anchor asked for (used to regenerate the table).
	Requested = map[string]AnchorShape{}
	// Fallbacks records anchors that were resolved by shape.
	Fallbacks = map[string]string{}
)

func kindOf(t types.Type, depth int) string {
	if depth > 3 {
		return "_"
	}
	switch u := t.(type) {
	case *types.Named:
		// well-known library types keep their names; repo types are structural
		if u.Obj().Pkg() != nil && !strings.HasPrefix(u.Obj().Pkg().Path(), RootMod) {
			return u.Obj().Pkg().Path() + "." + u.Obj().Name()
		}
		if u.Obj().Pkg() == nil {
			return u.Obj().Name()
		}
		return "N(" + kindOf(u.Underlying(), depth+1) + ")"
	case *types.Pointer:
		return "*" + kindOf(u.Elem(), depth+1)
	case *types.Slice:
		return "[]" + kindOf(u.Elem(), depth+1)
	case *types.Array:
		return "[n]" + kindOf(u.Elem(), depth+1)
	case *types.Map:
		return "map[" + kindOf(u.Key(), depth+1) + "]" + kindOf(u.Elem(), depth+1)
	case *types.Struct:
		return "struct"
	case *types.Interface:
		return "iface"
	case *types.Signature:
		return "func"
	case *types.Chan:
		return "chan"
	case *types.Basic:
		return u.Name()
	case *types.Tuple:
		var parts []string
		for i := 0; i < u.Len(); i++ {
			parts = append(parts, kindOf(u.At(i).Type(), depth+1))
		}
		return "(" + strings.Join(parts, ",") + ")"
	}
	return "?"
}

func shapeOf(fn *ssa.Function) AnchorShape {
	var sh AnchorShape
	sig := fn.Signature
	s := ""
	if sig.Recv() != nil {
		s += "recv " + kindOf(sig.Recv().Type(), 0) + " "
	}
	s += kindOf(sig.Params(), 0) + " -> " + kindOf(sig.Results(), 0)
	if fn.Object() != nil && fn.Object().Exported() {
		s = "exported " + s
	}
	sh.Sig = s
	set := map[string]bool{}
	for _, f := range WithAnon(fn) {
		for _, call := range CallsIn(f) {
			n := StaticCalleeName(call.Common())
			if n == "" || strings.HasPrefix(n, RootMod) || strings.Contains(n, RootMod+"/") || strings.HasPrefix(n, "builtin.") {
				continue
			}
			if strings.HasPrefix(n, "(") && strings.Contains(n, RootMod) {
				continue
			}
			set[n] = true
		}
	}
	for k := range set {
		sh.Callees = append(sh.Callees, k)
	}
	sort.Strings(sh.Callees)
	sh.Blocks = len(fn.Blocks)
	return sh
}

func loadAnchors() {
	anchorMu.Lock()
	defer anchorMu.Unlock()
	if anchorLoaded {
		return
	}
	anchorLoaded = true
	anchorTable = map[string]AnchorShape{}
	f := AnchorFile
	if f == "" {
		return
	}
	b, err := os.ReadFile(f)
	if err != nil {
		return
	}
	var list []AnchorShape
	if json.Unmarshal(b, &list) == nil {
		for _, a := range list {
			if a.Spec == "*names*" {
				for _, n := range a.Callees {
					knownNames[a.Pkg+"|"+n] = true
				}
				continue
			}
			anchorTable[a.Pkg+"|"+a.Spec] = a
		}
	}
}

// RecordNames adds the function names of the module's own packages to the table being generated.
func RecordNames(p *Prog) {
	anchorMu.Lock()
	defer anchorMu.Unlock()
	per := map[string][]string{}
	for _, fn := range p.SrcFuncs(RootMod) {
		if fn.Parent() != nil {
			continue
		}
		pk := FuncPkgPath(fn)
		per[pk] = append(per[pk], qualName(fn))
	}
	for pk, names := range per {
		sort.Strings(names)
		Requested[pk+"|*names*"] = AnchorShape{Pkg: pk, Spec: "*names*", Callees: names}
	}
}

// SaveRequested writes the shapes of every anchor resolved by name in this process.
func SaveRequested(path string) error {
	anchorMu.Lock()
	defer anchorMu.Unlock()
	var list []AnchorShape
	// merge with the existing table
	merged := map[string]AnchorShape{}
	if b, err := os.ReadFile(path); err == nil {
		var old []AnchorShape
		if json.Unmarshal(b, &old) == nil {
			for _, a := range old {
				merged[a.Pkg+"|"+a.Spec] = a
			}
		}
	}
	for k, v := range Requested {
		merged[k] = v
	}
	for _, v := range merged {
		list = append(list, v)
	}
	sort.Slice(list, func(i, j int) bool { return list[i].Pkg+list[i].Spec < list[j].Pkg+list[j].Spec })
	b, _ := json.MarshalIndent(list, "", " ")
	os.MkdirAll(filepath.Dir(path), 0755)
	return os.WriteFile(path, append(b, '\n'), 0644)
}

// qualName: "f" for functions, "T.m" for methods (receiver type name without pointer).
func qualName(fn *ssa.Function) string {
	if r := fn.Signature.Recv(); r != nil {
		t := r.Type()
		if p, ok := t.(*types.Pointer); ok {
			t = p.Elem()
		}
		if n, ok := t.(*types.Named); ok {
			return n.Obj().Name() + "." + fn.Name()
		}
	}
	return fn.Name()
}

func jaccard(a, b []string) float64 {
	if len(a) == 0 && len(b) == 0 {
		return 1
	}
	m := map[string]bool{}
	for _, x := range a {
		m[x] = true
	}
	inter := 0
	for _, x := range b {
		if m[x] {
			inter++
		}
	}
	union := len(a) + len(b) - inter
	return float64(inter) / float64(union)
}

// resolveByShape finds the unique best function of the package matching the recorded shape.
func (p *Prog) resolveByShape(pkgPath, spec string) *ssa.Function {
	loadAnchors()
	want, ok := anchorTable[pkgPath+"|"+spec]
	if !ok {
		return nil
	}
	isMethod := strings.Contains(spec, ".")
	type cand struct {
		fn    *ssa.Function
		score float64
	}
	var cands []cand
	for _, fn := range p.SrcFuncs(pkgPath) {
		if FuncPkgPath(fn) != pkgPath || fn.Parent() != nil {
			continue
		}
		if (fn.Signature.Recv() != nil) != isMethod {
			continue
		}
		// a function that kept a name of the original tree was not renamed: not a candidate
		if knownNames[pkgPath+"|"+qualName(fn)] {
			continue
		}
		sh := shapeOf(fn)
		if sh.Sig != want.Sig {
			continue
		}
		sc := jaccard(sh.Callees, want.Callees)
		// closeness in size as a weak tie-breaker
		d := sh.Blocks - want.Blocks
		if d < 0 {
			d = -d
		}
		sc -= float64(d) / float64(10*(want.Blocks+1))
		cands = append(cands, cand{fn, sc})
	}
	if len(cands) == 0 {
		return nil
	}
	// a candidate that kept the function/method name (only its receiver type was renamed) wins outright
	wantName := spec
	if i := strings.LastIndex(spec, "."); i >= 0 {
		wantName = spec[i+1:]
	}
	var same []cand
	for _, c := range cands {
		if c.fn.Name() == wantName {
			same = append(same, c)
		}
	}
	if len(same) == 1 {
		anchorMu.Lock()
		Fallbacks[pkgPath+"|"+spec] = ShortFn(same[0].fn)
		anchorMu.Unlock()
		return same[0].fn
	}
	sort.Slice(cands, func(i, j int) bool { return cands[i].score > cands[j].score })
	if cands[0].score < 0.5 {
		return nil
	}
	if len(cands) > 1 && cands[0].score-cands[1].score < 0.15 {
		// ambiguous: prefer a candidate that is not itself a known anchor name
		var free []cand
		for _, c := range cands {
			if c.score >= cands[0].score-0.15 && !p.isKnownAnchorName(pkgPath, c.fn) {
				free = append(free, c)
			}
		}
		if len(free) != 1 {
			return nil
		}
		cands[0] = free[0]
	}
	anchorMu.Lock()
	Fallbacks[pkgPath+"|"+spec] = ShortFn(cands[0].fn)
	anchorMu.Unlock()
	return cands[0].fn
}

func (p *Prog) isKnownAnchorName(pkgPath string, fn *ssa.Function) bool {
	for k := range anchorTable {
		parts := strings.SplitN(k, "|", 2)
		if parts[0] != pkgPath {
			continue
		}
		if f := p.funcByName(pkgPath, parts[1]); f == fn {
			return true
		}
	}
	return false
}

func describeFallbacks() []string {
	anchorMu.Lock()
	defer anchorMu.Unlock()
	var out []string
	for k, v := range Fallbacks {
		out = append(out, fmt.Sprintf("anchor %s resolved by shape to %s", strings.Replace(k, "|", " ", 1), v))
	}
	sort.Strings(out)
	return out
}

// FallbackNotes lists anchors that were resolved by shape in this process.
func FallbackNotes() []string { return describeFallbacks() }
