// Package core holds the program loader, anchor resolution, SSA helpers and the
// obligation/evidence plumbing shared by every rule.
package core

import (
	"fmt"
	"go/ast"
	"go/token"
	"go/types"
	"os"
	"path/filepath"
	"sort"
	"strings"

	"golang.org/x/tools/go/packages"
	"golang.org/x/tools/go/ssa"
	"golang.org/x/tools/go/ssa/ssautil"
)

// Module paths of the two modules of google/licenseclassifier.
const (
	RootMod = "github.com/google/licenseclassifier"
	V2Mod   = "github.com/google/licenseclassifier/v2"
	DiffPkg = "github.com/sergi/go-diff/diffmatchpatch"
)

// Prog is one loaded, type-checked Go module in SSA form.
type Prog struct {
	Dir      string // module directory
	RepoDir  string // repository root
	Fset     *token.FileSet
	Roots    []*packages.Package // packages of the module itself
	All      map[string]*packages.Package
	SSA      *ssa.Program
	SSAPkgs  map[string]*ssa.Package
	NumFuncs int
	Env      []string
}

// LoadOpts selects what to load.
type LoadOpts struct {
	Repo   string   // repository root (default /repo)
	Sub    string   // "" for the root module, "v2" for the v2 module
	GOOS   string   // optional
	GOARCH string   // optional
	Extra  []string // additional patterns (default ./...)
}

// Load type-checks the module from the *current* working tree and builds SSA for
// the module and all of its dependencies. It never writes into the repository:
// go.mod/go.sum are copied to a temp dir and selected with -modfile.
func Load(o LoadOpts) (*Prog, error) {
	if o.Repo == "" {
		o.Repo = "/repo"
	}
	dir := filepath.Join(o.Repo, o.Sub)
	tmp, err := os.MkdirTemp("", "lcv-mod-")
	if err != nil {
		return nil, err
	}
	defer os.RemoveAll(tmp)
	for _, f := range []string{"go.mod", "go.sum"} {
		b, err := os.ReadFile(filepath.Join(dir, f))
		if err != nil {
			return nil, fmt.Errorf("load %s: %v", dir, err)
		}
		if err := os.WriteFile(filepath.Join(tmp, "x"+f[2:]), b, 0644); err != nil {
			return nil, err
		}
	}
	env := []string{}
	for _, e := range os.Environ() {
		if strings.HasPrefix(e, "GOFLAGS=") || strings.HasPrefix(e, "GOWORK=") || strings.HasPrefix(e, "GOOS=") || strings.HasPrefix(e, "GOARCH=") {
			continue
		}
		env = append(env, e)
	}
	env = append(env, "GOFLAGS=-mod=mod -modfile="+filepath.Join(tmp, "x.mod"), "GOWORK=off", "GOPROXY=off", "GOSUMDB=off", "GOTOOLCHAIN=local", "CGO_ENABLED=0")
	if o.GOOS != "" {
		env = append(env, "GOOS="+o.GOOS)
	}
	if o.GOARCH != "" {
		env = append(env, "GOARCH="+o.GOARCH)
	}
	cfg := &packages.Config{Mode: packages.LoadAllSyntax | packages.NeedEmbedFiles | packages.NeedEmbedPatterns, Dir: dir, Env: env, Tests: false}
	pats := o.Extra
	if len(pats) == 0 {
		pats = []string{"./..."}
	}
	pkgs, err := packages.Load(cfg, pats...)
	if err != nil {
		return nil, fmt.Errorf("load %s: %v", dir, err)
	}
	if len(pkgs) == 0 {
		return nil, fmt.Errorf("load %s: no packages", dir)
	}
	var errs []string
	packages.Visit(pkgs, nil, func(p *packages.Package) {
		for _, e := range p.Errors {
			errs = append(errs, e.Error())
		}
	})
	if len(errs) > 0 {
		sort.Strings(errs)
		if len(errs) > 10 {
			errs = errs[:10]
		}
		return nil, fmt.Errorf("type-check/load errors in %s:\n  %s", dir, strings.Join(errs, "\n  "))
	}
	p := &Prog{Dir: dir, RepoDir: o.Repo, Roots: pkgs, All: map[string]*packages.Package{}, SSAPkgs: map[string]*ssa.Package{}, Env: env}
	p.Fset = pkgs[0].Fset
	packages.Visit(pkgs, nil, func(pk *packages.Package) { p.All[pk.PkgPath] = pk })
	prog, _ := ssautil.AllPackages(pkgs, ssa.InstantiateGenerics)
	prog.Build()
	p.SSA = prog
	for _, sp := range prog.AllPackages() {
		p.SSAPkgs[sp.Pkg.Path()] = sp
	}
	p.NumFuncs = len(ssautil.AllFunctions(prog))
	return p, nil
}

// Pkg returns a loaded package by import path.
func (p *Prog) Pkg(path string) *packages.Package { return p.All[path] }

// Pos renders a position relative to the repository root (or module cache).
func (p *Prog) Pos(pos token.Pos) string {
	if !pos.IsValid() {
		return "-"
	}
	ps := p.Fset.Position(pos)
	f := ps.Filename
	if rel, err := filepath.Rel(p.RepoDir, f); err == nil && !strings.HasPrefix(rel, "..") {
		f = rel
	} else if i := strings.Index(f, "/pkg/mod/"); i >= 0 {
		f = f[i+len("/pkg/mod/"):]
	}
	return fmt.Sprintf("%s:%d", f, ps.Line)
}

// InRepo reports whether the function belongs to google/licenseclassifier.
func InRepo(fn *ssa.Function) bool {
	pk := FuncPkgPath(fn)
	return strings.HasPrefix(pk, RootMod)
}

// FuncPkgPath returns the import path of the package a function (or closure,
// wrapper, instantiation) belongs to.
func FuncPkgPath(fn *ssa.Function) string {
	for fn != nil {
		if fn.Pkg != nil {
			return fn.Pkg.Pkg.Path()
		}
		if fn.Parent() != nil {
			fn = fn.Parent()
			continue
		}
		if o := fn.Origin(); o != nil && o != fn {
			fn = o
			continue
		}
		if fn.Object() != nil && fn.Object().Pkg() != nil {
			return fn.Object().Pkg().Path()
		}
		break
	}
	return ""
}

// Func resolves an anchor "pkgpath" + spec where spec is "f", "T.m" or
// "(*T).m". Returns nil if it does not resolve.
func (p *Prog) Func(pkgPath, spec string) *ssa.Function {
	fn := p.funcByName(pkgPath, spec)
	if fn != nil {
		anchorMu.Lock()
		if _, ok := Requested[pkgPath+"|"+spec]; !ok {
			sh := shapeOf(fn)
			sh.Pkg, sh.Spec = pkgPath, spec
			Requested[pkgPath+"|"+spec] = sh
		}
		anchorMu.Unlock()
		return fn
	}
	if fn := p.resolveByShape(pkgPath, spec); fn != nil {
		return fn
	}
	return p.resolveByBareName(pkgPath, spec)
}

// resolveByBareName: the last resort for a method that was turned into a function (or moved to another receiver
// type): the only function or method of the package that carries the anchor's base name.
func (p *Prog) resolveByBareName(pkgPath, spec string) *ssa.Function {
	base := spec
	if i := strings.LastIndex(base, "."); i >= 0 {
		base = base[i+1:]
	}
	var found *ssa.Function
	for _, fn := range p.SrcFuncs(pkgPath) {
		if FuncPkgPath(fn) != pkgPath || fn.Parent() != nil || fn.Name() != base || fn.Synthetic != "" {
			continue
		}
		if found != nil && found != fn {
			return nil
		}
		found = fn
	}
	return found
}

// IsFn reports whether fn is the function anchored as (pkgPath, spec).
func (p *Prog) IsFn(fn *ssa.Function, pkgPath, spec string) bool {
	return fn != nil && fn == p.Func(pkgPath, spec)
}

func (p *Prog) funcByName(pkgPath, spec string) *ssa.Function {
	sp := p.SSAPkgs[pkgPath]
	if sp == nil {
		return nil
	}
	spec = strings.TrimSpace(spec)
	if !strings.Contains(spec, ".") {
		return sp.Func(spec)
	}
	ptr := false
	s := spec
	if strings.HasPrefix(s, "(*") {
		ptr = true
		s = strings.TrimPrefix(s, "(*")
		s = strings.Replace(s, ")", "", 1)
	} else if strings.HasPrefix(s, "(") {
		s = strings.TrimPrefix(s, "(")
		s = strings.Replace(s, ")", "", 1)
	}
	i := strings.Index(s, ".")
	tn, mn := s[:i], s[i+1:]
	obj := sp.Pkg.Scope().Lookup(tn)
	if obj == nil {
		return nil
	}
	named, ok := obj.Type().(*types.Named)
	if !ok {
		return nil
	}
	var recv types.Type = named
	if ptr {
		recv = types.NewPointer(named)
	}
	sel := p.SSA.MethodSets.MethodSet(recv).Lookup(sp.Pkg, mn)
	if sel == nil {
		// try the other receiver kind
		if !ptr {
			sel = p.SSA.MethodSets.MethodSet(types.NewPointer(named)).Lookup(sp.Pkg, mn)
		}
		if sel == nil {
			return nil
		}
	}
	fn := p.SSA.MethodValue(sel)
	// unwrap synthetic pointer-receiver wrappers to the declared method
	if fn != nil && fn.Synthetic != "" {
		if m, ok := sel.Obj().(*types.Func); ok {
			if d := p.SSA.FuncValue(m); d != nil {
				return d
			}
		}
	}
	return fn
}

// Named resolves a named type.
func (p *Prog) Named(pkgPath, name string) *types.Named {
	pk := p.All[pkgPath]
	if pk == nil || pk.Types == nil {
		return nil
	}
	obj := pk.Types.Scope().Lookup(name)
	if obj == nil {
		return nil
	}
	n, _ := obj.Type().(*types.Named)
	return n
}

// Global resolves a package-level variable.
func (p *Prog) Global(pkgPath, name string) *ssa.Global {
	sp := p.SSAPkgs[pkgPath]
	if sp == nil {
		return nil
	}
	g, _ := sp.Members[name].(*ssa.Global)
	return g
}

// FieldIndex returns the index of a struct field by name, or -1.
func FieldIndex(t types.Type, name string) int {
	if ptr, ok := t.Underlying().(*types.Pointer); ok {
		t = ptr.Elem()
	}
	st, ok := t.Underlying().(*types.Struct)
	if !ok {
		return -1
	}
	for i := 0; i < st.NumFields(); i++ {
		if st.Field(i).Name() == name {
			return i
		}
	}
	return -1
}

// StructOf returns the struct type behind t (through one pointer), or nil.
func StructOf(t types.Type) *types.Struct {
	if ptr, ok := t.Underlying().(*types.Pointer); ok {
		t = ptr.Elem()
	}
	st, _ := t.Underlying().(*types.Struct)
	return st
}

// FieldName names the field accessed by a FieldAddr/Field instruction.
func FieldName(v ssa.Value) string {
	switch x := v.(type) {
	case *ssa.FieldAddr:
		if st := StructOf(x.X.Type()); st != nil {
			return st.Field(x.Field).Name()
		}
	case *ssa.Field:
		if st := StructOf(x.X.Type()); st != nil {
			return st.Field(x.Field).Name()
		}
	}
	return ""
}

// TypeName gives "pkgpath.Name" of the named struct behind t (through pointers).
func TypeName(t types.Type) string {
	for {
		if ptr, ok := t.(*types.Pointer); ok {
			t = ptr.Elem()
			continue
		}
		break
	}
	if n, ok := t.(*types.Named); ok {
		if n.Obj().Pkg() != nil {
			return n.Obj().Pkg().Path() + "." + n.Obj().Name()
		}
		return n.Obj().Name()
	}
	return t.String()
}

// FuncDecl finds the AST declaration of an SSA function.
func (p *Prog) FuncDecl(fn *ssa.Function) *ast.FuncDecl {
	if fn == nil {
		return nil
	}
	if d, ok := fn.Syntax().(*ast.FuncDecl); ok {
		return d
	}
	return nil
}

// SrcFuncs lists every function with a body (incl. closures) of the packages
// whose path has the given prefix, sorted by position.
func (p *Prog) SrcFuncs(prefix string) []*ssa.Function {
	var out []*ssa.Function
	seen := map[*ssa.Function]bool{}
	var add func(fn *ssa.Function)
	add = func(fn *ssa.Function) {
		if fn == nil || seen[fn] {
			return
		}
		seen[fn] = true
		if len(fn.Blocks) > 0 && fn.Synthetic == "" {
			out = append(out, fn)
		}
		for _, a := range fn.AnonFuncs {
			add(a)
		}
	}
	for path, sp := range p.SSAPkgs {
		if !strings.HasPrefix(path, prefix) {
			continue
		}
		for _, m := range sp.Members {
			switch x := m.(type) {
			case *ssa.Function:
				add(x)
			case *ssa.Type:
				if n, ok := x.Type().(*types.Named); ok {
					for i := 0; i < n.NumMethods(); i++ {
						add(p.SSA.FuncValue(n.Method(i)))
					}
				}
			}
		}
	}
	sort.Slice(out, func(i, j int) bool {
		if out[i].Pos() != out[j].Pos() {
			return out[i].Pos() < out[j].Pos()
		}
		return out[i].String() < out[j].String()
	})
	return out
}

// InitFuncs returns the synthetic package initialisers (package-level var initialisation) of
// the packages with the given path prefix.
func (p *Prog) InitFuncs(prefix string) []*ssa.Function {
	var out []*ssa.Function
	for path, sp := range p.SSAPkgs {
		if strings.HasPrefix(path, prefix) {
			if f := sp.Func("init"); f != nil && len(f.Blocks) > 0 {
				out = append(out, f)
				for _, a := range f.AnonFuncs {
					out = append(out, a)
				}
			}
		}
	}
	sort.Slice(out, func(i, j int) bool { return out[i].String() < out[j].String() })
	return out
}

// ShortFn renders a function name without the module prefix.
func ShortFn(fn *ssa.Function) string {
	s := fn.String()
	s = strings.ReplaceAll(s, RootMod+"/", "")
	s = strings.ReplaceAll(s, "github.com/sergi/go-diff/", "")
	return s
}

// UniqueField returns the only field of the struct behind t whose type satisfies pred.
func UniqueField(t types.Type, pred func(types.Type) bool) (string, bool) {
	st := StructOf(t)
	if st == nil {
		return "", false
	}
	name, n := "", 0
	for i := 0; i < st.NumFields(); i++ {
		if pred(st.Field(i).Type()) {
			name = st.Field(i).Name()
			n++
		}
	}
	return name, n == 1
}

// IsNamedType reports whether t (through pointers) is the named type pkgPath.name.
func IsNamedType(t types.Type, pkgPath, name string) bool {
	for {
		if p, ok := t.(*types.Pointer); ok {
			t = p.Elem()
			continue
		}
		break
	}
	n, ok := t.(*types.Named)
	return ok && n.Obj().Pkg() != nil && n.Obj().Pkg().Path() == pkgPath && n.Obj().Name() == name
}
