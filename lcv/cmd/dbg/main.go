package main

import (
	"fmt"
	"os"

	"lcv/core"
	"lcv/eng"
)

func main() {
	p, err := core.Load(core.LoadOpts{Repo: "/repo", Sub: "v2"})
	if err != nil {
		panic(err)
	}
	fn := p.Func(core.V2Mod, os.Args[1])
	e := eng.NewExplorer(p, core.V2Mod, "github.com/sergi/go-diff")
	ps := make([]eng.Prov, len(fn.Params))
	for i, prm := range fn.Params {
		if eng.PointerLike(prm.Type()) {
			ps[i] = eng.Shared
		}
	}
	e.Run(fn, ps)
	for k, v := range e.Viol {
		fmt.Println("VIOL", k, v.Prov, p.Pos(v.Pos), eng.IdentityAppend(v.Instr))
	}
	for k, v := range e.Undecided {
		fmt.Println("UNDEC", k, v.Prov, p.Pos(v.Pos), v.Detail)
	}
}
