// dbgeff: debugging aid for the effect explorer (not used by any check).
// usage: LCV_REPO=<tree> dbgeff <sub:""|v2> <pkg path> <func spec> <Shared|Input|Fresh>... [-- substr]
package main

import (
	"fmt"
	"os"
	"sort"
	"strings"

	"lcv/core"
	"lcv/eng"
)

func main() {
	repo := os.Getenv("LCV_REPO")
	if repo == "" {
		repo = "/repo"
	}
	sub, pkg, spec := os.Args[1], os.Args[2], os.Args[3]
	p, err := core.Load(core.LoadOpts{Repo: repo, Sub: sub})
	if err != nil {
		panic(err)
	}
	fn := p.Func(pkg, spec)
	if fn == nil {
		panic("no such function")
	}
	var provs []eng.Prov
	filter := ""
	for i, a := range os.Args[4:] {
		if a == "--" {
			filter = os.Args[4+i+1]
			break
		}
		switch a {
		case "Shared":
			provs = append(provs, eng.Shared)
		case "Input":
			provs = append(provs, eng.Input)
		case "Fresh":
			provs = append(provs, eng.Fresh)
		default:
			provs = append(provs, 0)
		}
	}
	for len(provs) < len(fn.Params) {
		provs = append(provs, 0)
	}
	e := eng.NewExplorer(p, core.RootMod, "github.com/sergi/go-diff")
	e.AllowGo = true
	e.Run(fn, provs)
	var ks []string
	for k := range e.Viol {
		ks = append(ks, k)
	}
	sort.Strings(ks)
	for _, k := range ks {
		fmt.Println("VIOL", k, e.Viol[k].Prov)
	}
	for _, l := range e.DebugClones(filter) {
		if filter == "" || strings.Contains(l, filter) {
			fmt.Println(l)
		}
	}
}
