// lcverif: static verification of google/licenseclassifier properties.
//
//	lcverif check <id> <quick|thorough>   decide one property on the current tree
//	lcverif explain <report.json>         print a replay report
//	lcverif list                          list property ids
package main

import (
	"encoding/json"
	"fmt"
	"os"
	"path/filepath"

	"lcv/core"
	"lcv/props"
)

func main() {
	if len(os.Args) < 2 {
		usage()
	}
	repo := os.Getenv("LCV_REPO")
	if repo == "" {
		repo = "/repo"
	}
	verif := os.Getenv("LCV_VERIF")
	if verif == "" {
		exe, _ := os.Executable()
		verif = filepath.Dir(filepath.Dir(exe))
	}
	core.AnchorFile = filepath.Join(verif, "anchors.json")
	switch os.Args[1] {
	case "gen-anchors":
		// resolve every anchor on the current tree (by running all checks with their output discarded) and record its shape
		os.Setenv("LCV_OUT", os.TempDir()+"/lcv-gen-anchors")
		os.Setenv("LCV_GEN_ANCHORS", "1")
		for _, id := range props.IDs() {
			props.RunCheck(repo, verif, id, "quick")
		}
		os.RemoveAll(os.TempDir() + "/lcv-gen-anchors")
		if err := core.SaveRequested(core.AnchorFile); err != nil {
			fmt.Fprintln(os.Stderr, err)
			os.Exit(2)
		}
		fmt.Println("wrote", core.AnchorFile)
	case "check":
		if len(os.Args) < 4 {
			usage()
		}
		tier := os.Args[3]
		if tier != "quick" && tier != "thorough" {
			usage()
		}
		os.Exit(props.RunCheck(repo, verif, os.Args[2], tier))
	case "list":
		for _, id := range props.IDs() {
			fmt.Println(id)
		}
	case "explain":
		if len(os.Args) < 3 {
			usage()
		}
		b, err := os.ReadFile(os.Args[2])
		if err != nil {
			fmt.Fprintln(os.Stderr, err)
			os.Exit(2)
		}
		var rep struct {
			Property   string `json:"property"`
			Tier       string `json:"tier"`
			Violations []struct {
				Rule, Construct, Pos, Status, Detail string
			} `json:"violations"`
		}
		if err := json.Unmarshal(b, &rep); err != nil {
			fmt.Fprintln(os.Stderr, err)
			os.Exit(2)
		}
		fmt.Printf("property %s (%s): %d violation(s)\n", rep.Property, rep.Tier, len(rep.Violations))
		for _, v := range rep.Violations {
			fmt.Printf("  [%s] %s\n      at %s\n      %s: %s\n", v.Rule, v.Construct, v.Pos, v.Status, v.Detail)
		}
		fmt.Printf("re-run: ./check %s %s\n", rep.Property, rep.Tier)
	default:
		usage()
	}
}

func usage() {
	fmt.Fprintln(os.Stderr, "usage: lcverif check <id> <quick|thorough> | explain <report.json> | list")
	os.Exit(2)
}
