package props

import (
	"fmt"
	"golang.org/x/tools/go/ssa"
	"lcv/core"
	"lcv/eng"
)

var matchScope = []string{core.V2Mod, "github.com/sergi/go-diff"}

func init() {
	register(&Check{
		ID:      "C09",
		Modules: []string{"v2"},
		Explanation: "Static effect/ownership analysis (E1) of the SSA of (*Classifier).Match and MatchFrom, explored context-sensitively through every in-module callee and through github.com/sergi/go-diff: " +
			"no reachable instruction may write memory reachable from the shared classifier, a package-level variable or the caller's input; no goroutine, channel operation or unsummarised external call with shared mutable arguments; " +
			"every formatting method that fmt/spew can call under tracing is effect-free. Concurrent Match calls share only the classifier and globals, so the absence of such writes implies data-race freedom among them. " +
			"This decides the structural clause (no shared write on any path, for all inputs and interleavings); it does not decide that concurrent results equal sequential ones beyond that (which additionally rests on determinism, C04).",
		Run: runC09,
	})
}

func runC09(c *Ctx) {
	p := c.Prog("v2")
	if p == nil {
		return
	}
	c.R.Assume("the standard library behaves as summarised in the trusted_base entries (stdlib code is not analysed)")
	c.R.Assume("unsafe and reflection are not modelled (go-spew uses them read-only under tracing)")
	c.R.Assume("the heap summary is field-based: all fresh objects of one type are merged (sound, may over-approximate)")
	total := 0
	for _, name := range []string{"(*Classifier).Match", "(*Classifier).MatchFrom"} {
		fn := p.Func(v2pkg, name)
		if !c.R.Anchor(fn != nil, "v2."+name) {
			continue
		}
		e := runEffects(c, p, "R09.1", effectRoot{fn: fn, name: name, params: provParams(fn, eng.Shared, eng.Input)}, matchScope, false)
		total += len(e.Explored())
		if name == "(*Classifier).Match" {
			// shared with C04: "returns exactly what it returns when run alone" fails when a wall-clock deadline decides
			// how fine the diff is - under N concurrent calls the deadline passes earlier (R04.5)
			checkNondet(c, p, e)
		}
		if c.Tier == "thorough" {
			vtaCrossCheck(c, p, "R09.1", name, fn, e, matchScope)
		}
	}
	c.R.RequireMin("R09.1", "functions explored from Match+MatchFrom", total, 40)
	// R09.2: a lock that the library holds while it calls a function value of the caller (the Tracer) is released by a deferred
	// call: with an explicit Unlock behind the call, a Tracer that panics in one Match - recovered by its caller - leaves the
	// mutex locked, and every other traced call blocks for ever.
	{
		nA, bad := 0, ""
		for _, f := range v2Funcs(p) {
			deferred := map[string]bool{}
			for _, b := range f.Blocks {
				for _, in := range b.Instrs {
					if d, ok := in.(*ssa.Defer); ok {
						if op, k := eng.MutexOp(f, &d.Call); op == "Unlock" || op == "RUnlock" {
							deferred[op+" "+k] = true
						}
					}
				}
			}
			for _, b := range f.Blocks {
				for i, in := range b.Instrs {
					call, ok := in.(*ssa.Call)
					if !ok {
						continue
					}
					op, k := eng.MutexOp(f, &call.Call)
					if op != "Lock" && op != "RLock" {
						continue
					}
					rel := "Unlock"
					if op == "RLock" {
						rel = "RUnlock"
					}
					nA++
					if deferred[rel+" "+k] {
						continue
					}
					seen := map[*ssa.BasicBlock]bool{}
					var scan func(bb *ssa.BasicBlock, from int)
					scan = func(bb *ssa.BasicBlock, from int) {
						for _, x := range bb.Instrs[from:] {
							c2, isCall := x.(*ssa.Call)
							if !isCall {
								continue
							}
							if o2, k2 := eng.MutexOp(f, &c2.Call); o2 == rel && k2 == k {
								return
							}
							if c2.Call.StaticCallee() == nil && !c2.Call.IsInvoke() {
								if _, isB := c2.Call.Value.(*ssa.Builtin); !isB {
									if _, isMC := c2.Call.Value.(*ssa.MakeClosure); !isMC && bad == "" {
										bad = core.ShortFn(f) + ": " + k + " taken at " + p.Pos(call.Pos()) + " is held, without a deferred release, at the call of a function value at " + p.Pos(c2.Pos())
									}
								}
							}
						}
						for _, sc := range bb.Succs {
							if !seen[sc] {
								seen[sc] = true
								scan(sc, 0)
							}
						}
					}
					scan(b, i+1)
				}
			}
		}
		c.R.Check(bad == "", "R09.2", "v2: a lock held across a call of a caller-supplied function is released by a deferred call", v2pkg, fmt.Sprintf("%d lock acquisitions in the library", nA),
			bad+": when that function panics and its caller recovers, the lock stays held and every other call that needs it blocks - the calls no longer return what they return when run alone")
	}
	stringMethodRoots(c, p, "R09.2", core.V2Mod, matchScope)
	c.R.RequireMin("R09.2", "formatting methods", c.R.Counts["R09.2:formatting_methods"], 1)
}
