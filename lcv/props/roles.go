package props

import (
	"go/types"
	"sync"

	"lcv/core"
)

// v2Roles identifies unexported types and fields of the v2 package by their role, so that renaming
// them does not invalidate the rules.
type v2Roles struct {
	ok                       bool
	threshold, q, docs, dict string     // fields of Classifier
	docType                  types.Type // indexedDocument (named)
	docTypeName              string
	tokens, matches          string // fields of indexedDocument
	tokenID                  *types.Named
}

var (
	rolesMu    sync.Mutex
	rolesCache = map[*core.Prog]*v2Roles{}
)

func rolesOf(p *core.Prog) *v2Roles {
	rolesMu.Lock()
	defer rolesMu.Unlock()
	if r, ok := rolesCache[p]; ok {
		return r
	}
	r := &v2Roles{}
	rolesCache[p] = r
	cls := p.Named(v2pkg, "Classifier")
	if cls == nil {
		return r
	}
	var ok1, ok2, ok3, ok4 bool
	r.threshold, ok1 = core.UniqueField(cls, func(t types.Type) bool {
		b, isB := t.Underlying().(*types.Basic)
		return isB && b.Kind() == types.Float64
	})
	r.q, ok2 = core.UniqueField(cls, func(t types.Type) bool {
		b, isB := t.Underlying().(*types.Basic)
		return isB && b.Kind() == types.Int
	})
	r.docs, ok3 = core.UniqueField(cls, func(t types.Type) bool { _, isM := t.Underlying().(*types.Map); return isM })
	// the dictionary: a pointer to a struct that has an index from words to ids - a map[string]N with N a named integer
	// type (the token id). How the reverse direction is stored (a second map, a slice) does not matter.
	idOf := func(t types.Type) *types.Named {
		st := core.StructOf(t)
		if _, isPtr := t.Underlying().(*types.Pointer); !isPtr || st == nil {
			return nil
		}
		for i := 0; i < st.NumFields(); i++ {
			m, isM := st.Field(i).Type().Underlying().(*types.Map)
			if !isM {
				continue
			}
			if kb, isB := m.Key().Underlying().(*types.Basic); !isB || kb.Info()&types.IsString == 0 {
				continue
			}
			if n, isN := m.Elem().(*types.Named); isN {
				if b, isB := n.Underlying().(*types.Basic); isB && b.Info()&types.IsInteger != 0 {
					return n
				}
			}
		}
		return nil
	}
	r.dict, ok4 = core.UniqueField(cls, func(t types.Type) bool { return idOf(t) != nil })
	if !(ok1 && ok2 && ok3 && ok4) {
		return r
	}
	st := core.StructOf(cls)
	for i := 0; i < st.NumFields(); i++ {
		f := st.Field(i)
		switch f.Name() {
		case r.docs:
			r.docType = f.Type().Underlying().(*types.Map).Elem()
			r.docTypeName = core.TypeName(r.docType)
		case r.dict:
			r.tokenID = idOf(f.Type())
		}
	}
	if r.docType == nil || r.tokenID == nil {
		return r
	}
	matchesT := p.Named(v2pkg, "Matches")
	var ok5, ok6 bool
	r.matches, ok5 = core.UniqueField(r.docType, func(t types.Type) bool { return matchesT != nil && types.Identical(t, matchesT) })
	// the token slice: a slice of structs that have a field of the token id type
	r.tokens, ok6 = core.UniqueField(r.docType, func(t types.Type) bool {
		sl, isS := t.Underlying().(*types.Slice)
		if !isS {
			return false
		}
		es, isSt := sl.Elem().Underlying().(*types.Struct)
		if !isSt {
			return false
		}
		for i := 0; i < es.NumFields(); i++ {
			if types.Identical(es.Field(i).Type(), r.tokenID) {
				return true
			}
		}
		return false
	})
	r.ok = ok5 && ok6
	return r
}
