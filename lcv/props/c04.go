package props

import (
	"fmt"
	"go/constant"
	"go/token"
	"go/types"
	"sort"
	"strings"

	"golang.org/x/tools/go/ssa"

	"lcv/core"
	"lcv/eng"
)

func init() {
	register(&Check{
		ID:      "C04",
		Modules: []string{"v2"},
		Explanation: "Static analysis of the v2 Match tree (through go-diff): (R04.1/R04.2) effect analysis: Match/MatchFrom/Normalize write nothing that outlives the call and no entry point writes the caller's bytes; " +
			"(R04.3) tracing non-interference: values derived from the trace configuration only guard trace calls; (R04.4) every map iteration in the tree has an order-insensitive body or fills a slice that passes a total sort " +
			"(comparator totality decided by enumerating all 3^k orderings of the compared fields) before its order can be observed; (R04.5) no wall-clock/random/environment source can influence the result; " +
			"(R04.6) token ids are used through equality only, so renaming ids (different insertion order, extra documents) cannot change results; (R04.7) target words are interned without losing their identity. " +
			"Each clause is a necessary condition of determinism over all call histories, map seeds and trace settings; bit-level float behaviour and the numeric pipeline are not decided.",
		Run: runC04,
	})
}

func isTraceFn(fn *ssa.Function) bool {
	if fn == nil || fn.Signature.Recv() == nil {
		return false
	}
	return strings.HasSuffix(core.TypeName(fn.Signature.Recv().Type()), "/v2.TraceConfiguration")
}

func purityExceptOracle(p *core.Prog, scope []string) func(fn *ssa.Function, owned int) bool {
	return func(fn *ssa.Function, owned int) bool {
		e := eng.NewExplorer(p, scope...)
		ps := make([]eng.Prov, len(fn.Params))
		for i, prm := range fn.Params {
			if eng.PointerLike(prm.Type()) {
				ps[i] = eng.Shared
				if i == owned {
					ps[i] = eng.Fresh
				}
			}
		}
		e.Run(fn, ps)
		if len(e.Undecided) > 0 {
			return false
		}
		for _, v := range e.Viol {
			if v.Kind == "append" && v.Instr != nil && eng.IdentityAppend(v.Instr) {
				continue
			}
			return false
		}
		return true
	}
}

func purityOracle(p *core.Prog, scope []string) func(fn *ssa.Function) bool {
	cache := map[*ssa.Function]bool{}
	return func(fn *ssa.Function) bool {
		if v, ok := cache[fn]; ok {
			return v
		}
		e := eng.NewExplorer(p, scope...)
		ps := make([]eng.Prov, len(fn.Params))
		for i, prm := range fn.Params {
			if eng.PointerLike(prm.Type()) {
				ps[i] = eng.Shared
			}
		}
		e.Run(fn, ps)
		pure := len(e.Undecided) == 0
		for _, v := range e.Viol {
			// audited exception: go-diff's diffHalfMatchI appends two adjacent sub-slices of one
			// array onto each other, which rewrites elements with the values they already hold.
			if v.Kind == "append" && v.Instr != nil && eng.IdentityAppend(v.Instr) {
				continue
			}
			pure = false
		}
		cache[fn] = pure
		return pure
	}
}

// borrowRules runs another check's rule group and keeps only the obligations of the named rules.
func borrowRules(c *Ctx, rules []string, run func(*Ctx)) {
	old := c.R.Filter
	set := map[string]bool{}
	for _, r := range rules {
		set[r] = true
	}
	c.R.Filter = func(r string) bool { return set[r] && (old == nil || old(r)) }
	run(c)
	c.R.Filter = old
}

// matchReadOnly: the effect analysis of Match and MatchFrom (no write to memory reachable from the classifier, a
// package-level variable or the input), reported under the given rule. Returns Match and its explorer.
func matchReadOnly(c *Ctx, p *core.Prog, rule string) (*ssa.Function, *eng.Explorer) {
	var matchFn *ssa.Function
	var matchExplorer *eng.Explorer
	total := 0
	for _, name := range []string{"(*Classifier).Match", "(*Classifier).MatchFrom"} {
		fn := p.Func(v2pkg, name)
		if !c.R.Anchor(fn != nil, "v2."+name) {
			continue
		}
		e := runEffects(c, p, rule, effectRoot{fn: fn, name: name, params: provParams(fn, eng.Shared, eng.Input)}, matchScope, false)
		total += len(e.Explored())
		if name == "(*Classifier).Match" {
			matchFn, matchExplorer = fn, e
		}
	}
	c.R.RequireMin(rule, "functions explored from Match+MatchFrom", total, 40)
	return matchFn, matchExplorer
}

func runC04(c *Ctx) {
	p := c.Prog("v2")
	if p == nil {
		return
	}
	c.R.Assume("the standard library behaves as summarised in the trusted_base entries")
	c.R.Assume("go-diff compares runes by equality only (valid while the vocabulary stays below 0xD800 distinct words, because go-diff stringifies runes)")

	// ---- R04.1 / R04.2: effects ------------------------------------------------
	var matchExplorer *eng.Explorer
	var matchFn *ssa.Function
	for _, name := range []string{"(*Classifier).Match", "(*Classifier).MatchFrom", "(*Classifier).Normalize"} {
		fn := p.Func(v2pkg, name)
		if !c.R.Anchor(fn != nil, "v2."+name) {
			continue
		}
		e := runEffects(c, p, "R04.1", effectRoot{fn: fn, name: name, params: provParams(fn, eng.Shared, eng.Input)}, matchScope, false)
		if name == "(*Classifier).Match" {
			matchExplorer, matchFn = e, fn
		}
	}
	if fn := p.Func(v2pkg, "(*Classifier).AddContent"); c.R.Anchor(fn != nil, "v2.(*Classifier).AddContent") {
		runEffects(c, p, "R04.2", effectRoot{fn: fn, name: "(*Classifier).AddContent", params: provParams(fn, eng.Shared, 0, 0, 0, eng.Input), only: eng.Input}, matchScope, false)
	}
	if matchExplorer == nil {
		return
	}
	explored := matchExplorer.Explored()

	// ---- R04.5: nondeterminism sources -------------------------------------------
	checkNondet(c, p, matchExplorer)

	// shared with C08: the same bytes give the same results through Match and through MatchFrom on any reader only if
	// the window filler counts the bytes of every Read, also of the one that reports the end or an error (R08.3)
	if c.R.Filter == nil {
		borrowRules(c, []string{"R08.3"}, runC08)
	}

	// ---- R04.12: dictionary look-ups of the tokenizer ---------------------------------
	checkDictLookupsOnCleanWord(c, p)
	// shared with C01: every proposed range is scored (R01.11)
	checkEveryRangeScored(c, p)

	// ---- R04.4: map-order determinism ----------------------------------------------
	checkMapOrder(c, p, matchFn, explored)

	// ---- R04.3: tracing non-interference --------------------------------------------
	checkTraceNonInterference(c, p, explored)

	// ---- R04.6: token ids through equality only --------------------------------------
	checkTokenIDUses(c, p)

	// ---- R04.7: lossy interning of target words ---------------------------------------
	checkLossyInterning(c, p, matchExplorer)

	// ---- R04.8: adding a document does not depend on what is already in the corpus -----
	checkUnconditionalAdd(c, p)

	// ---- R04.9: what the tokenizer found is reported whatever the corpus holds ----------
	checkNoConstantResults(c, p)

	if c.Tier == "thorough" {
		vtaCrossCheck(c, p, "R04.1", "(*Classifier).Match", matchFn, matchExplorer, matchScope)
	}
}

// checkMapOrder: R04.4. No map iteration order reaches the result of Match: every loop over a map has an
// order-insensitive body or only fills slices that are totally sorted before their order is observed.
func checkMapOrder(c *Ctx, p *core.Prog, matchFn *ssa.Function, explored []*ssa.Function) {
	oa := eng.NewOrderAnalysis(p, explored)
	oa.Pure = purityOracle(p, matchScope)
	oa.PureExcept = purityExceptOracle(p, matchScope)
	oa.Observer = isTraceFn
	oa.FD = func(s *eng.SortSite, field string) (bool, string) { return fdTable(c, p, s, field) }
	oa.Run(matchFn)
	for _, mr := range oa.Ranges {
		key := "map range: " + mr.Desc
		if len(mr.Problems) > 0 {
			c.R.Undecided("R04.4", key, p.Pos(mr.Range.Pos()), "loop body may be order-sensitive: "+strings.Join(mr.Problems, "; "))
			continue
		}
		d := "body is order-insensitive"
		if len(mr.Tainted) > 0 {
			d = "body only appends to a slice, which is order-tainted until sorted"
		}
		if len(mr.Notes) > 0 {
			d += " (" + strings.Join(mr.Notes, "; ") + ")"
		}
		c.R.OK("R04.4", key, p.Pos(mr.Range.Pos()), d)
	}
	c.R.RequireMin("R04.4", "map ranges in the Match tree", len(oa.Ranges), 3)
	// a loop over a map that can be left early looks at the entries "up to the first one that ...": which entry that is
	// depends on the iteration order. Only an exit that returns constants (an existence test: the answer is the same
	// whichever matching entry comes first) is independent of it.
	nEarly := 0
	for _, fn := range explored {
		if !core.InRepo(fn) || isTraceFn(fn) {
			continue
		}
		for _, rl := range rangeLoopsOf(fn) {
			if _, isMap := rl.over.Type().Underlying().(*types.Map); !isMap {
				continue
			}
			loop := naturalLoop(rl.header)
			bad := ""
			for _, b := range fn.Blocks {
				if !loop[b] || b == rl.header {
					continue
				}
				last := b.Instrs[len(b.Instrs)-1]
				for _, sc := range b.Succs {
					if loop[sc] {
						continue
					}
					nEarly++
					if !returnsConstOnly(sc) {
						bad = p.Pos(last.Pos())
						if bad == "-" {
							bad = p.Pos(sc.Instrs[0].Pos())
						}
					}
				}
			}
			if bad != "" {
				c.R.Fail("R04.4", "map range left early: "+core.ShortFn(fn)+": range over "+core.TypeName(rl.over.Type()), p.Pos(rl.header.Instrs[0].Pos()),
					"the loop over the map can be left before all entries were seen (at "+bad+") with something else than a constant verdict: what happens depends on which entry the iteration yields first, and that order changes from run to run")
			}
		}
	}
	c.R.Count("R04.4:early exits from map ranges examined", nEarly)
	// R04.13: inside a loop over a map no decision is taken on what earlier iterations left behind: a look-up in a map (or a
	// load of a variable) that the same loop writes, feeding a branch, makes "which entries are kept" depend on which entry
	// came first - sorting the kept entries afterwards does not help. Exempt is the de-duplication of whole values: the key
	// that is looked up is the very value that is kept.
	{
		nL, bad := 0, ""
		for _, fn := range explored {
			if !core.InRepo(fn) || isTraceFn(fn) {
				continue
			}
			for _, rl := range rangeLoopsOf(fn) {
				if _, isMap := rl.over.Type().Underlying().(*types.Map); !isMap {
					continue
				}
				nL++
				loop := naturalLoop(rl.header)
				written := map[ssa.Value]bool{}
				for b := range loop {
					for _, in := range b.Instrs {
						if mu, ok := in.(*ssa.MapUpdate); ok {
							written[core.Unspill(mu.Map)] = true
						}
					}
				}
				// the size of a map the loop fills, tested inside the loop: "the first N entries" are whichever the iteration yields
				for b := range loop {
					for _, in := range b.Instrs {
						call, ok := in.(*ssa.Call)
						if !ok {
							continue
						}
						bi, isB := call.Call.Value.(*ssa.Builtin)
						if !isB || bi.Name() != "len" || !written[core.Unspill(call.Call.Args[0])] {
							continue
						}
						for _, r := range *call.Referrers() {
							if bo, isBo := r.(*ssa.BinOp); isBo && bo.Referrers() != nil {
								for _, r2 := range *bo.Referrers() {
									if ifi, isIf := r2.(*ssa.If); isIf && loop[ifi.Block()] && bad == "" {
										bad = core.ShortFn(fn) + ": the size of a map that the loop over " + core.TypeName(rl.over.Type()) + " itself fills is tested at " + p.Pos(bo.Pos()) + " (a cap on the number of entries taken)"
									}
									if ph, isPhi := r2.(*ssa.Phi); isPhi && ph.Referrers() != nil {
										for _, r3 := range *ph.Referrers() {
											if ifi, isIf := r3.(*ssa.If); isIf && loop[ifi.Block()] && bad == "" {
												bad = core.ShortFn(fn) + ": the size of a map that the loop over " + core.TypeName(rl.over.Type()) + " itself fills is tested at " + p.Pos(bo.Pos()) + " (a cap on the number of entries taken)"
											}
										}
									}
								}
							}
						}
					}
				}
				for b := range loop {
					for _, in := range b.Instrs {
						lk, ok := in.(*ssa.Lookup)
						if !ok || !written[core.Unspill(lk.X)] {
							continue
						}
						// does the result steer a branch of the loop?
						steers := false
						var follow func(v ssa.Value, d int)
						follow = func(v ssa.Value, d int) {
							if d > 4 || v.Referrers() == nil {
								return
							}
							for _, r := range *v.Referrers() {
								switch x := r.(type) {
								case *ssa.If:
									if loop[x.Block()] {
										steers = true
									}
								case *ssa.Extract:
									follow(x, d+1)
								case *ssa.UnOp:
									follow(x, d+1)
								case *ssa.BinOp:
									follow(x, d+1)
								case *ssa.Phi:
									follow(x, d+1)
								}
							}
						}
						follow(lk, 0)
						if !steers {
							continue
						}
						// de-duplication of whole values: every append in the loop that the branch controls appends the key itself
						whole := true
						nApp := 0
						for b2 := range loop {
							for _, in2 := range b2.Instrs {
								call, isCall := in2.(*ssa.Call)
								if !isCall {
									continue
								}
								if bi, isB := call.Call.Value.(*ssa.Builtin); !isB || bi.Name() != "append" || len(call.Call.Args) != 2 {
									continue
								}
								nApp++
								if el := singleVarargElem(call.Call.Args[1]); el == nil || core.Unspill(el) != core.Unspill(lk.Index) {
									whole = false
								}
							}
						}
						if nApp > 0 && !whole && bad == "" {
							bad = core.ShortFn(fn) + ": the look-up at " + p.Pos(lk.Pos()) + " in a map that the loop over " + core.TypeName(rl.over.Type()) + " itself fills decides a branch, and what is kept is not the key that was looked up"
						}
					}
				}
			}
		}
		c.R.Check(bad == "", "R04.13", "loops over a map take no decision on what earlier iterations left behind", v2pkg, fmt.Sprintf("%d loops over maps in the Match tree", nL),
			bad+": which of several entries with the same key is kept depends on the iteration order of the map, which changes from call to call - the same input gives different Results")
	}
	for _, s := range oa.Sorts {
		key := "sort in " + core.ShortFn(s.Fn) + " of " + describeSorted(s)
		d := ""
		if s.Cmp != nil {
			d = fmt.Sprintf("comparator %s compares %v over %d orderings; not compared: %v", core.ShortFn(s.Less), s.Cmp.Compared, s.Cmp.Assignments, s.Cmp.NotCompared)
		}
		if s.Total {
			c.R.OK("R04.4", key+": comparator is total", p.Pos(s.Call.Pos()), d)
		} else {
			// a non-total comparator only matters if its input is order-tainted: reported through the taint path
			c.R.Info("R04.4", key+": comparator is not total", p.Pos(s.Call.Pos()), s.Why+"; "+d)
		}
	}
	c.R.RequireMin("R04.4", "sort sites in the Match tree", len(oa.Sorts), 1)
	for _, v := range oa.Viol {
		c.R.Fail("R04.4", v.Construct, p.Pos(v.Pos), "map iteration order can reach the result: "+v.Detail)
	}
	if len(oa.Viol) == 0 {
		c.R.OK("R04.4", "no order-tainted value reaches the result of "+core.ShortFn(matchFn), p.Pos(matchFn.Pos()), "every slice filled under map iteration is totally sorted before its order is observed")
	}

}

// naturalLoop: the blocks of the natural loop with this header (the header and everything that reaches a back edge
// without passing the header).
func naturalLoop(header *ssa.BasicBlock) map[*ssa.BasicBlock]bool {
	loop := map[*ssa.BasicBlock]bool{header: true}
	var lw []*ssa.BasicBlock
	for _, pr := range header.Preds {
		if header.Dominates(pr) {
			lw = append(lw, pr)
		}
	}
	for len(lw) > 0 {
		b := lw[len(lw)-1]
		lw = lw[:len(lw)-1]
		if loop[b] {
			continue
		}
		loop[b] = true
		lw = append(lw, b.Preds...)
	}
	return loop
}

// returnsConstOnly: block b (reached by leaving a loop) does nothing but return constants.
func returnsConstOnly(b *ssa.BasicBlock) bool {
	for k := 0; k < 3; k++ {
		if len(b.Instrs) == 1 {
			if _, isJ := b.Instrs[0].(*ssa.Jump); isJ {
				b = b.Succs[0]
				continue
			}
		}
		break
	}
	if len(b.Instrs) != 1 {
		return false
	}
	ret, ok := b.Instrs[0].(*ssa.Return)
	if !ok {
		return false
	}
	for _, r := range ret.Results {
		if _, isC := r.(*ssa.Const); !isC {
			return false
		}
	}
	return true
}

// checkNoConstantResults: R04.9. The copyright notices and the number of input lines come from the input alone. A
// successful return of match therefore never carries a Results whose TotalInputLines or Matches are constants (zero,
// nil): such a shortcut is taken depending on which documents are in the corpus (e.g. "no document passed the first
// pass"), so the same input gives different Results for a superset of the corpus.
func checkNoConstantResults(c *Ctx, p *core.Prog) {
	m := p.Func(v2pkg, "(*Classifier).match")
	if !c.R.Anchor(m != nil, "v2.(*Classifier).match") {
		return
	}
	n := 0
	for _, b := range m.Blocks {
		ret, ok := b.Instrs[len(b.Instrs)-1].(*ssa.Return)
		if !ok || len(ret.Results) != 2 {
			continue
		}
		if cst, isC := ret.Results[1].(*ssa.Const); !isC || cst.Value != nil {
			continue // an error is returned
		}
		n++
		// the Results value: a load of a local struct, or a zero constant
		bad := ""
		switch x := ret.Results[0].(type) {
		case *ssa.Const:
			bad = "the zero Results"
		case *ssa.UnOp:
			if al, isAl := x.X.(*ssa.Alloc); isAl {
				fields := map[string]ssa.Value{}
				for _, r := range *al.Referrers() {
					if fa, isFA := r.(*ssa.FieldAddr); isFA {
						for _, u := range *fa.Referrers() {
							if st, isSt := u.(*ssa.Store); isSt && st.Addr == fa {
								fields[core.FieldName(fa)] = st.Val
							}
						}
					}
				}
				for _, f := range []string{"TotalInputLines", "Matches"} {
					v, set := fields[f]
					if !set {
						bad = "a Results without " + f
						break
					}
					if _, isC := v.(*ssa.Const); isC {
						bad = "a Results with a constant " + f
						break
					}
				}
			}
		}
		c.R.Check(bad == "", "R04.9", "match: a successful return reports the tokenizer's notices and line count", p.Pos(ret.Pos()), "Matches and TotalInputLines are computed from the tokenised input",
			"a successful return carries "+bad+": the copyright notices found by the tokenizer and the number of input lines are dropped on a shortcut that depends on the corpus (no document passed the first pass), so adding an unrelated document changes the Results of the same input")
	}
	c.R.RequireMin("R04.9", "successful returns of match", n, 1)
}

// checkUnconditionalAdd: R04.8. Results must not depend on the order in which documents were added nor
// on unrelated documents: AddContent therefore has to index and store its document on every path; an
// early return (for instance "an identical text is already indexed") makes the corpus order-dependent.
func checkUnconditionalAdd(c *Ctx, p *core.Prog) {
	rl := rolesOf(p)
	ac := p.Func(v2pkg, "(*Classifier).AddContent")
	if !c.R.Anchor(ac != nil && rl.ok, "v2.(*Classifier).AddContent") {
		return
	}
	// follow static callees (same package) until the store into the corpus map is found; on the way every
	// function must reach the call / the store on all paths to its returns
	var find func(fn *ssa.Function, depth int) (bool, string)
	find = func(fn *ssa.Function, depth int) (bool, string) {
		if depth > 4 {
			return false, "the store into the corpus map was not found"
		}
		for _, b := range fn.Blocks {
			for _, in := range b.Instrs {
				if mu, ok := in.(*ssa.MapUpdate); ok && isClsField(mu.Map, func(r *v2Roles) string { return r.docs }) {
					for _, rb := range fn.Blocks {
						if _, isRet := rb.Instrs[len(rb.Instrs)-1].(*ssa.Return); isRet && !b.Dominates(rb) {
							return false, core.ShortFn(fn) + " can return without storing the document (a path bypasses the store into the corpus map)"
						}
					}
					return true, ""
				}
			}
		}
		for _, call := range core.CallsIn(fn) {
			cal := call.Common().StaticCallee()
			if cal == nil || core.FuncPkgPath(cal) != v2pkg || len(cal.Blocks) == 0 {
				continue
			}
			if ok, why := find(cal, depth+1); ok {
				for _, rb := range fn.Blocks {
					if _, isRet := rb.Instrs[len(rb.Instrs)-1].(*ssa.Return); isRet && !call.Block().Dominates(rb) {
						return false, core.ShortFn(fn) + " can return without adding the document (a path bypasses " + cal.Name() + ")"
					}
				}
				return true, ""
			} else if why != "" && why != "the store into the corpus map was not found" {
				return false, why
			}
		}
		return false, "the store into the corpus map was not found"
	}
	ok, why := find(ac, 0)
	c.R.Check(ok, "R04.8", "AddContent stores its document on every path", p.Pos(ac.Pos()), "every path through AddContent reaches the store into the corpus map", why+": whether a document is part of the corpus then depends on the documents added before it, so results depend on insertion order")
}

func describeSorted(s *eng.SortSite) string {
	if s.Value == nil {
		return "?"
	}
	t := s.Value.Type()
	return types.TypeString(t, func(p *types.Package) string { return p.Name() })
}

// fdTable: audited functionally-dependent fields (DESIGN.md §3 E2).
func fdTable(c *Ctx, p *core.Prog, s *eng.SortSite, field string) (bool, string) {
	if s.Cmp == nil || s.Cmp.ElemType == nil {
		return false, ""
	}
	et := core.TypeName(s.Cmp.ElemType)
	if et != "" && p.IsFn(s.Fn, v2pkg, "targetMatchedRanges") {
		switch field {
		case "TargetEnd":
			// verified: every element gets TokensClaimed = TargetEnd - TargetStart before the sort
			if hasTokensClaimedStore(s.Fn) || tokensClaimedMaintained(s.Fn) {
				c.R.Assume("matchRange.TargetEnd is determined by TargetStart and TokensClaimed at the sort in targetMatchedRanges (the store TokensClaimed = TargetEnd - TargetStart is verified on every run)")
				return true, ""
			}
			return false, ""
		case "SrcEnd":
			c.R.Assume("matchRange.SrcEnd - SrcStart = TargetEnd - TargetStart at the sort in targetMatchedRanges: q-gram runs grow in lock-step (audited by reading targetMatchedRanges)")
			return true, ""
		}
	}
	return false, ""
}

func hasTokensClaimedStore(fn *ssa.Function) bool {
	for _, b := range fn.Blocks {
		for _, in := range b.Instrs {
			st, ok := in.(*ssa.Store)
			if !ok {
				continue
			}
			fa, ok := st.Addr.(*ssa.FieldAddr)
			if !ok || core.FieldName(fa) != "TokensClaimed" {
				continue
			}
			bo, ok := st.Val.(*ssa.BinOp)
			if !ok || bo.Op != token.SUB {
				continue
			}
			if strings.HasSuffix(core.AP(bo.X), ".TargetEnd") && strings.HasSuffix(core.AP(bo.Y), ".TargetStart") &&
				strings.TrimSuffix(core.AP(bo.X), ".TargetEnd") == strings.TrimSuffix(core.AP(bo.Y), ".TargetStart") &&
				core.AP(fa.X) == strings.TrimSuffix(core.AP(bo.X), ".TargetEnd") {
				return true
			}
		}
	}
	return false
}

// checkNondet: E5.
func checkNondet(c *Ctx, p *core.Prog, e *eng.Explorer) {
	var names []string
	for k := range e.NondetSrc {
		names = append(names, k)
	}
	sort.Strings(names)
	inRepo := 0
	for _, k := range names {
		fn := e.NondetFn[k]
		if core.InRepo(fn) {
			inRepo++
			c.R.Fail("R04.5", "nondeterminism source in the Match tree: "+k, p.Pos(e.NondetSrc[k]), "wall clock / randomness / environment read on a path from Match")
		}
	}
	if inRepo == 0 {
		c.R.OK("R04.5", "no wall-clock/random/environment call in licenseclassifier code reachable from Match", "-", fmt.Sprintf("%d functions explored", len(e.Explored())))
	}
	// go-diff: (i) every time.* call is guarded by the timeout configuration
	dp := p.SSAPkgs[core.DiffPkg]
	if !c.R.Anchor(dp != nil, core.DiffPkg) {
		return
	}
	nGuarded := 0
	for _, k := range names {
		fn := e.NondetFn[k]
		if core.InRepo(fn) {
			continue
		}
		// find the call instructions in fn
		for _, call := range core.CallsIn(fn) {
			n := core.StaticCalleeName(call.Common())
			if !strings.HasPrefix(n, "time.") || !strings.Contains(k, n+" in") {
				continue
			}
			if guardedByTimeout(call) {
				nGuarded++
				c.R.OK("R04.5", "go-diff: "+k+" is guarded by the timeout configuration", p.Pos(call.Pos()), "reachable only when DiffTimeout > 0 (or a non-zero deadline derived from it)")
			} else {
				c.R.Fail("R04.5", "go-diff: "+k+" is not guarded by the timeout configuration", p.Pos(call.Pos()), "wall-clock read that cannot be switched off by DiffTimeout <= 0")
			}
		}
	}
	c.R.Count("R04.5:go-diff wall-clock sites", nGuarded)
	// (ii) at every call of DiffMain* from licenseclassifier code the receiver's DiffTimeout is a constant <= 0
	nSites := 0
	for _, fn := range e.Explored() {
		if !core.InRepo(fn) {
			continue
		}
		for _, call := range core.CallsIn(fn) {
			n := core.StaticCalleeName(call.Common())
			if !strings.HasPrefix(n, "(*"+core.DiffPkg+".DiffMatchPatch).DiffMain") {
				continue
			}
			nSites++
			// R04.11: the diff's line mode is off. In line mode go-diff first splits both sides at the rune '\n' (10) - here
			// the token id 10, whichever word was interned tenth - so the diff, and the confidence, depend on the order in
			// which the corpus documents were added.
			if args := call.Common().Args; len(args) >= 4 {
				last := args[len(args)-1]
				if isBool(last.Type()) {
					cst, isC := last.(*ssa.Const)
					c.R.Check(isC && cst.Value != nil && cst.Value.String() == "false", "R04.11", core.ShortFn(fn)+": the word diff runs with go-diff's line mode switched off", p.Pos(call.Pos()),
						"checklines is the constant false", "checklines is not the constant false: go-diff splits the token runes at rune 10, which is whatever word got token id 10 - results depend on the insertion order of the corpus")
				}
			}
			recv := call.Common().Args[0]
			key := "the word diff (" + strings.TrimPrefix(n, "(*"+core.DiffPkg+".DiffMatchPatch).") + ") runs under a wall-clock DiffTimeout"
			if ns, explicit := explicitTimeout(recv, call); explicit && ns > 0 {
				// a deadline other than the library default: more (or differently) load-dependent than the known finding
				key = fmt.Sprintf("the word diff runs under an explicitly set wall-clock DiffTimeout of %d ns", ns)
			}
			if ok, why := timeoutDisabled(fn, recv, call); ok {
				c.R.OK("R04.5", core.ShortFn(fn)+": diff runs with DiffTimeout disabled", p.Pos(call.Pos()), why)
			} else {
				c.R.Fail("R04.5", key, p.Pos(call.Pos()), why+": when the deadline passes go-diff returns a coarser diff, so the reported confidence depends on machine load")
			}
		}
	}
	c.R.RequireMin("R04.5", "DiffMain call sites in the Match tree", nSites, 1)
}

// explicitTimeout: a constant stored into the receiver's DiffTimeout before the call.
func explicitTimeout(recv ssa.Value, call ssa.CallInstruction) (int64, bool) {
	refs := recv.Referrers()
	if refs == nil {
		return 0, false
	}
	for _, u := range *refs {
		fa, ok := u.(*ssa.FieldAddr)
		if !ok || core.FieldName(fa) != "DiffTimeout" {
			continue
		}
		for _, uu := range *fa.Referrers() {
			if st, ok := uu.(*ssa.Store); ok {
				if v, ok := core.ConstInt(st.Val); ok {
					return v, true
				}
			}
		}
	}
	return 0, false
}

func guardedByTimeout(call ssa.CallInstruction) bool {
	for _, f := range core.FactsAtInstr(call) {
		s := core.AP(f.Cond)
		if cmp, ok := f.AsCmp(); ok {
			if strings.HasSuffix(core.AP(cmp.X), ".DiffTimeout") && cmp.Op == token.GTR {
				if v, ok := core.ConstInt(cmp.Y); ok && v == 0 {
					return true
				}
			}
		}
		if strings.Contains(s, "IsZero") || isCallTo(f.Cond, "(time.Time).IsZero") {
			if !f.Truth {
				return true
			}
		}
	}
	return false
}

func isCallTo(v ssa.Value, name string) bool {
	call, ok := v.(*ssa.Call)
	if !ok {
		return false
	}
	return core.StaticCalleeName(&call.Call) == name
}

// timeoutDisabled: receiver is a fresh *DiffMatchPatch of this function with a constant
// store DiffTimeout <= 0 before the call and no other store to that field.
func timeoutDisabled(fn *ssa.Function, recv ssa.Value, call ssa.CallInstruction) (bool, string) {
	switch r := recv.(type) {
	case *ssa.Call:
		if core.StaticCalleeName(&r.Call) != core.DiffPkg+".New" {
			return false, "receiver is not a fresh diffmatchpatch.New() object"
		}
	case *ssa.Alloc:
	default:
		return false, "receiver is shared or not constructed in this function (" + core.AP(recv) + "), its DiffTimeout is not known"
	}
	stores := 0
	good := false
	if refs := recv.Referrers(); refs != nil {
		for _, u := range *refs {
			fa, ok := u.(*ssa.FieldAddr)
			if !ok || core.FieldName(fa) != "DiffTimeout" {
				continue
			}
			for _, uu := range *fa.Referrers() {
				st, ok := uu.(*ssa.Store)
				if !ok {
					continue
				}
				stores++
				if v, ok := core.ConstInt(st.Val); ok && v <= 0 && st.Block().Dominates(call.Block()) {
					good = true
				}
			}
		}
	}
	if stores == 1 && good {
		return true, "DiffTimeout is set to a constant <= 0 before the call"
	}
	if _, isNew := recv.(*ssa.Call); isNew && stores == 0 {
		return false, "diffmatchpatch.New() sets DiffTimeout to one second and it is not reset"
	}
	return false, "DiffTimeout is not provably <= 0 at the call"
}

// checkTokenIDUses: R04.6.
// isDictionaryMethod: fn is a method of the dictionary type (the type of the Classifier's dictionary field).
func isDictionaryMethod(p *core.Prog, fn *ssa.Function) bool {
	r := rolesOf(p)
	cls := p.Named(v2pkg, "Classifier")
	if cls == nil || r.dict == "" || fn.Signature.Recv() == nil {
		return false
	}
	st := core.StructOf(cls)
	for i := 0; i < st.NumFields(); i++ {
		if st.Field(i).Name() == r.dict {
			return types.Identical(fn.Signature.Recv().Type(), st.Field(i).Type())
		}
	}
	return false
}

func checkTokenIDUses(c *Ctx, p *core.Prog) {
	var tid *types.Named
	if r := rolesOf(p); r.ok {
		tid = r.tokenID
	}
	if !c.R.Anchor(tid != nil, "v2 token id type (key type of the dictionary)") {
		return
	}
	isTID := func(t types.Type) bool { return types.Identical(t, tid) }
	n := 0
	bad := 0
	for _, fn := range p.SrcFuncs(v2pkg) {
		if core.FuncPkgPath(fn) != v2pkg {
			continue
		}
		for _, b := range fn.Blocks {
			for _, in := range b.Instrs {
				bo, ok := in.(*ssa.BinOp)
				if !ok {
					continue
				}
				if !isTID(bo.X.Type()) && !isTID(bo.Y.Type()) {
					continue
				}
				n++
				switch bo.Op {
				case token.EQL, token.NEQ:
					continue
				}
				if p.IsFn(fn, v2pkg, "(*dictionary).add") || isDictionaryMethod(p, fn) {
					// the dictionary hands the ids out and may store its words by id (an id is an index there): that is its
					// representation, not a use of the order of ids in a result
					continue
				}
				bad++
				c.R.Fail("R04.6", core.ShortFn(fn)+": token id used in "+bo.Op.String(), p.Pos(bo.Pos()), "ordering/arithmetic on token ids makes results depend on the order in which words were interned")
			}
		}
	}
	// conversions of tokenID to other integer types other than rune (diff alphabet) are arithmetic escapes
	for _, fn := range p.SrcFuncs(v2pkg) {
		if core.FuncPkgPath(fn) != v2pkg {
			continue
		}
		for _, b := range fn.Blocks {
			for _, in := range b.Instrs {
				cv, ok := in.(*ssa.Convert)
				if !ok || !isTID(cv.X.Type()) {
					continue
				}
				n++
				if bt, ok := cv.Type().Underlying().(*types.Basic); ok && bt.Kind() == types.Int32 {
					continue // rune for the diff alphabet
				}
				if isDictionaryMethod(p, fn) {
					continue // the dictionary's own representation (an id as an index)
				}
				bad++
				c.R.Fail("R04.6", core.ShortFn(fn)+": token id converted to "+cv.Type().String(), p.Pos(cv.Pos()), "token ids may only be compared for equality or turned into diff runes")
			}
		}
	}
	// R04.10: a token id travels through go-diff as a rune, i.e. through a string and back, which the surrogate code points
	// U+D800..U+DFFF do not survive (each comes back as U+FFFD). A conversion between token ids and runes is therefore
	// made only by a function that steps around that range (it compares the rune with the range's bounds).
	nConv := 0
	for _, fn := range p.SrcFuncs(v2pkg) {
		if core.FuncPkgPath(fn) != v2pkg {
			continue
		}
		guards := false
		for _, b := range fn.Blocks {
			for _, in := range b.Instrs {
				if bo, ok := in.(*ssa.BinOp); ok {
					switch bo.Op {
					case token.LSS, token.LEQ, token.GTR, token.GEQ:
						for _, v := range []ssa.Value{bo.X, bo.Y} {
							if k, isK := core.ConstInt(v); isK && k >= 0xD800 && k <= 0xE000 {
								guards = true
							}
						}
					}
				}
			}
		}
		for _, b := range fn.Blocks {
			for _, in := range b.Instrs {
				cv, ok := in.(*ssa.Convert)
				if !ok {
					continue
				}
				isRune := func(t types.Type) bool {
					bt, ok := t.Underlying().(*types.Basic)
					return ok && bt.Kind() == types.Int32
				}
				if !(isTID(cv.X.Type()) && isRune(cv.Type())) && !(isRune(cv.X.Type()) && isTID(cv.Type())) {
					continue
				}
				nConv++
				c.R.Check(guards, "R04.10", core.ShortFn(fn)+": a token id is turned into a diff rune (or back) around the surrogate range", p.Pos(cv.Pos()), "the converting function compares the rune with the bounds of U+D800..U+DFFF",
					"token ids are converted to runes one to one: from the 55296th distinct corpus word on, 2048 ids fall on surrogate code points, which go-diff's string conversion turns into U+FFFD - substitutions between such words are reported as equal and the words recovered from the diff are wrong, so results depend on how many words were interned before")
			}
		}
	}
	c.R.RequireMin("R04.10", "conversions between token ids and runes", nConv, 2)
	// ... and the step is exact: read as tables (constant propagation, engine E7b) at the boundaries of the range, the
	// id -> rune function never yields a surrogate, is strictly increasing, and the rune -> id function takes every rune
	// back to its id
	{
		var fwd, back *ssa.Function
		for _, fn := range p.SrcFuncs(v2pkg) {
			if core.FuncPkgPath(fn) != v2pkg || len(fn.Params) != 1 || fn.Signature.Results().Len() != 1 {
				continue
			}
			isRune := func(t types.Type) bool {
				bt, ok := t.Underlying().(*types.Basic)
				return ok && bt.Kind() == types.Int32
			}
			switch {
			case isTID(fn.Params[0].Type()) && isRune(fn.Signature.Results().At(0).Type()):
				fwd = fn
			case isRune(fn.Params[0].Type()) && isTID(fn.Signature.Results().At(0).Type()):
				back = fn
			}
		}
		if fwd != nil && back != nil {
			ce := eng.NewConstEvaluator()
			points := []int64{0, 1, 0xD7FE, 0xD7FF, 0xD800, 0xD801, 0xDFFE, 0xDFFF, 0xE000, 0xE001, 0xFFFF, 0x10000, 0x10001}
			bad, undec := "", ""
			prev := int64(-1)
			for _, id := range points {
				res, err := ce.Eval(fwd, []constant.Value{constant.MakeInt64(id)})
				if err != nil || len(res) != 1 {
					undec = fmt.Sprintf("%s(%#x) is not a constant of its argument", fwd.Name(), id)
					break
				}
				r, _ := constant.Int64Val(res[0])
				switch {
				case r >= 0xD800 && r <= 0xDFFF:
					bad = fmt.Sprintf("%s(%#x) = %#x is a surrogate code point: go-diff's string conversion turns it into U+FFFD, the id is lost", fwd.Name(), id, r)
				case r <= prev:
					bad = fmt.Sprintf("%s is not strictly increasing at %#x (%#x after %#x): two ids share a rune", fwd.Name(), id, r, prev)
				}
				prev = r
				res2, err := ce.Eval(back, []constant.Value{constant.MakeInt64(r)})
				if err != nil || len(res2) != 1 {
					undec = fmt.Sprintf("%s(%#x) is not a constant of its argument", back.Name(), r)
					break
				}
				if id2, _ := constant.Int64Val(res2[0]); id2 != id && bad == "" {
					bad = fmt.Sprintf("%s(%s(%#x)) = %#x: the word recovered from the diff is another word", back.Name(), fwd.Name(), id, id2)
				}
			}
			if undec == "" {
				// the alphabet is finite: an id whose rune would lie above U+10FFFF cannot travel through a string either
				okTop, whyTop := true, ""
				if res, err := ce.Eval(fwd, []constant.Value{constant.MakeInt64(0x10F800)}); err == nil && len(res) == 1 {
					if r, _ := constant.Int64Val(res[0]); r > 0x10FFFF {
						guarded := false
						for _, b := range fwd.Blocks {
							for _, in := range b.Instrs {
								if bo, ok := in.(*ssa.BinOp); ok {
									for _, v := range []ssa.Value{bo.X, bo.Y} {
										if k, isK := core.ConstInt(v); isK && k >= 0x10F7FF && k <= 0x110000 {
											guarded = true
										}
									}
								}
							}
						}
						if !guarded {
							okTop, whyTop = false, fmt.Sprintf("%s(0x10f800) = %#x lies above the largest code point and nothing in %s refuses it: from the 1,112,065th distinct word on every id becomes U+FFFD in go-diff's string conversion, all such words compare equal", fwd.Name(), r, fwd.Name())
						}
					}
				}
				c.R.Check(okTop, "R04.10", "token ids beyond the size of the rune alphabet are refused, not converted", p.Pos(fwd.Pos()), "the conversion is bounded", whyTop)
			}
			if undec != "" {
				c.R.Info("R04.10", "id <-> rune conversion tables", p.Pos(fwd.Pos()), "not read as tables: "+undec)
			} else {
				c.R.Check(bad == "", "R04.10", "the id -> rune step around the surrogate range is exact and is undone by the rune -> id step", p.Pos(fwd.Pos()),
					fmt.Sprintf("%d boundary ids evaluated by constant propagation: no surrogate, strictly increasing, round trip exact", len(points)), bad)
			}
		}
	}
	c.R.Count("R04.6:token id operations", n)
	if bad == 0 {
		c.R.OK("R04.6", "token ids are only compared for equality, used as map keys, or converted to diff runes", "-", fmt.Sprintf("%d operations on tokenID values inspected", n))
	}
	c.R.RequireMin("R04.6", "operations on tokenID values", n, 1)
}

// checkTraceNonInterference: R04.3 (E3).
func checkTraceNonInterference(c *Ctx, p *core.Prog, explored []*ssa.Function) {
	isTC := func(t types.Type) bool { return strings.HasSuffix(core.TypeName(t), "/v2.TraceConfiguration") }
	observerCall := func(cc *ssa.CallCommon) bool {
		if cc == nil {
			return false
		}
		f := cc.StaticCallee()
		return f != nil && isTraceFn(f)
	}
	cfg := &eng.NIConfig{
		P: p,
		IsSource: func(v ssa.Value) bool {
			call, ok := v.(*ssa.Call)
			if !ok || !observerCall(&call.Call) {
				return false
			}
			return call.Type().Underlying() == types.Typ[types.Bool]
		},
		IsConfigPtr: func(v ssa.Value) bool {
			u, ok := v.(*ssa.UnOp)
			if !ok || u.Op != token.MUL {
				return false
			}
			_, isPtr := u.Type().(*types.Pointer)
			return isPtr && isTC(u.Type())
		},
		ObserverCall: observerCall,
		PureFormatting: func(cc *ssa.CallCommon) bool {
			switch core.StaticCalleeName(cc) {
			case "github.com/davecgh/go-spew/spew.Sdump", "fmt.Sprintf", "fmt.Sprint", "github.com/davecgh/go-spew/spew.Sprintf":
				return true
			}
			return false
		},
	}
	res := &eng.NIResult{}
	nf := 0
	for _, fn := range explored {
		if !core.InRepo(fn) || isTraceFn(fn) {
			continue
		}
		nf++
		before := len(res.Findings)
		g0 := res.Guards
		eng.CheckNonInterference(cfg, fn, res)
		if len(res.Findings) == before && res.Guards > g0 {
			c.R.OK("R04.3", core.ShortFn(fn)+": trace predicates only guard trace calls", p.Pos(fn.Pos()), fmt.Sprintf("%d guarded regions contain only observer calls and argument formatting; nothing computed there is used outside", res.Guards-g0))
		}
	}
	for _, f := range res.Findings {
		c.R.Fail("R04.3", f.Construct, p.Pos(f.Pos), f.Detail)
	}
	c.R.Count("R04.3:functions", nf)
	c.R.RequireMin("R04.3", "trace-guarded regions in the Match tree", res.Guards, 4)
}

// checkLossyInterning: R04.7. On the Match path the target's words are interned through a
// read-only lookup. If that lookup maps every out-of-vocabulary word to one constant id
// and the id is later turned back into text that the scorer inspects, the result depends
// on which unrelated words happen to be in the dictionary (i.e. on unrelated corpus documents).
func checkLossyInterning(c *Ctx, p *core.Prog, e *eng.Explorer) {
	getIndex := p.Func(v2pkg, "(*dictionary).getIndex")
	getWord := p.Func(v2pkg, "(*dictionary).getWord")
	scoreDiffs := p.Func(v2pkg, "scoreDiffs")
	if !c.R.Anchor(getIndex != nil, "v2.(*dictionary).getIndex") || !c.R.Anchor(getWord != nil, "v2.(*dictionary).getWord") || !c.R.Anchor(scoreDiffs != nil, "v2.scoreDiffs") {
		return
	}
	// (a) does the read-only lookup have a return that does not come from the map (a constant / global sentinel)?
	lossy := false
	var sentinelPos token.Pos
	for _, b := range getIndex.Blocks {
		for _, in := range b.Instrs {
			if r, ok := in.(*ssa.Return); ok && len(r.Results) == 1 {
				if !derivesFromLookup(r.Results[0]) {
					lossy = true
					sentinelPos = r.Pos()
				}
			}
		}
	}
	// (b) is getIndex the interning function used on the Match path (explored, live)?
	usedOnMatch := false
	for _, fn := range e.Explored() {
		if fn == getIndex {
			usedOnMatch = true
		}
	}
	// (c) does the scorer inspect the *content* of diff texts (string comparisons)?
	inspects := 0
	for _, call := range core.CallsIn(scoreDiffs) {
		switch core.StaticCalleeName(call.Common()) {
		case "strings.HasSuffix", "strings.HasPrefix", "strings.Contains", "strings.Index":
			inspects++
		}
	}
	for _, b := range scoreDiffs.Blocks {
		for _, in := range b.Instrs {
			if bo, ok := in.(*ssa.BinOp); ok && bo.Op == token.EQL {
				if bt, ok := bo.X.Type().Underlying().(*types.Basic); ok && bt.Kind() == types.String {
					inspects++
				}
			}
		}
	}
	c.R.Count("R04.7:content inspections in scoreDiffs", inspects)
	key := "target words are interned by a lookup that maps every unknown word to one id, and the scorer inspects the text recovered from ids"
	if lossy && usedOnMatch && inspects > 0 {
		c.R.Fail("R04.7", key, p.Pos(sentinelPos), "an input word that is in no corpus document is rendered as the placeholder unless some unrelated document contains it; scoreDiffs then sees different text (e.g. an inserted \"lesser\"), so Match results depend on unrelated corpus documents")
	} else {
		c.R.OK("R04.7", "interning of target words does not lose their identity before the scorer inspects them", p.Pos(getIndex.Pos()), fmt.Sprintf("lossy=%v usedOnMatch=%v inspections=%d", lossy, usedOnMatch, inspects))
	}
}

func derivesFromLookup(v ssa.Value) bool {
	switch x := v.(type) {
	case *ssa.Extract:
		_, ok := x.Tuple.(*ssa.Lookup)
		return ok
	case *ssa.Lookup:
		return true
	case *ssa.Phi:
		for _, e := range x.Edges {
			if !derivesFromLookup(e) {
				return false
			}
		}
		return true
	}
	return false
}

// tokensClaimedMaintained: the other way to have TokensClaimed = TargetEnd - TargetStart at the sort: it is kept true at
// every write. Every matchRange literal in the function and the package functions it calls gives TokensClaimed the
// difference of the very values it gives TargetEnd and TargetStart, and every later store into TargetEnd or TargetStart of
// a range is followed, in the same block, by the store TokensClaimed = x.TargetEnd - x.TargetStart on the same range.
func tokensClaimedMaintained(fn *ssa.Function) bool {
	fns := pkgClosure(fn, core.FuncPkgPath(fn))
	nLit, nUpd := 0, 0
	for _, f := range fns {
		for _, lit := range structLits([]*ssa.Function{f}, "/v2.matchRange") {
			tc, has := lit.fields["TokensClaimed"]
			if !has {
				if lit.fields["TargetEnd"] != nil || lit.fields["TargetStart"] != nil {
					return false
				}
				continue
			}
			bo, ok := tc.(*ssa.BinOp)
			same := func(a, b ssa.Value) bool {
				return a != nil && b != nil && (a == b || (core.AP(a) == core.AP(b) && !strings.HasPrefix(core.AP(a), "?")))
			}
			if !ok || bo.Op != token.SUB || !same(bo.X, lit.fields["TargetEnd"]) || !same(bo.Y, lit.fields["TargetStart"]) {
				return false
			}
			nLit++
		}
		for _, b := range f.Blocks {
			for i, in := range b.Instrs {
				st, ok := in.(*ssa.Store)
				if !ok {
					continue
				}
				fa, ok := st.Addr.(*ssa.FieldAddr)
				if !ok || !strings.HasSuffix(core.TypeName(fa.X.Type()), "/v2.matchRange") || isFreshBase(fa.X) {
					continue
				}
				name := core.FieldName(fa)
				if name != "TargetEnd" && name != "TargetStart" {
					continue
				}
				base := core.AP(fa.X)
				fixed := false
				for _, later := range b.Instrs[i+1:] {
					s2, ok := later.(*ssa.Store)
					if !ok {
						continue
					}
					fa2, ok := s2.Addr.(*ssa.FieldAddr)
					if !ok || core.FieldName(fa2) != "TokensClaimed" || core.AP(fa2.X) != base {
						continue
					}
					if bo, ok := s2.Val.(*ssa.BinOp); ok && bo.Op == token.SUB && core.AP(bo.X) == base+".TargetEnd" && core.AP(bo.Y) == base+".TargetStart" {
						fixed = true
					}
				}
				if !fixed {
					return false
				}
				nUpd++
			}
		}
	}
	return nLit > 0
}
