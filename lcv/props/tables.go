package props

import (
	"sort"

	"golang.org/x/tools/go/ssa"

	"lcv/core"
)

// globalRegexTable reads the constant patterns of a package-level []*regexp.Regexp (or a slice of
// structs holding one) initialised with regexp.MustCompile calls in the package initialiser.
func globalRegexTable(p *core.Prog, pkg, name string) ([]string, bool) {
	g := p.Global(pkg, name)
	if g == nil {
		return nil, false
	}
	sp := p.SSAPkgs[pkg]
	init := sp.Func("init")
	if init == nil {
		return nil, false
	}
	var out []string
	found := false
	for _, b := range init.Blocks {
		for _, in := range b.Instrs {
			st, ok := in.(*ssa.Store)
			if !ok || st.Addr != g {
				continue
			}
			found = true
			sl, ok := st.Val.(*ssa.Slice)
			if !ok {
				return nil, false
			}
			al, ok := sl.X.(*ssa.Alloc)
			if !ok {
				return nil, false
			}
			type ent struct {
				idx int64
				pat string
			}
			var ents []ent
			for _, r := range *al.Referrers() {
				ia, ok := r.(*ssa.IndexAddr)
				if !ok {
					continue
				}
				k, _ := core.ConstInt(ia.Index)
				var walk func(addr ssa.Value)
				walk = func(addr ssa.Value) {
					for _, u := range *addr.Referrers() {
						switch x := u.(type) {
						case *ssa.Store:
							if call, ok := x.Val.(*ssa.Call); ok {
								n := core.StaticCalleeName(&call.Call)
								if n == "regexp.MustCompile" || n == "regexp.MustCompilePOSIX" {
									if s, ok := core.ConstString(call.Call.Args[0]); ok {
										ents = append(ents, ent{k, s})
									}
								}
							}
						case *ssa.FieldAddr:
							walk(x)
						}
					}
				}
				walk(ia)
			}
			sort.Slice(ents, func(i, j int) bool { return ents[i].idx < ents[j].idx })
			for _, e := range ents {
				out = append(out, e.pat)
			}
		}
	}
	return out, found
}
