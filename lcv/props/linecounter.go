package props

import (
	"fmt"
	"go/token"
	"go/types"
	"strings"

	"golang.org/x/tools/go/ssa"

	"lcv/core"
	"lcv/eng"
)

// checkLineCounter: R03.9 / R03.11. Line accounting of tokenizeStream's rune loop.
//
// The loop keeps the current line number L (the integer loop variable that is stored into token Line fields) and may
// hold back line breaks that were consumed but are not yet part of L (the hyphenation logic: counters that are later
// added to L). Every path through one iteration of the loop is enumerated and L and the held counters are evaluated
// along it as linear forms over their values at the top of the iteration. The rule (R03.9) is the accounting
// invariant
//
//	(L + held) at the end  ==  (L + held) at the start  +  1 if the rune decoded in this iteration is '\n', else + 0
//
// so a newline is never counted twice, never lost, and nothing else moves the line number; the rune compared with
// '\n' has to be the decoded rune itself (resolved along the path, so a rune rewritten from '\r' does not count).
// R03.11: a held line break never survives the point where the words collected so far are handed to the document
// (they get their line numbers there): after such a hand-over the counters are zero.
func checkLineCounter(c *Ctx, p *core.Prog, rule string) {
	fn := p.Func(v2pkg, "tokenizeStream")
	if !c.R.Anchor(fn != nil, "v2.tokenizeStream") {
		return
	}
	// the rune loop: innermost loop containing the utf8.DecodeRune call
	var dec *ssa.Call
	for _, call := range core.CallsIn(fn) {
		if core.StaticCalleeName(call.Common()) == "unicode/utf8.DecodeRune" {
			dec, _ = call.(*ssa.Call)
		}
	}
	if dec == nil {
		c.R.Fail(rule, "tokenizeStream: rune loop", p.Pos(fn.Pos()), "no utf8.DecodeRune call: cannot locate the rune loop")
		return
	}
	var header *ssa.BasicBlock
	for d := dec.Block(); d != nil; d = d.Idom() {
		back := false
		for _, pr := range d.Preds {
			if d.Dominates(pr) {
				back = true
			}
		}
		if back {
			header = d
			break
		}
	}
	if header == nil {
		c.R.Fail(rule, "tokenizeStream: rune loop", p.Pos(dec.Pos()), "DecodeRune is not in a loop")
		return
	}
	inLoop := func(b *ssa.BasicBlock) bool { return header.Dominates(b) && reaches(b, header) }
	isInt := func(t types.Type) bool {
		bt, ok := t.Underlying().(*types.Basic)
		return ok && bt.Kind() == types.Int
	}
	var linePhi *ssa.Phi
	intPhis := map[ssa.Value]bool{}
	for _, in := range header.Instrs {
		phi, ok := in.(*ssa.Phi)
		if !ok || !isInt(phi.Type()) {
			continue
		}
		intPhis[phi] = true
		if flowsToLine(phi) {
			linePhi = phi
		}
	}
	if linePhi == nil {
		c.R.Fail(rule, "tokenizeStream: line counter", p.Pos(header.Instrs[0].Pos()), "no integer loop variable flows into token Line fields")
		return
	}
	// the decoded rune
	var runeVal ssa.Value
	for _, r := range *dec.Referrers() {
		if ex, ok := r.(*ssa.Extract); ok && ex.Index == 0 {
			runeVal = ex
		}
	}

	// ---- evaluation along a path ----------------------------------------------------------
	type lin struct {
		co map[ssa.Value]int // coefficients of symbols (header phis, or opaque values)
		k  int
	}
	add := func(a, b lin, sign int) lin {
		out := lin{co: map[ssa.Value]int{}, k: a.k + sign*b.k}
		for s, n := range a.co {
			out.co[s] += n
		}
		for s, n := range b.co {
			out.co[s] += sign * n
		}
		for s, n := range out.co {
			if n == 0 {
				delete(out.co, s)
			}
		}
		return out
	}
	// resolve a value through the phis of the path (no arithmetic)
	var resolve func(v ssa.Value, path eng.Path, depth int) ssa.Value
	resolve = func(v ssa.Value, path eng.Path, depth int) ssa.Value {
		phi, ok := v.(*ssa.Phi)
		if !ok || depth > 12 || phi.Block() == header {
			return v
		}
		for i, b := range path.Blocks {
			if b == phi.Block() && i > 0 {
				for k, pr := range b.Preds {
					if pr == path.Blocks[i-1] {
						return resolve(phi.Edges[k], path, depth+1)
					}
				}
			}
		}
		return v
	}
	var eval func(v ssa.Value, path eng.Path, depth int) lin
	eval = func(v ssa.Value, path eng.Path, depth int) lin {
		v = resolve(v, path, 0)
		if k, ok := core.ConstInt(v); ok {
			return lin{co: map[ssa.Value]int{}, k: int(k)}
		}
		if bo, ok := v.(*ssa.BinOp); ok && depth < 12 && (bo.Op == token.ADD || bo.Op == token.SUB) {
			sign := 1
			if bo.Op == token.SUB {
				sign = -1
			}
			return add(eval(bo.X, path, depth+1), eval(bo.Y, path, depth+1), sign)
		}
		return lin{co: map[ssa.Value]int{v: 1}}
	}
	isNewlinePath := func(path eng.Path) (newline bool, rewritten bool) {
		for _, l := range path.Lits {
			bo, ok := l.Cond.(*ssa.BinOp)
			if !ok || bo.Op != token.EQL || !l.Truth {
				continue
			}
			if k, ok := core.ConstInt(bo.Y); !ok || k != '\n' {
				continue
			}
			if resolve(bo.X, path, 0) == runeVal {
				newline = true
			} else {
				rewritten = true
			}
		}
		return
	}
	flushes := func(path eng.Path) bool {
		for _, b := range path.Blocks {
			for _, in := range b.Instrs {
				call, ok := in.(*ssa.Call)
				if !ok {
					continue
				}
				if f := call.Call.StaticCallee(); f != nil {
					for i, a := range call.Call.Args {
						if i < len(f.Params) && isInt(a.Type()) && isLineParam(f, i, 0) {
							return true
						}
					}
				}
			}
		}
		return false
	}
	describe := func(path eng.Path) string {
		// the source lines of the branch decisions taken
		var parts []string
		for _, l := range path.Lits {
			if len(parts) >= 8 {
				parts = append(parts, "...")
				break
			}
			pos := p.Pos(l.Cond.Pos())
			if i := strings.LastIndex(pos, ":"); i >= 0 {
				pos = pos[i+1:]
			}
			parts = append(parts, fmt.Sprintf("%s=%v", pos, l.Truth))
		}
		return "branch decisions (line=outcome): " + strings.Join(parts, " ")
	}

	// ---- enumerate the iterations -----------------------------------------------------------
	type iter struct {
		path eng.Path
		pred int // index of the back-edge predecessor in header.Preds
	}
	var iters []iter
	for k, pr := range header.Preds {
		if !inLoop(pr) {
			continue
		}
		paths, ok := eng.EnumPaths(header, pr, func(b *ssa.BasicBlock) bool { return !inLoop(b) }, 20000)
		if !ok {
			c.R.Undecided(rule, "tokenizeStream: line accounting", p.Pos(header.Instrs[0].Pos()), "too many paths through one iteration of the rune loop")
			return
		}
		for _, pa := range paths {
			iters = append(iters, iter{pa, k})
		}
	}
	c.R.Count(rule+":paths through one iteration of the rune loop", len(iters))
	c.R.RequireMin(rule, "paths through one iteration of the rune loop", len(iters), 8)
	// the counters that are added to the line number
	held := map[ssa.Value]bool{}
	nInc := 0
	for _, it := range iters {
		le := eval(linePhi.Edges[it.pred], it.path, 0)
		if le.k != 0 || len(le.co) != 1 {
			nInc++
		}
		for s := range le.co {
			if s == ssa.Value(linePhi) {
				continue
			}
			if !intPhis[s] {
				c.R.Undecided(rule, "tokenizeStream: line counter update shape", p.Pos(linePhi.Pos()), "the line counter is updated with "+s.String()+", which is neither a constant nor a loop-carried counter; "+describe(it.path))
				return
			}
			held[s] = true
		}
	}
	c.R.RequireMin(rule, "line increment sites", nInc, 1)
	var heldNames []string
	for h := range held {
		heldNames = append(heldNames, h.(*ssa.Phi).Comment)
	}
	// ---- R03.9: the accounting invariant ----------------------------------------------------
	bad, badFlush := "", ""
	nNewline := 0
	for _, it := range iters {
		sum := eval(linePhi.Edges[it.pred], it.path, 0)
		start := lin{co: map[ssa.Value]int{linePhi: 1}}
		for h := range held {
			hp := h.(*ssa.Phi)
			he := eval(hp.Edges[it.pred], it.path, 0)
			sum = add(sum, he, 1)
			start = add(start, lin{co: map[ssa.Value]int{h: 1}}, 1)
			// R03.11
			if flushes(it.path) && badFlush == "" {
				zero := len(he.co) == 0 && he.k == 0
				if !zero && len(he.co) == 1 && he.co[h] == 1 && he.k == 0 {
					// unchanged: fine when the path knows the counter is zero (h > 0 is false, or h == 0)
					for _, l := range it.path.Lits {
						if bo, ok := l.Cond.(*ssa.BinOp); ok && bo.X == h {
							if k, isK := core.ConstInt(bo.Y); isK && k == 0 && ((bo.Op == token.GTR && !l.Truth) || (bo.Op == token.EQL && l.Truth) || (bo.Op == token.NEQ && !l.Truth) || (bo.Op == token.LEQ && l.Truth)) {
								zero = true
							}
						}
					}
				}
				if !zero {
					badFlush = "a path hands the collected words to the document and leaves the held-back line breaks pending: the following words are numbered before those line breaks are counted, so they are reported on an earlier line than their own; " + describe(it.path)
				}
			}
		}
		delta := add(sum, start, -1)
		nl, rewritten := isNewlinePath(it.path)
		if nl {
			nNewline++
		}
		want := 0
		if nl {
			want = 1
		}
		if bad == "" && (len(delta.co) != 0 || delta.k != want) {
			what := "does not consume a newline"
			if nl {
				what = "consumes a newline"
			} else if rewritten {
				what = "compares a rewritten rune (not the rune that was decoded) with '\\n'"
			}
			ch := fmt.Sprintf("%+d", delta.k)
			for s, n := range delta.co {
				ch += fmt.Sprintf(" %+d*%s", n, core.AP(s))
			}
			bad = fmt.Sprintf("an iteration that %s changes line + held line breaks by %s (expected %+d): line numbers run ahead of or fall behind the input; %s", what, ch, want, describe(it.path))
		}
	}
	// ---- R03.14: the words of a line are filed under the line number as it stood when the iteration began --------
	// (the held-back line breaks are paid after the hand-over, on every path alike: a path that pays them first files
	// the remainder of a hyphenated word one line later than the path that flushes it at a blank)
	badArg, nArg := "", 0
	for _, it := range iters {
		for _, b := range it.path.Blocks {
			for _, in := range b.Instrs {
				call, ok := in.(*ssa.Call)
				if !ok {
					continue
				}
				f := call.Call.StaticCallee()
				if f == nil {
					continue
				}
				for i, a := range call.Call.Args {
					if i >= len(f.Params) || !isInt(a.Type()) || !isLineParam(f, i, 0) {
						continue
					}
					nArg++
					le := eval(a, it.path, 0)
					if badArg == "" && !(le.k == 0 && len(le.co) == 1 && le.co[linePhi] == 1) {
						// a held counter that the path knows to be zero does not count
						onlyZeroHeld := le.k == 0 && le.co[linePhi] == 1
						for s2 := range le.co {
							if s2 == ssa.Value(linePhi) {
								continue
							}
							known := false
							for _, l := range it.path.Lits {
								if bo, ok := l.Cond.(*ssa.BinOp); ok && bo.X == s2 {
									if k, isK := core.ConstInt(bo.Y); isK && k == 0 && ((bo.Op == token.GTR && !l.Truth) || (bo.Op == token.EQL && l.Truth) || (bo.Op == token.NEQ && !l.Truth) || (bo.Op == token.LEQ && l.Truth)) {
										known = true
									}
								}
							}
							if !known {
								onlyZeroHeld = false
							}
						}
						if !onlyZeroHeld {
							ch := fmt.Sprintf("%+d", le.k)
							for s2, n2 := range le.co {
								ch += fmt.Sprintf(" %+d*%s", n2, core.AP(s2))
							}
							badArg = fmt.Sprintf("the line number handed to %s at %s is %s, not the line counter as the iteration found it: the same words get another line number on this path than on the others; %s", f.Name(), p.Pos(call.Pos()), ch, describe(it.path))
						}
					}
				}
			}
		}
	}
	r14 := strings.Replace(rule, "R03.9", "R03.14", 1)
	if nArg > 0 {
		c.R.Check(badArg == "", r14, "tokenizeStream: the words of a line are handed over under the line number the iteration began with", p.Pos(linePhi.Pos()),
			fmt.Sprintf("%d hand-overs on the enumerated paths, each with the loop's line counter unchanged", nArg), badArg)
	}
	okDetail := fmt.Sprintf("%d paths through one iteration (%d consume a newline); line + held counters %v advance by exactly one on a newline and not otherwise", len(iters), nNewline, heldNames)
	c.R.Check(bad == "", rule, "tokenizeStream: the line count (with held-back line breaks) advances by exactly one per consumed newline", p.Pos(linePhi.Pos()), okDetail, bad)
	c.R.RequireMin(rule, "iterations that consume a newline", nNewline, 1)
	if len(held) > 0 {
		r11 := strings.Replace(rule, "R03.9", "R03.11", 1)
		c.R.Check(badFlush == "", r11, "tokenizeStream: no held-back line break survives the hand-over of a line's words to the document", p.Pos(linePhi.Pos()),
			"on every path that hands words to the document the held counters end at zero", badFlush)
	}
	// ---- entry values: the outer loop passes the counters through unchanged -----------------------
	for v := range map[ssa.Value]bool{linePhi: true} {
		_ = v
	}
	check := func(phi *ssa.Phi, init int64, what string) {
		ok := true
		for k, pr := range header.Preds {
			if inLoop(pr) {
				continue
			}
			if !entryValueOK(phi.Edges[k], phi, init, 0) {
				ok = false
			}
		}
		c.R.Check(ok, rule, "tokenizeStream: "+what+" enters the rune loop unchanged", p.Pos(phi.Pos()), fmt.Sprintf("starts at %d and is carried through the read loop as it is", init), what+" is modified outside the rune loop (between two reads): the accounting invariant does not cover it")
	}
	check(linePhi, 1, "the line counter")
	for h := range held {
		check(h.(*ssa.Phi), 0, "the held line-break counter")
	}
}

// entryValueOK: v is the constant init, the loop's own phi, or a phi of such values.
func entryValueOK(v ssa.Value, own *ssa.Phi, init int64, depth int) bool {
	if v == ssa.Value(own) {
		return true
	}
	if k, ok := core.ConstInt(v); ok {
		return k == init
	}
	if phi, ok := v.(*ssa.Phi); ok && depth < 6 {
		for _, e := range phi.Edges {
			if e == ssa.Value(phi) {
				continue
			}
			if !entryValueOK(e, own, init, depth+1) {
				return false
			}
		}
		return true
	}
	return false
}

func isBool(t types.Type) bool {
	b, ok := t.Underlying().(*types.Basic)
	return ok && b.Kind() == types.Bool
}

func reaches(from, to *ssa.BasicBlock) bool {
	seen := map[*ssa.BasicBlock]bool{}
	work := []*ssa.BasicBlock{from}
	for len(work) > 0 {
		b := work[len(work)-1]
		work = work[:len(work)-1]
		if seen[b] {
			continue
		}
		seen[b] = true
		for _, s := range b.Succs {
			if s == to {
				return true
			}
			work = append(work, s)
		}
	}
	return false
}

// flowsToLine: some value in the phi/+1 web of v is stored into a field named Line or passed to a parameter named line.
func flowsToLine(v ssa.Value) bool {
	seen := map[ssa.Value]bool{}
	var walk func(x ssa.Value) bool
	walk = func(x ssa.Value) bool {
		if seen[x] {
			return false
		}
		seen[x] = true
		refs := x.Referrers()
		if refs == nil {
			return false
		}
		for _, r := range *refs {
			switch u := r.(type) {
			case *ssa.Store:
				if fa, ok := u.Addr.(*ssa.FieldAddr); ok && core.FieldName(fa) == "Line" && u.Val == x {
					return true
				}
			case *ssa.Call:
				if f := u.Call.StaticCallee(); f != nil {
					for i, a := range u.Call.Args {
						if a == x && i < len(f.Params) && isLineParam(f, i, 0) {
							return true
						}
					}
				}
			case *ssa.Phi:
				if walk(u) {
					return true
				}
			case *ssa.BinOp:
				if u.Op == token.ADD && u.X == x {
					if walk(u) {
						return true
					}
				}
			}
		}
		return false
	}
	return walk(v)
}

// boolWeb: the phis connected to v through phi edges (the SSA web of one boolean variable).
func boolWeb(v ssa.Value) map[ssa.Value]bool {
	web := map[ssa.Value]bool{}
	var walk func(x ssa.Value)
	walk = func(x ssa.Value) {
		if web[x] {
			return
		}
		phi, ok := x.(*ssa.Phi)
		if !ok {
			return
		}
		web[x] = true
		for _, e := range phi.Edges {
			walk(e)
		}
		if refs := x.Referrers(); refs != nil {
			for _, r := range *refs {
				if u, ok := r.(*ssa.Phi); ok {
					walk(u)
				}
			}
		}
	}
	walk(v)
	return web
}

// isLineParam: parameter i of f is stored into a Line/StartLine/EndLine field, or passed on to such a parameter.
func isLineParam(f *ssa.Function, i int, depth int) bool {
	if depth > 3 || i >= len(f.Params) || len(f.Blocks) == 0 {
		return false
	}
	prm := f.Params[i]
	if bt, ok := prm.Type().Underlying().(*types.Basic); !ok || bt.Kind() != types.Int {
		return false
	}
	refs := prm.Referrers()
	if refs == nil {
		return false
	}
	for _, r := range *refs {
		switch u := r.(type) {
		case *ssa.Store:
			if fa, ok := u.Addr.(*ssa.FieldAddr); ok && u.Val == ssa.Value(prm) {
				switch core.FieldName(fa) {
				case "Line", "StartLine", "EndLine":
					return true
				}
			}
		case *ssa.Call:
			if g := u.Call.StaticCallee(); g != nil {
				for k, a := range u.Call.Args {
					if a == ssa.Value(prm) && isLineParam(g, k, depth+1) {
						return true
					}
				}
			}
		}
	}
	return false
}

// checkWordSeparator: R05.4. Horizontal white space of every kind (blank, tab, carriage return, Unicode spaces) separates
// words in the same way. On every path through one iteration of the rune loop on which the decoded rune is appended to a
// word that is already open, unicode.IsSpace was called on that rune and returned false - the library predicate itself,
// not a local approximation of it (an ASCII table that forgets '\r' keeps the carriage return of a CRLF line ending
// inside the last word of the line).
func checkWordSeparator(c *Ctx, p *core.Prog) {
	fn := p.Func(v2pkg, "tokenizeStream")
	if fn == nil {
		return
	}
	var dec *ssa.Call
	for _, call := range core.CallsIn(fn) {
		if core.StaticCalleeName(call.Common()) == "unicode/utf8.DecodeRune" {
			dec, _ = call.(*ssa.Call)
		}
	}
	if dec == nil {
		return // reported by R03.9
	}
	var header *ssa.BasicBlock
	for d := dec.Block(); d != nil && header == nil; d = d.Idom() {
		for _, pr := range d.Preds {
			if d.Dominates(pr) {
				header = d
			}
		}
	}
	if header == nil {
		return
	}
	inLoop := func(b *ssa.BasicBlock) bool { return header.Dominates(b) && reaches(b, header) }
	var runeVal ssa.Value
	for _, r := range *dec.Referrers() {
		if ex, ok := r.(*ssa.Extract); ok && ex.Index == 0 {
			runeVal = ex
		}
	}
	derivesFromRune := func(v ssa.Value) bool {
		for d := 0; d < 6 && v != nil; d++ {
			if v == runeVal {
				return true
			}
			switch x := v.(type) {
			case *ssa.Call:
				if core.StaticCalleeName(&x.Call) == "unicode.ToLower" {
					v = x.Call.Args[0]
					continue
				}
			case *ssa.Phi:
				for _, e := range x.Edges {
					if e == runeVal {
						return true
					}
					if call, ok := e.(*ssa.Call); ok && core.StaticCalleeName(&call.Call) == "unicode.ToLower" && call.Call.Args[0] == runeVal {
						return true
					}
				}
			}
			return false
		}
		return false
	}
	nPaths, nAppend := 0, 0
	bad := ""
	nSpacePaths, nOpenNotSpace := 0, 0
	badKind, badEnd := "", ""
	for _, pr := range header.Preds {
		if !inLoop(pr) {
			continue
		}
		paths, ok := eng.EnumPaths(header, pr, func(b *ssa.BasicBlock) bool { return !inLoop(b) }, 20000)
		if !ok {
			c.R.Undecided("R05.4", "tokenizeStream: word separator", p.Pos(dec.Pos()), "too many paths through one iteration")
			return
		}
		for _, pa := range paths {
			nPaths++
			// does the path append the decoded rune itself to a buffer (utf8.AppendRune(buf, r or ToLower(r)))?
			appends, wordOpen := false, false
			for _, b := range pa.Blocks {
				for _, in := range b.Instrs {
					if call, ok := in.(*ssa.Call); ok && core.StaticCalleeName(&call.Call) == "unicode/utf8.AppendRune" && derivesFromRune(call.Call.Args[1]) {
						appends = true
					}
				}
			}
			// ... while a word is open: the path took `len(buf) == 0` false (or `len(buf) > 0` true)
			for _, l := range pa.Lits {
				if bo, ok := l.Cond.(*ssa.BinOp); ok {
					if call, isCall := bo.X.(*ssa.Call); isCall {
						if bi, isB := call.Call.Value.(*ssa.Builtin); isB && bi.Name() == "len" {
							if k, isK := core.ConstInt(bo.Y); isK && k == 0 && ((bo.Op == token.EQL && !l.Truth) || (bo.Op == token.GTR && l.Truth) || (bo.Op == token.NEQ && l.Truth)) {
								wordOpen = true
							}
						}
					}
				}
			}
			// R05.8 / R05.10 on the same paths
			spaceLit, notSpaceLit := false, false
			for _, l := range pa.Lits {
				if call, ok := l.Cond.(*ssa.Call); ok && core.StaticCalleeName(&call.Call) == "unicode.IsSpace" && len(call.Call.Args) == 1 && call.Call.Args[0] == runeVal {
					if l.Truth {
						spaceLit = true
					} else {
						notSpaceLit = true
					}
				}
			}
			if spaceLit {
				nSpacePaths++
				for _, l := range pa.Lits {
					bo, ok := l.Cond.(*ssa.BinOp)
					if !ok || (bo.Op != token.EQL && bo.Op != token.NEQ) || bo.X != runeVal {
						continue
					}
					if k, isK := core.ConstInt(bo.Y); isK && k != '\n' && k != '\r' && badKind == "" {
						badKind = fmt.Sprintf("a path on which the rune is white space also compares it with %q (%s)", rune(k), p.Pos(bo.Pos()))
					}
				}
			}
			if wordOpen && notSpaceLit && badEnd == "" {
				anyAppend := false
				for _, b := range pa.Blocks {
					for _, in := range b.Instrs {
						if call, ok := in.(*ssa.Call); ok && core.StaticCalleeName(&call.Call) == "unicode/utf8.AppendRune" {
							anyAppend = true
						}
					}
				}
				nOpenNotSpace++
				// a rune the punctuation table knows is replaced by what the table says, which may be nothing
				for _, l := range pa.Lits {
					if ex, ok := l.Cond.(*ssa.Extract); ok && l.Truth && ex.Index == 1 {
						switch t := ex.Tuple.(type) {
						case *ssa.Lookup:
							anyAppend = true
						case *ssa.Call:
							if cal := t.Call.StaticCallee(); cal != nil && core.FuncPkgPath(cal) == v2pkg {
								anyAppend = true
							}
						}
					}
				}
				if !anyAppend {
					badEnd = "a path on which a word is open and the rune is not white space adds nothing to the word"
					for _, l := range pa.Lits {
						if bo, ok := l.Cond.(*ssa.BinOp); ok && bo.X == runeVal && l.Truth {
							if k, isK := core.ConstInt(bo.Y); isK {
								badEnd += fmt.Sprintf(" (the rune is %q, %s)", rune(k), p.Pos(bo.Pos()))
							}
						}
					}
				}
			}
			if !appends || !wordOpen {
				continue
			}
			nAppend++
			tested := false
			for _, l := range pa.Lits {
				if call, ok := l.Cond.(*ssa.Call); ok && !l.Truth && core.StaticCalleeName(&call.Call) == "unicode.IsSpace" && len(call.Call.Args) == 1 && call.Call.Args[0] == runeVal {
					tested = true
				}
			}
			if !tested && bad == "" {
				bad = "a path appends the decoded rune to an open word without unicode.IsSpace(r) having returned false on it"
			}
		}
	}
	c.R.Check(bad == "", "R05.4", "tokenizeStream: a rune joins an open word only after unicode.IsSpace said it is not white space", p.Pos(dec.Pos()),
		fmt.Sprintf("%d paths through one iteration, %d append the rune to an open word, all behind unicode.IsSpace(r) == false", nPaths, nAppend),
		bad+": the test for the end of a word is something else than the library predicate (an ASCII fast path, a table), so some kind of white space - '\\r' of a CRLF line ending, a Unicode space - stays inside a word and changing the white space of a text changes its tokens")
	c.R.RequireMin("R05.4", "iteration paths that append to an open word", nAppend, 1)
	// R05.8: all white space is alike (the line feed, which counts lines, and the carriage return in front of it apart): on a
	// path where unicode.IsSpace(r) held, the rune is compared with no other constant - a blank and a tab must do the same
	c.R.Check(badKind == "", "R05.8", "tokenizeStream: one kind of white space is treated like another", p.Pos(dec.Pos()),
		fmt.Sprintf("%d paths on which the rune is white space; it is compared with '\\n' and '\\r' only", nSpacePaths),
		badKind+": what the tokenizer does depends on the kind of white space, so replacing blanks by tabs (or the other way round) changes the tokens")
	// R05.10: a word is ended by white space only: while a word is open, a rune that is not white space adds to the word
	// (itself, lower-cased, or what the punctuation table maps it to)
	c.R.Check(badEnd == "", "R05.10", "tokenizeStream: only white space ends a word", p.Pos(dec.Pos()),
		fmt.Sprintf("%d paths with an open word and a rune that is not white space, each appends to the word", nOpenNotSpace),
		badEnd+": some character other than white space ends a word, so a text in which that character is written differently (a typographic dash for a hyphen) is split into other tokens")
}
