package props

import (
	"fmt"
	"go/token"
	"go/types"

	"golang.org/x/tools/go/ssa"

	"lcv/core"
)

// checkLineCounter: R03.9. In tokenizeStream's rune loop the line counter (the integer
// loop-carried variable that is stored into token Line fields) advances at most once per
// iteration; an increment that is not under the newline test is a *deferred* increment: it must be
// guarded by a flag, clear that flag on the same path, and the flag may only be raised (through one
// more flag) on a newline path that did not increment.
func checkLineCounter(c *Ctx, p *core.Prog, rule string) {
	fn := p.Func(v2pkg, "tokenizeStream")
	if !c.R.Anchor(fn != nil, "v2.tokenizeStream") {
		return
	}
	// the rune loop: innermost loop containing the utf8.DecodeRune call
	var dec ssa.CallInstruction
	for _, call := range core.CallsIn(fn) {
		if core.StaticCalleeName(call.Common()) == "unicode/utf8.DecodeRune" {
			dec = call
		}
	}
	if dec == nil {
		c.R.Fail(rule, "tokenizeStream: rune loop", p.Pos(fn.Pos()), "no utf8.DecodeRune call: cannot locate the rune loop")
		return
	}
	var header *ssa.BasicBlock
	for d := dec.Block(); d != nil; d = d.Idom() {
		back := false
		for _, pr := range d.Preds {
			if d.Dominates(pr) {
				back = true
			}
		}
		if back {
			header = d
			break
		}
	}
	if header == nil {
		c.R.Fail(rule, "tokenizeStream: rune loop", p.Pos(dec.Pos()), "DecodeRune is not in a loop")
		return
	}
	inLoop := func(b *ssa.BasicBlock) bool { return header.Dominates(b) && reaches(b, header) }
	// the line counter: an int header phi one of whose web values is passed as the `line` argument of
	// appendToDoc / stored into a Line field
	var linePhi *ssa.Phi
	for _, in := range header.Instrs {
		phi, ok := in.(*ssa.Phi)
		if !ok {
			continue
		}
		if bt, ok := phi.Type().Underlying().(*types.Basic); !ok || bt.Kind() != types.Int {
			continue
		}
		if flowsToLine(phi) {
			linePhi = phi
		}
	}
	if linePhi == nil {
		c.R.Fail(rule, "tokenizeStream: line counter", p.Pos(header.Instrs[0].Pos()), "no integer loop variable flows into token Line fields")
		return
	}
	// (a) at most one increment per iteration
	var incs []*ssa.BinOp
	undec := ""
	var inc func(v ssa.Value, seen map[ssa.Value]bool) int
	inc = func(v ssa.Value, seen map[ssa.Value]bool) int {
		if v == linePhi {
			return 0
		}
		if seen[v] {
			return 0
		}
		seen[v] = true
		defer delete(seen, v)
		switch x := v.(type) {
		case *ssa.Phi:
			if !inLoop(x.Block()) {
				undec = "line value from outside the loop: " + x.String()
				return 0
			}
			m := 0
			for _, e := range x.Edges {
				if k := inc(e, seen); k > m {
					m = k
				}
			}
			return m
		case *ssa.BinOp:
			if k, ok := core.ConstInt(x.Y); ok && x.Op == token.ADD && k == 1 {
				found := false
				for _, i := range incs {
					if i == x {
						found = true
					}
				}
				if !found {
					incs = append(incs, x)
				}
				return inc(x.X, seen) + 1
			}
		}
		undec = "line counter updated by " + v.String()
		return 0
	}
	maxInc := 0
	for i, e := range linePhi.Edges {
		if inLoop(header.Preds[i]) {
			if k := inc(e, map[ssa.Value]bool{}); k > maxInc {
				maxInc = k
			}
		}
	}
	if undec != "" {
		c.R.Undecided(rule, "tokenizeStream: line counter update shape", p.Pos(linePhi.Pos()), undec)
		return
	}
	c.R.Check(maxInc <= 1, rule, "tokenizeStream: the line counter advances at most once per consumed rune", p.Pos(linePhi.Pos()),
		fmt.Sprintf("%d increment sites; no path through one iteration passes two of them", len(incs)),
		fmt.Sprintf("a path through one iteration of the rune loop increments the line counter %d times: one rune can end at most one line, so line numbers overrun the input", maxInc))
	c.R.RequireMin(rule, "line increment sites", len(incs), 1)

	// (b) classify increments
	pd := core.NewPostDom(fn)
	tcd := pd.TransitiveControlDeps()
	isNewlineTest := func(v ssa.Value) bool {
		bo, ok := v.(*ssa.BinOp)
		if !ok || bo.Op != token.EQL {
			return false
		}
		k, ok := core.ConstInt(bo.Y)
		return ok && k == '\n'
	}
	underNewline := func(b *ssa.BasicBlock) bool {
		for _, f := range core.FactsAt(b) {
			if isNewlineTest(f.Cond) && f.Truth {
				return true
			}
		}
		return false
	}
	_ = tcd
	for _, i := range incs {
		key := "tokenizeStream: line increment"
		if underNewline(i.Block()) {
			// the rune that is compared with '\n' must be the decoded rune itself, not a rewritten value
			direct := false
			for _, f := range core.FactsAt(i.Block()) {
				if isNewlineTest(f.Cond) && f.Truth {
					x := f.Cond.(*ssa.BinOp).X
					if ex, ok := x.(*ssa.Extract); ok && ex.Index == 0 {
						if dc, ok := ex.Tuple.(*ssa.Call); ok && core.StaticCalleeName(&dc.Call) == "unicode/utf8.DecodeRune" {
							direct = true
						}
					}
				}
			}
			c.R.Check(direct, rule, key+" under the newline test on the decoded rune", p.Pos(i.Pos()), "executed only when the rune just decoded is '\\n'",
				"the value compared with '\\n' is not the rune that was decoded (it can have been rewritten from another character, e.g. '\\r'): a line break is counted for a rune that does not end a physical line, so CRLF input gets different line numbers")
			continue
		}
		// deferred increment: guarded by a boolean flag that is cleared on the same path
		var flag ssa.Value
		for _, f := range core.FactsAt(i.Block()) {
			if phi, ok := f.Cond.(*ssa.Phi); ok && f.Truth && isBool(phi.Type()) {
				flag = phi
			}
		}
		if flag == nil {
			c.R.Fail(rule, key+" outside the newline test without a pending-newline flag", p.Pos(i.Pos()), "the counter advances although no newline is being consumed and no flag records a swallowed newline")
			continue
		}
		cleared := false
		web := boolWeb(flag)
		for w := range web {
			phi, ok := w.(*ssa.Phi)
			if !ok {
				continue
			}
			for k, e := range phi.Edges {
				if cst, ok := e.(*ssa.Const); ok && cst.Value != nil && cst.Value.String() == "false" {
					pb := phi.Block().Preds[k]
					if pb == i.Block() || i.Block().Dominates(pb) {
						cleared = true
					}
				}
			}
		}
		c.R.Check(cleared, rule, key+" under a pending-newline flag clears the flag on the same path", p.Pos(i.Pos()),
			"deferred increment consumes the flag", "the deferred increment does not clear its flag: one swallowed newline is counted on every later word")
		// the flag is raised only under a second flag, which is raised only on a newline path without increment
		okRaise, why := flagRaisedOnlyAfterSwallowedNewline(web, underNewline, linePhi, inLoop)
		c.R.Check(okRaise, rule, "tokenizeStream: the pending-newline flag is raised only after a newline that was consumed without advancing the counter", p.Pos(i.Pos()), why, why)
	}
}

func isBool(t types.Type) bool {
	b, ok := t.Underlying().(*types.Basic)
	return ok && b.Kind() == types.Bool
}

func reaches(from, to *ssa.BasicBlock) bool {
	seen := map[*ssa.BasicBlock]bool{}
	work := []*ssa.BasicBlock{from}
	for len(work) > 0 {
		b := work[len(work)-1]
		work = work[:len(work)-1]
		if seen[b] {
			continue
		}
		seen[b] = true
		for _, s := range b.Succs {
			if s == to {
				return true
			}
			work = append(work, s)
		}
	}
	return false
}

// flowsToLine: some value in the phi/+1 web of v is stored into a field named Line or passed to a parameter named line.
func flowsToLine(v ssa.Value) bool {
	seen := map[ssa.Value]bool{}
	var walk func(x ssa.Value) bool
	walk = func(x ssa.Value) bool {
		if seen[x] {
			return false
		}
		seen[x] = true
		refs := x.Referrers()
		if refs == nil {
			return false
		}
		for _, r := range *refs {
			switch u := r.(type) {
			case *ssa.Store:
				if fa, ok := u.Addr.(*ssa.FieldAddr); ok && core.FieldName(fa) == "Line" && u.Val == x {
					return true
				}
			case *ssa.Call:
				if f := u.Call.StaticCallee(); f != nil {
					for i, a := range u.Call.Args {
						if a == x && i < len(f.Params) && isLineParam(f, i, 0) {
							return true
						}
					}
				}
			case *ssa.Phi:
				if walk(u) {
					return true
				}
			case *ssa.BinOp:
				if u.Op == token.ADD && u.X == x {
					if walk(u) {
						return true
					}
				}
			}
		}
		return false
	}
	return walk(v)
}

// boolWeb: the phis connected to v through phi edges (the SSA web of one boolean variable).
func boolWeb(v ssa.Value) map[ssa.Value]bool {
	web := map[ssa.Value]bool{}
	var walk func(x ssa.Value)
	walk = func(x ssa.Value) {
		if web[x] {
			return
		}
		phi, ok := x.(*ssa.Phi)
		if !ok {
			return
		}
		web[x] = true
		for _, e := range phi.Edges {
			walk(e)
		}
		if refs := x.Referrers(); refs != nil {
			for _, r := range *refs {
				if u, ok := r.(*ssa.Phi); ok {
					walk(u)
				}
			}
		}
	}
	walk(v)
	return web
}

// flagRaisedOnlyAfterSwallowedNewline: every `true` flowing into the flag's web comes from a block
// guarded by a second boolean flag; every `true` flowing into that second flag's web comes from a
// block under the newline test from which the line counter reaches the loop header unchanged.
func flagRaisedOnlyAfterSwallowedNewline(web map[ssa.Value]bool, underNewline func(*ssa.BasicBlock) bool, linePhi *ssa.Phi, inLoop func(*ssa.BasicBlock) bool) (bool, string) {
	raises := 0
	for w := range web {
		phi := w.(*ssa.Phi)
		for k, e := range phi.Edges {
			cst, ok := e.(*ssa.Const)
			if !ok || cst.Value == nil || cst.Value.String() != "true" {
				continue
			}
			raises++
			pb := phi.Block().Preds[k]
			var second ssa.Value
			for _, f := range core.FactsAt(pb) {
				if ph, ok := f.Cond.(*ssa.Phi); ok && f.Truth && isBool(ph.Type()) && !web[ph] {
					second = ph
				}
			}
			if second == nil {
				return false, "the pending-newline flag is raised on a path that is not guarded by the swallowed-newline flag"
			}
			web2 := boolWeb(second)
			n2 := 0
			for w2 := range web2 {
				phi2 := w2.(*ssa.Phi)
				for k2, e2 := range phi2.Edges {
					c2, ok := e2.(*ssa.Const)
					if !ok || c2.Value == nil || c2.Value.String() != "true" {
						continue
					}
					n2++
					pb2 := phi2.Block().Preds[k2]
					if !underNewline(pb2) {
						return false, "the swallowed-newline flag is raised outside the newline test"
					}
					// on that path the line counter must be unchanged: the header phi's edge from pb2 (or the
					// same-block phi of the line web) carries the counter without increment
					if !lineUnchangedFrom(pb2, phi2.Block(), linePhi) {
						return false, "the swallowed-newline flag is raised on a path that also advances the line counter"
					}
				}
			}
			if n2 == 0 {
				return false, "the swallowed-newline flag is never raised"
			}
		}
	}
	if raises == 0 {
		return false, "the pending-newline flag is never raised"
	}
	return true, "flag chain: newline consumed without increment -> swallowed-newline flag -> pending flag -> deferred increment"
}

// lineUnchangedFrom: in block `merge`, the phi of the line web has, for predecessor pb, a value with zero increments.
func lineUnchangedFrom(pb, merge *ssa.BasicBlock, linePhi *ssa.Phi) bool {
	for _, in := range merge.Instrs {
		phi, ok := in.(*ssa.Phi)
		if !ok {
			continue
		}
		if !sameWeb(phi, linePhi) {
			continue
		}
		for k, pr := range merge.Preds {
			if pr == pb {
				e := phi.Edges[k]
				return e == linePhi || isPhiOnly(e, linePhi, 0)
			}
		}
	}
	return false
}

func sameWeb(a, b *ssa.Phi) bool {
	if a == b {
		return true
	}
	seen := map[ssa.Value]bool{}
	var walk func(x ssa.Value) bool
	walk = func(x ssa.Value) bool {
		if x == b {
			return true
		}
		if seen[x] {
			return false
		}
		seen[x] = true
		switch y := x.(type) {
		case *ssa.Phi:
			for _, e := range y.Edges {
				if walk(e) {
					return true
				}
			}
		case *ssa.BinOp:
			return walk(y.X)
		}
		return false
	}
	return walk(a)
}

func isPhiOnly(v ssa.Value, target *ssa.Phi, depth int) bool {
	if v == target {
		return true
	}
	if depth > 6 {
		return false
	}
	if phi, ok := v.(*ssa.Phi); ok {
		for _, e := range phi.Edges {
			if e == phi {
				continue
			}
			if !isPhiOnly(e, target, depth+1) {
				return false
			}
		}
		return true
	}
	return false
}

// isLineParam: parameter i of f is stored into a Line/StartLine/EndLine field, or passed on to such a parameter.
func isLineParam(f *ssa.Function, i int, depth int) bool {
	if depth > 3 || i >= len(f.Params) || len(f.Blocks) == 0 {
		return false
	}
	prm := f.Params[i]
	if bt, ok := prm.Type().Underlying().(*types.Basic); !ok || bt.Kind() != types.Int {
		return false
	}
	refs := prm.Referrers()
	if refs == nil {
		return false
	}
	for _, r := range *refs {
		switch u := r.(type) {
		case *ssa.Store:
			if fa, ok := u.Addr.(*ssa.FieldAddr); ok && u.Val == ssa.Value(prm) {
				switch core.FieldName(fa) {
				case "Line", "StartLine", "EndLine":
					return true
				}
			}
		case *ssa.Call:
			if g := u.Call.StaticCallee(); g != nil {
				for k, a := range u.Call.Args {
					if a == ssa.Value(prm) && isLineParam(g, k, depth+1) {
						return true
					}
				}
			}
		}
	}
	return false
}
