package props

import (
	"fmt"
	"go/constant"
	"go/token"
	"go/types"
	"strings"

	"golang.org/x/tools/go/ssa"

	"lcv/core"
	"lcv/eng"
)

func init() {
	register(&Check{
		ID:      "C20",
		Modules: []string{""},
		Explanation: "Effect/ownership analysis of every method of StringSet and IntSet other than Insert/Delete, with receiver and argument treated as memory shared with the caller: (R20.1) the method writes neither operand, and a returned set (and its backing map) or slice is allocated by the call, so results never alias operands; " +
			"(R20.2) in the heap adapter every index reported through setIndex is the index of the cell the value was just stored in (Swap reports both cells, Push reports the cell it appends to), always under the nil guard; (R20.3) Queue.Push/Pop/Fix/Remove reach their container/heap call on every path with the queue's own heap and the caller's arguments; (R20.4) Equal returns true only behind both inclusions: one containment loop under equal map sizes, or loops in both directions. " +
			"Structural necessary conditions for all operation sequences; the set-algebra laws and the heap order are not decided.",
		Run: runC20,
	})
}

func runC20(c *Ctx) {
	p := c.Prog("")
	if p == nil {
		return
	}
	nMethods := 0
	for _, spec := range [][2]string{{core.RootMod + "/internal/sets", "StringSet"}, {core.RootMod + "/stringclassifier/internal/sets", "IntSet"}} {
		named := p.Named(spec[0], spec[1])
		if !c.R.Anchor(named != nil, spec[0]+"."+spec[1]) {
			continue
		}
		for i := 0; i < named.NumMethods(); i++ {
			m := named.Method(i)
			if m.Name() == "Insert" || m.Name() == "Delete" {
				// R20.9: a mutator changes the set it is called on: the receiver's map is replaced only where it was found to
				// be nil (lazy initialisation) - a fresh map stored over a non-empty one drops what the set held
				if fn := p.SSA.FuncValue(m); fn != nil && len(fn.Blocks) > 0 {
					for _, b := range fn.Blocks {
						for _, in := range b.Instrs {
							st, ok := in.(*ssa.Store)
							if !ok {
								continue
							}
							fa, ok := st.Addr.(*ssa.FieldAddr)
							if !ok || fa.X != ssa.Value(fn.Params[0]) {
								continue
							}
							if _, isMap := st.Val.Type().Underlying().(*types.Map); !isMap {
								continue
							}
							wasNil := false
							for _, f := range core.FactsAt(b) {
								if cmp, ok := f.AsCmp(); ok && cmp.Op == token.EQL {
									if cst, isC := cmp.Y.(*ssa.Const); isC && cst.Value == nil {
										if ld, isLd := cmp.X.(*ssa.UnOp); isLd {
											if fa2, isFA := ld.X.(*ssa.FieldAddr); isFA && fa2.Field == fa.Field {
												wasNil = true
											}
										}
									}
								}
							}
							c.R.Check(wasNil, "R20.9", spec[1]+"."+m.Name()+": the set's map is replaced only when it was nil", p.Pos(st.Pos()), "behind `map == nil`",
								"a new map is stored into the receiver without a test that the old one was nil: the elements the set held are dropped")
						}
					}
				}
				// R20.6: a mutator applies to every element it is given: the loop over its variadic argument is left only
				// when the elements are exhausted
				if fn := p.SSA.FuncValue(m); fn != nil && len(fn.Blocks) > 0 && fn.Signature.Variadic() {
					va := fn.Params[len(fn.Params)-1]
					nL := 0
					for _, rl := range rangeLoopsOf(fn) {
						if core.Unspill(rl.over) != ssa.Value(va) {
							continue
						}
						nL++
						early, _ := leavesEarly(rl.header)
						c.R.Check(!early, "R20.6", spec[1]+"."+m.Name()+": the loop over the elements given looks at every element", p.Pos(fn.Pos()),
							"the loop is left only when the elements are exhausted", "the loop over the variadic argument can be left early (break/return in its body): the elements behind the one that triggers the exit are not inserted / deleted")
					}
					c.R.RequireMin("R20.6", spec[1]+"."+m.Name()+": loops over the variadic argument", nL, 1)
					checkUniformMutator(c, p, fn, va, spec[1]+"."+m.Name())
				}
				continue
			}
			if !m.Exported() {
				continue // unexported helpers (which may legitimately fill a fresh set)
			}
			fn := p.SSA.FuncValue(m)
			if fn == nil || len(fn.Blocks) == 0 {
				continue
			}
			nMethods++
			checkSetMethod(c, p, fn, spec[1])
			checkReturnedSetUsable(c, p, fn, spec[1])
			checkOperandMapsChosen(c, p, fn, spec[1])
			if m.Name() == "Equal" {
				checkSetEqual(c, p, fn, spec[1])
			}
			if m.Name() == "Union" {
				checkUnionGuard(c, p, fn, spec[1])
			}
		}
	}
	c.R.RequireMin("R20.1", "non-mutating set methods analysed", nMethods, 16)
	checkSetDerivedStateAndHeapEquality(c, p)

	checkHeapAdapter(c, p)
}

// checkNoSelfMerge: R20.7. A loop that copies the elements of one set into another (`for e := range x.set { y.set[e] = ... }`)
// has two different sets on every path: when y can be x (a variable that was assigned either of two sets), the merge is a
// no-op on that path and the elements of the set that should have been merged are lost.
func checkNoSelfMerge(c *Ctx, p *core.Prog, fn *ssa.Function, typ string) {
	// the objects a map value can belong to: the bases of `base.set` loads, through phis
	var bases func(v ssa.Value, seen map[ssa.Value]bool, out map[ssa.Value]bool)
	bases = func(v ssa.Value, seen map[ssa.Value]bool, out map[ssa.Value]bool) {
		if seen[v] {
			return
		}
		seen[v] = true
		switch x := v.(type) {
		case *ssa.Phi:
			for _, e := range x.Edges {
				bases(e, seen, out)
			}
		case *ssa.UnOp:
			if fa, ok := x.X.(*ssa.FieldAddr); ok && x.Op == token.MUL {
				bases(fa.X, seen, out)
				return
			}
			out[v] = true
		default:
			out[v] = true
		}
	}
	n := 0
	for _, b := range fn.Blocks {
		for _, in := range b.Instrs {
			mu, ok := in.(*ssa.MapUpdate)
			if !ok {
				continue
			}
			ex, ok := mu.Key.(*ssa.Extract)
			if !ok || ex.Index != 1 {
				continue
			}
			nx, ok := ex.Tuple.(*ssa.Next)
			if !ok {
				continue
			}
			rg, ok := nx.Iter.(*ssa.Range)
			if !ok {
				continue
			}
			if _, isMap := rg.X.Type().Underlying().(*types.Map); !isMap {
				continue
			}
			n++
			src, dst := map[ssa.Value]bool{}, map[ssa.Value]bool{}
			bases(rg.X, map[ssa.Value]bool{}, src)
			bases(mu.Map, map[ssa.Value]bool{}, dst)
			same := false
			for v := range src {
				if dst[v] {
					same = true
				}
			}
			c.R.Check(!same, "R20.7", typ+"."+fn.Name()+": the set whose elements are copied and the set they are copied into are different on every path", p.Pos(mu.Pos()),
				"source and destination of the merge loop never are the same object", "on some path the loop copies a set into itself: the elements of the set that was meant to be merged are lost (the result depends on which of the two sets is larger)")
		}
	}
	c.R.Count("R20.7:merge loops", n)
}

// checkComparators: R20.8. An ordering function handed to sort compares the two elements directly: a comparison of their
// difference with zero (a-b < 0) overflows for elements far apart and orders them the wrong way round.
func checkComparators(c *Ctx, p *core.Prog, fn *ssa.Function, typ string) {
	for _, f := range core.WithAnon(fn) {
		if f == fn || f.Signature.Results().Len() != 1 || !isBool(f.Signature.Results().At(0).Type()) {
			continue
		}
		for _, b := range f.Blocks {
			for _, in := range b.Instrs {
				bo, ok := in.(*ssa.BinOp)
				if !ok {
					continue
				}
				switch bo.Op {
				case token.LSS, token.GTR, token.LEQ, token.GEQ:
				default:
					continue
				}
				for _, side := range []ssa.Value{bo.X, bo.Y} {
					if cl, isCall := side.(*ssa.Call); isCall {
						if _, isB := cl.Call.Value.(*ssa.Builtin); !isB {
							c.R.Fail("R20.8", typ+"."+fn.Name()+": elements are ordered by comparing them, not a value computed from them", p.Pos(bo.Pos()),
								"the ordering function compares the results of "+eng.Describe(cl)+" instead of the elements: two different elements that the function maps to the same value are in no defined order, and the result is not sorted in the element order callers rely on (sort.SearchStrings, comparison of two Sorted lists)")
						}
					}
					if d, isD := side.(*ssa.BinOp); isD && d.Op == token.SUB {
						if bt, isB := d.Type().Underlying().(*types.Basic); isB && bt.Info()&types.IsInteger != 0 {
							c.R.Fail("R20.8", typ+"."+fn.Name()+": elements are ordered by comparing them, not their difference", p.Pos(bo.Pos()),
								"the ordering function compares a difference of two elements with a constant: the subtraction overflows for elements more than 2^63-1 apart and the order (and with it Sorted) is wrong")
						}
					}
				}
			}
		}
	}
}

func checkSetMethod(c *Ctx, p *core.Prog, fn *ssa.Function, typ string) {
	checkNoSelfMerge(c, p, fn, typ)
	checkComparators(c, p, fn, typ)
	scope := []string{core.RootMod}
	e := eng.NewExplorer(p, scope...)
	ps := make([]eng.Prov, len(fn.Params))
	for i, prm := range fn.Params {
		if eng.PointerLike(prm.Type()) {
			ps[i] = eng.Shared
		}
	}
	ret := e.Run(fn, ps)
	name := typ + "." + fn.Name()
	pos := p.Pos(fn.Pos())
	if len(e.Viol) == 0 && len(e.Undecided) == 0 {
		c.R.OK("R20.1", name+" writes neither its receiver nor its argument", pos, fmt.Sprintf("%d functions explored, no store/map update/delete on memory shared with the caller", len(e.Explored())))
	}
	for _, v := range e.Viol {
		c.R.Fail("R20.1", name+" modifies an operand: "+v.Construct, p.Pos(v.Pos), v.Detail+" [target provenance "+v.Prov.String()+"]: a non-mutating set operation writes memory that belongs to the caller")
	}
	for _, v := range e.Undecided {
		c.R.Undecided("R20.1", name+": "+v.Construct, p.Pos(v.Pos), v.Detail)
	}
	// results
	for i, rp := range ret {
		rt := fn.Signature.Results().At(i).Type()
		if !eng.PointerLike(rt) {
			continue
		}
		if _, isFunc := rt.Underlying().(*types.Signature); isFunc {
			continue
		}
		key := fmt.Sprintf("%s: result %d is allocated by the call", name, i)
		if rp&^eng.Fresh != 0 {
			c.R.Fail("R20.1", key, pos, "result provenance "+rp.String()+": the value returned may be (or alias) an operand, so mutating the result changes the operand")
			continue
		}
		// the backing map of a returned set
		aliased := eng.Prov(0)
		if ptr, ok := rt.(*types.Pointer); ok {
			if st, ok := ptr.Elem().Underlying().(*types.Struct); ok {
				for f := 0; f < st.NumFields(); f++ {
					if eng.PointerLike(st.Field(f).Type()) {
						aliased |= e.HeapOf(fmt.Sprintf("%s.#%d", types.TypeString(ptr.Elem(), nil), f)) &^ eng.Fresh
					}
				}
			}
		}
		if aliased != 0 {
			c.R.Fail("R20.1", key, pos, "a field of the returned set has provenance "+aliased.String()+": the result shares its backing store with an operand")
			continue
		}
		c.R.OK("R20.1", key, pos, "provenance Fresh (and every pointer field stored into it is Fresh)")
	}
}

func checkHeapAdapter(c *Ctx, p *core.Prog) {
	pq := core.RootMod + "/stringclassifier/internal/pq"
	// roles: Queue's heap is its only struct-typed field; the heap's slice, index callback and comparator are
	// its only slice field, its only func(_, int) field and its only func(_, _) bool field
	qT := p.Named(pq, "Queue")
	if !c.R.Anchor(qT != nil, "pq.Queue") {
		return
	}
	var heapT *types.Named
	heapField := ""
	for i := 0; i < core.StructOf(qT).NumFields(); i++ {
		if n, ok := core.StructOf(qT).Field(i).Type().(*types.Named); ok {
			if _, isStruct := n.Underlying().(*types.Struct); isStruct {
				heapT, heapField = n, core.StructOf(qT).Field(i).Name()
			}
		}
	}
	// by behaviour: the named type of the package that container/heap works on (its pointer has Push, Pop and Swap) - the
	// heap may also be the queue's own struct under another name (type heapAdapter Queue)
	if sc := qT.Obj().Pkg().Scope(); sc != nil {
		var byMethods *types.Named
		for _, name := range sc.Names() {
			tn, ok := sc.Lookup(name).(*types.TypeName)
			if !ok {
				continue
			}
			n, ok := tn.Type().(*types.Named)
			if !ok || core.StructOf(n) == nil {
				continue
			}
			ms := p.SSA.MethodSets.MethodSet(types.NewPointer(n))
			has := func(m string) bool { return ms.Lookup(n.Obj().Pkg(), m) != nil || ms.Lookup(nil, m) != nil }
			if has("Push") && has("Pop") && has("Swap") && has("Less") && has("Len") {
				byMethods = n
			}
		}
		if byMethods != nil {
			heapT = byMethods
		}
	}
	if !c.R.Anchor(heapT != nil, "pq.Queue: heap field") {
		return
	}
	itemsField, ok1 := core.UniqueField(heapT, func(t types.Type) bool { _, isSl := t.Underlying().(*types.Slice); return isSl })
	setIndexField, ok2 := core.UniqueField(heapT, func(t types.Type) bool {
		sg, isF := t.Underlying().(*types.Signature)
		return isF && sg.Params().Len() == 2 && sg.Results().Len() == 0
	})
	if !c.R.Anchor(ok1 && ok2, "pq heap: one slice field and one index-callback field") {
		return
	}
	lookup := func(recv types.Type, name string) *ssa.Function {
		sel := p.SSA.MethodSets.MethodSet(recv).Lookup(heapT.Obj().Pkg(), name)
		if sel == nil {
			return nil
		}
		if m, ok := sel.Obj().(*types.Func); ok {
			return p.SSA.FuncValue(m)
		}
		return nil
	}
	swap := lookup(types.NewPointer(heapT), "Swap")
	push := lookup(types.NewPointer(heapT), "Push")
	if !c.R.Anchor(swap != nil && len(swap.Blocks) > 0, "pq heap Swap") || !c.R.Anchor(push != nil && len(push.Blocks) > 0, "pq heap Push") {
		return
	}
	// R20.5: container/heap's contract - Push grows the array by exactly the pushed element, Pop shrinks it by exactly one
	// (the element it returns), Swap and Less leave its length alone. Decided by a length algebra along every path.
	checkHeapLengths(c, p, heapT, itemsField, push, lookup(types.NewPointer(heapT), "Pop"), swap)

	// every dynamic call of the setIndex field, directly or through a helper that only forwards its
	// (value, index) parameters to the callback under the nil guard
	type sic struct {
		at       *ssa.Call
		val, idx ssa.Value
		guarded  bool
		cellOf   ssa.Value // when the helper itself reads items[idx]: the index argument whose cell is reported
	}
	var guarded func(call *ssa.Call) bool
	var setIndexCalls func(fn *ssa.Function, depth int) []sic
	setIndexCalls = func(fn *ssa.Function, depth int) []sic {
		var out []sic
		for _, b := range fn.Blocks {
			for _, in := range b.Instrs {
				call, ok := in.(*ssa.Call)
				if !ok || call.Call.IsInvoke() {
					continue
				}
				if call.Call.StaticCallee() == nil {
					if strings.HasSuffix(core.AP(call.Call.Value), "."+setIndexField) && len(call.Call.Args) == 2 {
						out = append(out, sic{at: call, val: call.Call.Args[0], idx: call.Call.Args[1], guarded: guarded(call)})
					}
					continue
				}
				h := call.Call.StaticCallee()
				if depth > 0 || core.FuncPkgPath(h) != pq || len(h.Blocks) == 0 || h == fn {
					continue
				}
				for _, inner := range setIndexCalls(h, depth+1) {
					// map the helper's parameters back to this call's arguments
					var v, ix ssa.Value
					for i, prm := range h.Params {
						if i < len(call.Call.Args) {
							if inner.val == ssa.Value(prm) {
								v = call.Call.Args[i]
							}
							if inner.idx == ssa.Value(prm) {
								ix = call.Call.Args[i]
							}
						}
					}
					if v != nil && ix != nil {
						out = append(out, sic{at: call, val: v, idx: ix, guarded: inner.guarded || guarded(call)})
					} else if ix != nil {
						// the helper reads the element itself: value = items[its index parameter]
						if ld, ok := inner.val.(*ssa.UnOp); ok {
							if ia, ok := ld.X.(*ssa.IndexAddr); ok && strings.HasSuffix(core.AP(ia.X), "."+itemsField) && ia.Index == inner.idx {
								out = append(out, sic{at: call, idx: ix, cellOf: ix, guarded: inner.guarded || guarded(call)})
							}
						}
					}
				}
			}
		}
		return out
	}
	guarded = func(call *ssa.Call) bool {
		for _, f := range core.FactsAtInstr(call) {
			if cmp, ok := f.AsCmp(); ok && cmp.Op == token.NEQ && strings.HasSuffix(core.AP(cmp.X), "."+setIndexField) {
				if cst, ok := cmp.Y.(*ssa.Const); ok && cst.Value == nil {
					return true
				}
			}
		}
		return false
	}
	// Swap
	calls := setIndexCalls(swap, 0)
	reported := map[string]bool{}
	okSwap := len(calls) > 0
	why := ""
	// the two stores
	nStores := 0
	var lastStore ssa.Instruction
	for _, b := range swap.Blocks {
		for _, in := range b.Instrs {
			if st, ok := in.(*ssa.Store); ok {
				if ia, ok := st.Addr.(*ssa.IndexAddr); ok && strings.HasSuffix(core.AP(ia.X), "."+itemsField) {
					nStores++
					lastStore = st
				}
			}
		}
	}
	for _, sc := range calls {
		if !sc.guarded {
			okSwap, why = false, "setIndex is called without the nil guard"
		}
		// first arg: load of a[k] made after the stores; second arg: k
		k := sc.idx
		v := sc.val
		if sc.cellOf != nil {
			// the helper re-reads the cell with the reported index; it must be called after the exchange
			if lastStore != nil && !instrBeforeI(lastStore, sc.at) {
				okSwap, why = false, "the element is read before the swap is complete"
			}
			reported[core.AP(k)] = true
			continue
		}
		ld, isLd := v.(*ssa.UnOp)
		if !isLd {
			okSwap, why = false, "the value reported is not read back from the heap slice"
			continue
		}
		ia, isIA := ld.X.(*ssa.IndexAddr)
		if !isIA || !strings.HasSuffix(core.AP(ia.X), "."+itemsField) || ia.Index != k {
			okSwap, why = false, "setIndex(v, k) is called with a value that is not the element now stored in cell k"
			continue
		}
		if lastStore != nil && !instrBeforeI(lastStore, ld) {
			okSwap, why = false, "the element is read before the swap is complete"
		}
		reported[core.AP(k)] = true
	}
	if okSwap && (nStores != 2 || len(reported) != 2 || !reported["i"] || !reported["j"]) {
		okSwap, why = false, fmt.Sprintf("Swap must report both cells i and j after exchanging them (stores: %d, cells reported: %v)", nStores, keysOf(reported))
	}
	c.R.Check(okSwap, "R20.2", "pqHeap.Swap reports, for both swapped cells, the value now stored there with that cell's index", p.Pos(swap.Pos()),
		"setIndex(a[i], i) and setIndex(a[j], j) after the exchange, under the nil guard", why)
	// R20.13: container/heap calls Swap(i, j) to move elements and relies on the exchange having happened: the two stores and
	// the two reports are reached whatever the elements are - the only tests that may stand in front of them are the nil
	// guard of the callback and a comparison of the two indices with each other (swapping a cell with itself is a no-op)
	{
		cd := core.NewPostDom(swap).TransitiveControlDeps()
		isParam := func(v ssa.Value) bool { _, ok := core.Unspill(v).(*ssa.Parameter); return ok }
		bad := ""
		nSites := 0
		site := func(in ssa.Instruction, what string) {
			nSites++
			for d := range cd[in.Block()] {
				ifi, isIf := d.Instrs[len(d.Instrs)-1].(*ssa.If)
				if !isIf {
					continue
				}
				ok := false
				if bo, isBo := ifi.Cond.(*ssa.BinOp); isBo && (bo.Op == token.EQL || bo.Op == token.NEQ) {
					if cst, isC := bo.Y.(*ssa.Const); isC && cst.Value == nil && strings.HasSuffix(core.AP(bo.X), "."+setIndexField) {
						ok = true
					}
					if isParam(bo.X) && isParam(bo.Y) {
						ok = true
					}
				}
				if !ok && bad == "" {
					bad = what + " at " + p.Pos(in.Pos()) + " is reached only when the test at " + p.Pos(ifi.Cond.Pos()) + " goes one way (" + eng.Describe(ifi.Cond) + ")"
				}
			}
		}
		for _, b := range swap.Blocks {
			for _, in := range b.Instrs {
				if st, ok := in.(*ssa.Store); ok {
					if ia, ok := st.Addr.(*ssa.IndexAddr); ok && strings.HasSuffix(core.AP(ia.X), "."+itemsField) {
						site(st, "the store into the array")
					}
				}
			}
		}
		for _, sc := range calls {
			site(sc.at, "the index report")
		}
		c.R.Check(bad == "" && nSites > 0, "R20.13", "pqHeap.Swap exchanges the two cells and reports both indices whatever the elements are", p.Pos(swap.Pos()),
			fmt.Sprintf("%d stores/reports: in front of them only the callback's nil guard and comparisons of the two indices", nSites),
			bad+": container/heap moves the element to remove into the last cell with Swap and then drops that cell - when the exchange is skipped (say for elements of equal priority) another element is dropped instead, and the indices reported go stale")
	}
	// Push
	calls = setIndexCalls(push, 0)
	okPush := len(calls) == 1
	why = "Push must report the new element exactly once"
	for _, sc := range calls {
		okPush = sc.guarded
		if !okPush {
			why = "setIndex is called without the nil guard"
			break
		}
		// ... and under the nil guard only: every pushed element is told its index, whatever the size of the heap (the element
		// need not move when it is sifted up, and then nobody else tells it)
		for d := range core.NewPostDom(push).TransitiveControlDeps()[sc.at.Block()] {
			ifi, isIf := d.Instrs[len(d.Instrs)-1].(*ssa.If)
			if !isIf {
				continue
			}
			nilTest := false
			if bo, isBo := ifi.Cond.(*ssa.BinOp); isBo && (bo.Op == token.NEQ || bo.Op == token.EQL) {
				for _, o := range []ssa.Value{bo.X, bo.Y} {
					if cst, isC := o.(*ssa.Const); isC && cst.IsNil() {
						nilTest = true
					}
				}
			}
			if !nilTest {
				okPush, why = false, "whether the new element is told its index also depends on a condition other than the nil guard of the callback ("+p.Pos(ifi.Cond.Pos())+"): an element that does not move when it is sifted up never learns its index, and Fix/Remove through that index hit another element"
			}
		}
		if !okPush {
			break
		}
		// arg0 = x (param), arg1 = len(h.a) before the append
		if sc.val != ssa.Value(push.Params[1]) {
			okPush, why = false, "the value reported is not the pushed element"
			break
		}
		ln, isCall := sc.idx.(*ssa.Call)
		if !isCall || core.AP(ln) == "" || !strings.HasPrefix(core.AP(ln), "len(") || !strings.HasSuffix(core.AP(ln), "."+itemsField+")") {
			okPush, why = false, "the index reported is not len(h.a) taken before the append"
			break
		}
		// the append must come after the len
		for _, b := range push.Blocks {
			for _, in := range b.Instrs {
				if ap, ok := in.(*ssa.Call); ok {
					if bi, ok := ap.Call.Value.(*ssa.Builtin); ok && bi.Name() == "append" {
						if instrBeforeI(ap, ln) || reachesForward(ap.Block(), ln.Block()) && ap.Block() != ln.Block() {
							okPush, why = false, "the length is read after the element was appended"
						}
						if el := singleVarargElem(ap.Call.Args[1]); el != push.Params[1] {
							okPush, why = false, "the element appended is not the pushed element"
						}
					}
				}
			}
		}
	}
	c.R.Check(okPush, "R20.2", "pqHeap.Push reports the pushed element with the index of the cell it is appended to", p.Pos(push.Pos()),
		"setIndex(x, len(h.a)) before append(h.a, x), under the nil guard", why)

	// R20.14: an element that leaves the queue is told so. container/heap moves the element to pop or remove into the last cell
	// with Swap - which reports that cell's index to it - and then calls Pop to cut the cell off: Pop reports a negative index
	// to the element it returns (under the nil guard), as the example in the container/heap documentation does. Otherwise the
	// last thing the element heard is the index of a cell that the next Push hands to another element, and Fix/Remove through
	// that index hit the wrong element.
	if pop := lookup(types.NewPointer(heapT), "Pop"); pop != nil && len(pop.Blocks) > 0 {
		calls = setIndexCalls(pop, 0)
		okPop, whyPop := false, "Pop never calls the index callback: the element that leaves keeps the index of the last cell"
		for _, sc := range calls {
			k, isK := core.ConstInt(sc.idx)
			switch {
			case !sc.guarded:
				okPop, whyPop = false, "setIndex is called without the nil guard"
			case !isK || k >= 0:
				whyPop = "the index reported by Pop is not a negative constant"
			default:
				// the value is the element that is returned
				ret := false
				for _, b := range pop.Blocks {
					if r, isRet := b.Instrs[len(b.Instrs)-1].(*ssa.Return); isRet && len(r.Results) == 1 && core.Unspill(r.Results[0]) == core.Unspill(sc.val) {
						ret = true
					}
				}
				if ret {
					okPop, whyPop = true, "setIndex(x, -1) for the element that is returned, under the nil guard"
				} else {
					whyPop = "the element told a negative index is not the one Pop returns"
				}
			}
		}
		c.R.Check(okPop, "R20.14", "pqHeap.Pop tells the element that leaves the queue that it is no longer queued", p.Pos(pop.Pos()), whyPop,
			whyPop+": after Push a, Push b, Pop (a), Push c the element a was last told index 1, which is c's cell - Remove(a.index) removes c")
	}

	// R20.3 delegation
	for name, target := range map[string]string{"Push": "container/heap.Push", "Pop": "container/heap.Pop", "Fix": "container/heap.Fix", "Remove": "container/heap.Remove"} {
		fn := p.Func(pq, "(*Queue)."+name)
		if !c.R.Anchor(fn != nil, "pq.(*Queue)."+name) {
			continue
		}
		ok, why := false, "no call of "+target
		for _, call := range core.CallsIn(fn) {
			if core.StaticCalleeName(call.Common()) != target {
				continue
			}
			ok, why = true, "every path calls "+target+"(&pq.heap, <arguments unchanged>)"
			// must-pass-through: the call's block dominates every return
			for _, b := range fn.Blocks {
				if _, isRet := b.Instrs[len(b.Instrs)-1].(*ssa.Return); isRet && !call.Block().Dominates(b) {
					ok, why = false, "a path returns without calling "+target+": the operation is silently skipped for some arguments"
				}
			}
			// heap argument is &pq.heap; remaining arguments are the parameters in order
			args := call.Common().Args
			if mi, isMI := args[0].(*ssa.MakeInterface); !isMI || !ownHeap(mi.X, fn.Params[0], heapField, 0) {
				ok, why = false, "the heap passed is not the queue's own heap"
			}
			for i := 1; i < len(args); i++ {
				a := args[i]
				if mi, isMI := a.(*ssa.MakeInterface); isMI {
					a = mi.X
				}
				if i >= len(fn.Params) || a != fn.Params[i] {
					ok, why = false, fmt.Sprintf("argument %d of %s is not the caller's argument", i, target)
				}
			}
		}
		c.R.Check(ok, "R20.3", "Queue."+name+" delegates to "+target+" on every path", p.Pos(fn.Pos()), why, why)
	}
}

// checkSetEqual: R20.4. Equality of two sets needs both inclusions. A single containment loop (every element
// of one operand is in the other) decides equality only where the two backing maps are known to have the same
// number of elements; otherwise the method must test containment in both directions.
func checkSetEqual(c *Ctx, p *core.Prog, fn *ssa.Function, typ string) {
	key := typ + ".Equal returns true only when both inclusions hold"
	// maps ranged over
	ranged := map[string]bool{}
	for _, b := range fn.Blocks {
		for _, in := range b.Instrs {
			if r, ok := in.(*ssa.Range); ok {
				if _, isMap := r.X.Type().Underlying().(*types.Map); isMap {
					ranged[core.AP(r.X)] = true
				}
			}
		}
	}
	lenOfMap := func(v ssa.Value) (string, bool) {
		call, ok := v.(*ssa.Call)
		if !ok {
			return "", false
		}
		bi, ok := call.Call.Value.(*ssa.Builtin)
		if !ok || bi.Name() != "len" {
			return "", false
		}
		if _, isMap := call.Call.Args[0].Type().Underlying().(*types.Map); !isMap {
			return "", false
		}
		return core.AP(call.Call.Args[0]), true
	}
	sameLen := func(b *ssa.BasicBlock) bool {
		for _, f := range core.FactsAt(b) {
			cmp, ok := f.AsCmp()
			if !ok || cmp.Op != token.EQL {
				continue
			}
			x, ok1 := lenOfMap(cmp.X)
			y, ok2 := lenOfMap(cmp.Y)
			if ok1 && ok2 && x != y {
				return true
			}
		}
		return false
	}
	n := 0
	bad := ""
	for _, b := range fn.Blocks {
		ret, ok := b.Instrs[len(b.Instrs)-1].(*ssa.Return)
		if !ok || len(ret.Results) != 1 {
			continue
		}
		// blocks from which the constant true is returned
		var from []*ssa.BasicBlock
		switch x := ret.Results[0].(type) {
		case *ssa.Const:
			if x.Value != nil && x.Value.Kind() == constant.Bool && constant.BoolVal(x.Value) {
				from = append(from, b)
			}
		case *ssa.Phi:
			for i, e := range x.Edges {
				if k, ok := e.(*ssa.Const); ok && k.Value != nil && k.Value.Kind() == constant.Bool && constant.BoolVal(k.Value) {
					from = append(from, x.Block().Preds[i])
				}
			}
		}
		for _, fb := range from {
			n++
			if len(ranged) == 0 {
				continue // no containment loop on this shape (e.g. both operands nil): not this rule's business
			}
			if !sameLen(fb) && len(ranged) < 2 {
				bad = "true is returned after a single containment loop over " + strings.Join(keysOf(ranged), ",") + " without the two maps being known to have the same size: a proper subset compares equal to its superset"
			}
		}
	}
	checkSetPredicateLeaves(c, p, fn, typ)
	if n == 0 {
		// the result is a computed value; nothing to decide structurally
		c.R.Info("R20.4", key, p.Pos(fn.Pos()), "no constant true result")
		return
	}
	c.R.Check(bad == "", "R20.4", key, p.Pos(fn.Pos()), fmt.Sprintf("%d true return(s): sizes compared equal before the containment loop, or containment tested in both directions", n), bad)
}

// checkHeapLengths: R20.5. Along every path from the entry of the method to a return, the length of the slice that the
// items field holds at the return is the length at entry plus delta (Push +1, Pop -1, Swap 0). Lengths are evaluated as
// linear forms: len(field at entry) = n, x[a:b] -> b-a, append(x, e1..ek) -> len(x)+k, append(x, y...) -> len(x)+len(y),
// make([]T, k) -> k. A path on which the length is not such a form is undecided.
func checkHeapLengths(c *Ctx, p *core.Prog, heapT *types.Named, itemsField string, push, pop, swap *ssa.Function) {
	if !c.R.Anchor(pop != nil && len(pop.Blocks) > 0, "pq heap Pop") {
		return
	}
	type job struct {
		fn    *ssa.Function
		delta int64
		what  string
	}
	nPaths := 0
	for _, j := range []job{{push, 1, "Push grows the array by exactly one element"}, {pop, -1, "Pop shrinks the array by exactly one element"}, {swap, 0, "Swap leaves the length of the array alone"}} {
		fn := j.fn
		isItems := func(addr ssa.Value) bool {
			fa, ok := addr.(*ssa.FieldAddr)
			return ok && core.FieldName(fa) == itemsField && core.StructOf(fa.X.Type()) == core.StructOf(heapT)
		}
		bad := ""
		for _, rb := range fn.Blocks {
			if _, isRet := rb.Instrs[len(rb.Instrs)-1].(*ssa.Return); !isRet {
				continue
			}
			paths, ok := eng.EnumPaths(fn.Blocks[0], rb, nil, 256)
			if !ok {
				bad = "too many paths"
				break
			}
			for _, path := range paths {
				nPaths++
				n := core.Lin{Coef: map[string]int64{"n": 1}}
				cur, curOK := n, true
				lens := map[ssa.Value]core.Lin{} // slice value -> its length
				ints := map[ssa.Value]core.Lin{} // integer value -> linear form
				var intOf func(v ssa.Value) (core.Lin, bool)
				var lenOf func(v ssa.Value) (core.Lin, bool)
				intOf = func(v ssa.Value) (core.Lin, bool) {
					if l, ok := ints[v]; ok {
						return l, true
					}
					switch x := v.(type) {
					case *ssa.Const:
						if k, ok := core.ConstInt(x); ok {
							return core.Lin{Coef: map[string]int64{}, Const: k}, true
						}
					case *ssa.BinOp:
						a, ok1 := intOf(x.X)
						b, ok2 := intOf(x.Y)
						if ok1 && ok2 && x.Op == token.ADD {
							return a.Add(b, 1), true
						}
						if ok1 && ok2 && x.Op == token.SUB {
							return a.Add(b, -1), true
						}
					}
					return core.Lin{}, false
				}
				lenOf = func(v ssa.Value) (core.Lin, bool) {
					if l, ok := lens[v]; ok {
						return l, true
					}
					return core.Lin{}, false
				}
				var prev *ssa.BasicBlock
				for _, b := range path.Blocks {
					for _, in := range b.Instrs {
						switch x := in.(type) {
						case *ssa.Phi:
							for k, pr := range b.Preds {
								if pr != prev {
									continue
								}
								if l, ok := lenOf(x.Edges[k]); ok {
									lens[x] = l
								}
								if l, ok := intOf(x.Edges[k]); ok {
									ints[x] = l
								}
							}
						case *ssa.UnOp:
							if x.Op == token.MUL && isItems(x.X) && curOK {
								lens[x] = cur
							}
						case *ssa.Store:
							if isItems(x.Addr) {
								cur, curOK = lenOf(x.Val)
							}
						case *ssa.Slice:
							base, ok := lenOf(x.X)
							if !ok {
								continue
							}
							lo := core.Lin{Coef: map[string]int64{}}
							hi := base
							okB := true
							if x.Low != nil {
								lo, okB = intOf(x.Low)
							}
							if x.High != nil && okB {
								hi, okB = intOf(x.High)
							}
							if okB {
								lens[x] = hi.Add(lo, -1)
							}
						case *ssa.MakeSlice:
							if l, ok := intOf(x.Len); ok {
								lens[x] = l
							}
						case *ssa.Call:
							bi, isB := x.Call.Value.(*ssa.Builtin)
							if !isB {
								continue
							}
							switch bi.Name() {
							case "len":
								if l, ok := lenOf(x.Call.Args[0]); ok {
									ints[x] = l
								}
							case "append":
								base, ok := lenOf(x.Call.Args[0])
								if !ok || len(x.Call.Args) != 2 {
									continue
								}
								if els := varargElems(x.Call.Args[1]); els != nil {
									lens[x] = base.Add(core.Lin{Coef: map[string]int64{}, Const: int64(len(els))}, 1)
								} else if add, ok := lenOf(x.Call.Args[1]); ok {
									lens[x] = base.Add(add, 1)
								}
							}
						}
					}
					prev = b
				}
				want := n.Add(core.Lin{Coef: map[string]int64{}, Const: j.delta}, 1)
				switch {
				case !curOK:
					bad = "on a path the length of the array stored last is not a linear form of the length at entry"
				case !cur.Equal(want):
					bad = fmt.Sprintf("on a path the array has length %s at the return (n = length at entry), expected %s", cur.String(), want.String())
				}
			}
		}
		c.R.Check(bad == "", "R20.5", "pqHeap: "+j.what+" on every path", p.Pos(fn.Pos()), "length algebra over every entry-to-return path", bad+": container/heap moves the element to remove to the last cell and expects Pop to drop exactly that cell (Push: to add exactly the new one); otherwise an element is handed out and stays queued, or is lost")
	}
	c.R.RequireMin("R20.5", "entry-to-return paths of Push/Pop/Swap evaluated", nPaths, 3)
}

// checkUniformMutator: R20.10. Insert and Delete treat every element alike: in the loop over the elements given, what is
// done with an element (the map update, the delete, a call that is handed the element) does not stand behind a test inside
// the loop - a set that refuses some value (the empty string, zero, a negative number) is not a set over its element type.
func checkUniformMutator(c *Ctx, p *core.Prog, fn *ssa.Function, va *ssa.Parameter, name string) {
	cdeps := core.NewPostDom(fn).TransitiveControlDeps()
	for _, rl := range rangeLoopsOf(fn) {
		if core.Unspill(rl.over) != ssa.Value(va) {
			continue
		}
		loop := naturalLoop(rl.header)
		nAct, nUncond := 0, 0
		where := ""
		for _, b := range fn.Blocks {
			if !loop[b] {
				continue
			}
			for _, in := range b.Instrs {
				act := false
				switch x := in.(type) {
				case *ssa.MapUpdate:
					act = true
				case *ssa.Call:
					if bi, ok := x.Call.Value.(*ssa.Builtin); ok && bi.Name() == "delete" {
						act = true
					} else if cal := x.Call.StaticCallee(); cal != nil && core.InRepo(cal) {
						act = true
					}
				}
				if !act {
					continue
				}
				nAct++
				cond := false
				for d := range cdeps[b] {
					if loop[d] && d != rl.header {
						cond = true
					}
				}
				if cond {
					where = p.Pos(in.Pos())
				} else {
					nUncond++
				}
			}
		}
		if nAct == 0 {
			c.R.Undecided("R20.10", name+": what the loop does with an element", p.Pos(fn.Pos()), "no map update, delete or call found in the loop over the elements")
			continue
		}
		c.R.Check(nUncond == nAct, "R20.10", name+": every element given is treated alike", p.Pos(fn.Pos()),
			fmt.Sprintf("%d action(s) in the loop over the elements, none behind a test", nAct),
			"the action at "+where+" stands behind a test inside the loop over the elements: some values are not inserted / deleted, so the set is not a set over its whole element type")
	}
}

// checkUnionGuard: R20.11. The union holds the argument's elements whatever the receiver holds: the loop that copies the
// argument's elements runs unless a test on the argument alone (nil, empty) says there is nothing to copy. A test that
// involves the receiver (or the copy made of it) in front of that loop drops the argument's elements for some receivers.
func checkUnionGuard(c *Ctx, p *core.Prog, fn *ssa.Function, typ string) {
	if len(fn.Params) < 2 {
		return
	}
	recv := ssa.Value(fn.Params[0])
	var dep func(v ssa.Value, seen map[ssa.Value]bool) bool
	dep = func(v ssa.Value, seen map[ssa.Value]bool) bool {
		if v == recv {
			return true
		}
		if seen[v] {
			return false
		}
		seen[v] = true
		in, ok := v.(ssa.Instruction)
		if !ok {
			return false
		}
		for _, op := range in.Operands(nil) {
			if *op != nil && dep(*op, seen) {
				return true
			}
		}
		return false
	}
	cdeps := core.NewPostDom(fn).TransitiveControlDeps()
	n := 0
	// the places where the argument's elements are merged: a loop over the argument's map, or a call of a repository
	// function that is handed the argument's map
	var sites []*ssa.BasicBlock
	for _, rl := range rangeLoopsOf(fn) {
		if _, isMap := rl.over.Type().Underlying().(*types.Map); !isMap {
			continue
		}
		if dep(rl.over, map[ssa.Value]bool{}) {
			continue // a loop over the receiver's own elements
		}
		sites = append(sites, rl.header)
	}
	for _, call := range core.CallsIn(fn) {
		cal := call.Common().StaticCallee()
		if cal == nil || !core.InRepo(cal) {
			continue
		}
		for _, a := range call.Common().Args {
			if _, isMap := a.Type().Underlying().(*types.Map); isMap && !dep(a, map[ssa.Value]bool{}) {
				sites = append(sites, call.Block())
				break
			}
		}
	}
	for _, site := range sites {
		rl := struct{ header *ssa.BasicBlock }{site}
		n++
		bad := ""
		for d := range cdeps[rl.header] {
			if d == rl.header || len(d.Instrs) == 0 {
				continue
			}
			if ifi, ok := d.Instrs[len(d.Instrs)-1].(*ssa.If); ok && dep(ifi.Cond, map[ssa.Value]bool{}) {
				bad = p.Pos(ifi.Cond.Pos())
				if bad == "-" {
					bad = p.Pos(d.Instrs[0].Pos())
				}
			}
		}
		c.R.Check(bad == "", "R20.11", typ+".Union: the argument's elements are copied whatever the receiver holds", p.Pos(fn.Pos()),
			"the loop over the argument's elements is guarded by tests on the argument only",
			"the loop that copies the argument's elements stands behind a test that involves the receiver (at "+bad+"): for some receivers the union lacks elements of the argument")
	}
	c.R.RequireMin("R20.11", typ+".Union: loops over the argument's elements", n, 1)
}

// ownHeap: v is the heap of the queue recv - the address of its heap field, the queue itself seen as its heap type
// (type heapAdapter Queue), or what a helper of the package makes of the queue in one of these ways.
func ownHeap(v ssa.Value, recv ssa.Value, heapField string, depth int) bool {
	switch x := v.(type) {
	case *ssa.FieldAddr:
		return heapField != "" && x.X == recv && core.FieldName(x) == heapField
	case *ssa.ChangeType:
		return x.X == recv
	case *ssa.Convert:
		return x.X == recv
	case *ssa.Call:
		g := x.Call.StaticCallee()
		if g == nil || depth > 1 || len(g.Blocks) == 0 || len(x.Call.Args) != 1 || x.Call.Args[0] != recv || len(g.Params) != 1 {
			return false
		}
		n := 0
		for _, b := range g.Blocks {
			if ret, ok := b.Instrs[len(b.Instrs)-1].(*ssa.Return); ok {
				n++
				if len(ret.Results) != 1 || !ownHeap(ret.Results[0], g.Params[0], heapField, depth+1) {
					return false
				}
			}
		}
		return n > 0
	}
	return heapField != "" && strings.HasSuffix(core.AP(v), "."+heapField)
}

// checkSetPredicateLeaves: R20.12. Two sets are equal when they have the same members: what Equal returns is computed from
// membership tests (map look-ups), sizes, constants and other predicates of the set type - not from a comparison of strings
// or other values built out of the elements (a rendering of a set such as its sorted elements joined with a separator is
// not injective: {"a,b","c"} and {"a","b,c"} render alike).
func checkSetPredicateLeaves(c *Ctx, p *core.Prog, fn *ssa.Function, typ string) {
	bad := ""
	seen := map[ssa.Value]bool{}
	var walk func(v ssa.Value)
	walk = func(v ssa.Value) {
		v = core.Unspill(v)
		if seen[v] || bad != "" {
			return
		}
		seen[v] = true
		switch x := v.(type) {
		case *ssa.Const:
		case *ssa.Phi:
			for _, e := range x.Edges {
				walk(e)
			}
		case *ssa.UnOp:
			if x.Op == token.NOT {
				walk(x.X)
			} else if x.Op == token.MUL {
				bad = "a value loaded from " + eng.Describe(x.X)
			}
		case *ssa.Extract:
			if lk, ok := x.Tuple.(*ssa.Lookup); !ok || !lk.CommaOk {
				bad = eng.Describe(x)
			}
		case *ssa.Lookup:
			// map[T]bool used as a set
		case *ssa.Call:
			if callee := x.Call.StaticCallee(); callee == nil || callee.Pkg != fn.Pkg || !types.Identical(callee.Signature.Results().At(0).Type(), types.Typ[types.Bool]) {
				bad = "the result of " + eng.Describe(x)
			}
		case *ssa.BinOp:
			switch x.Op {
			case token.LAND, token.LOR, token.AND, token.OR:
				walk(x.X)
				walk(x.Y)
			default:
				for _, o := range []ssa.Value{x.X, x.Y} {
					if bt, ok := o.Type().Underlying().(*types.Basic); !ok || bt.Info()&types.IsInteger == 0 {
						if _, isPtr := o.Type().Underlying().(*types.Pointer); isPtr {
							continue // s == other, x == nil
						}
						if _, isMap := o.Type().Underlying().(*types.Map); isMap {
							continue // s.set == nil
						}
						bad = "a comparison of " + o.Type().String() + " values (" + eng.Describe(x) + ")"
					}
				}
			}
		default:
			bad = eng.Describe(v)
		}
	}
	n := 0
	for _, b := range fn.Blocks {
		if ret, ok := b.Instrs[len(b.Instrs)-1].(*ssa.Return); ok && len(ret.Results) == 1 {
			n++
			walk(ret.Results[0])
		}
	}
	c.R.Check(bad == "" && n > 0, "R20.12", typ+".Equal decides by membership and size", p.Pos(fn.Pos()),
		fmt.Sprintf("%d return(s): constants, map look-ups, sizes, predicates of the package", n),
		"what Equal returns is computed from "+bad+", not from membership tests: a value built out of the elements (a joined or formatted rendering) does not tell apart sets whose elements contain the separator")
}

// checkReturnedSetUsable: R20.15. A set that an operation returns is a set like any other: its map is allocated, so that the
// caller can insert into it. A result built as a composite literal gets its map stored before every return (the store
// dominates the return), or the result comes from a constructor of the package.
func checkReturnedSetUsable(c *Ctx, p *core.Prog, fn *ssa.Function, typ string) {
	res := fn.Signature.Results()
	if res.Len() != 1 {
		return
	}
	pt, ok := res.At(0).Type().(*types.Pointer)
	if !ok {
		return
	}
	nm, ok := pt.Elem().(*types.Named)
	if !ok || nm.Obj().Name() != typ {
		return
	}
	st, _ := nm.Underlying().(*types.Struct)
	if st == nil {
		return
	}
	mapField := -1
	for i := 0; i < st.NumFields(); i++ {
		if _, isMap := st.Field(i).Type().Underlying().(*types.Map); isMap {
			mapField = i
		}
	}
	if mapField < 0 {
		return
	}
	bad := ""
	nR := 0
	for _, b := range fn.Blocks {
		ret, isRet := b.Instrs[len(b.Instrs)-1].(*ssa.Return)
		if !isRet {
			continue
		}
		var check func(v ssa.Value, d int)
		check = func(v ssa.Value, d int) {
			v = core.Unspill(v)
			switch x := v.(type) {
			case *ssa.Phi:
				if d < 3 {
					for _, e := range x.Edges {
						check(e, d+1)
					}
				}
			case *ssa.Alloc:
				nR++
				okStore := false
				for _, r := range *x.Referrers() {
					fa, isFA := r.(*ssa.FieldAddr)
					if !isFA || fa.Field != mapField {
						continue
					}
					for _, u := range *fa.Referrers() {
						if s2, isSt := u.(*ssa.Store); isSt && s2.Addr == ssa.Value(fa) {
							if k, isK := s2.Val.(*ssa.Const); isK && k.IsNil() {
								continue
							}
							if s2.Block() == b || s2.Block().Dominates(b) {
								okStore = true
							}
						}
					}
				}
				if !okStore && bad == "" {
					bad = "the " + typ + " literal at " + p.Pos(x.Pos()) + " reaches the return at " + p.Pos(ret.Pos()) + " on a path that stores no map into it"
				}
			}
		}
		if len(ret.Results) == 1 {
			check(ret.Results[0], 0)
		}
	}
	if nR == 0 {
		return
	}
	c.R.Check(bad == "", "R20.15", typ+"."+fn.Name()+": the set it returns has its map allocated", p.Pos(fn.Pos()), fmt.Sprintf("%d composite literal(s) returned, each with a map stored on every path", nR),
		bad+": the result is a set with a nil map - reading it works, the first Insert into it (or an operation that fills it, like Unique) panics with assignment to entry in nil map")
}

// checkOperandMapsChosen: R20.16. Where an operation picks "the smaller" and "the larger" of its two operands' maps, it picks
// for every pair of sizes: a map variable that is ranged over or looked up in is one of the operands' maps on every path - not
// the nil it was declared with (a switch without a branch for equal sizes leaves both variables nil: the loop does nothing
// and two sets of equal size are reported disjoint).
func checkOperandMapsChosen(c *Ctx, p *core.Prog, fn *ssa.Function, typ string) {
	bad := ""
	n := 0
	chk := func(v ssa.Value, pos token.Pos) {
		ph, ok := core.Unspill(v).(*ssa.Phi)
		if !ok {
			return
		}
		if _, isMap := ph.Type().Underlying().(*types.Map); !isMap {
			return
		}
		n++
		for _, e := range ph.Edges {
			if k, isK := e.(*ssa.Const); isK && k.IsNil() && bad == "" {
				bad = p.Pos(pos)
			}
		}
	}
	for _, b := range fn.Blocks {
		for _, in := range b.Instrs {
			switch x := in.(type) {
			case *ssa.Range:
				chk(x.X, x.Pos())
			case *ssa.Lookup:
				chk(x.X, x.Pos())
			}
		}
	}
	if n == 0 {
		return
	}
	c.R.Check(bad == "", "R20.16", typ+"."+fn.Name()+": the map that is walked or probed is an operand's map on every path", p.Pos(fn.Pos()), fmt.Sprintf("%d map variables chosen among the operands", n),
		"the map used at "+bad+" is nil on some path (no branch assigned it): for that combination of sizes the loop sees no element - two sets of equal size with a common element are reported disjoint")
}

// checkSetDerivedStateAndHeapEquality: R20.17, R20.18.
func checkSetDerivedStateAndHeapEquality(c *Ctx, p *core.Prog) {
	// R20.17: a set is its map. A set type that keeps anything besides the map (bounds, a cached list, a last hit) keeps it in
	// step wherever the map is written: a function of the package that adds to or deletes from the map of a set also assigns
	// every other field of that set. Copy, Union, Intersect and Difference fill the map of their result directly - state that
	// only Insert maintains is wrong for every derived set.
	for _, spec := range [][2]string{{core.RootMod + "/internal/sets", "StringSet"}, {scPkg + "/internal/sets", "IntSet"}} {
		nm := p.Named(spec[0], spec[1])
		if nm == nil {
			continue
		}
		st, _ := nm.Underlying().(*types.Struct)
		if st == nil {
			continue
		}
		var others []int
		mapField := -1
		for i := 0; i < st.NumFields(); i++ {
			if _, isMap := st.Field(i).Type().Underlying().(*types.Map); isMap && mapField < 0 {
				mapField = i
			} else {
				others = append(others, i)
			}
		}
		if mapField < 0 {
			continue
		}
		if len(others) == 0 {
			c.R.OK("R20.17", spec[1]+": the set is its map", spec[0], "the struct has no field besides the map")
			continue
		}
		bad := ""
		nW := 0
		for _, fn := range pkgFuncs(p, spec[0]) {
			// bases whose map is written
			written := map[ssa.Value]bool{}
			assigned := map[ssa.Value]map[int]bool{}
			for _, b := range fn.Blocks {
				for _, in := range b.Instrs {
					switch x := in.(type) {
					case *ssa.MapUpdate:
						if ld, ok := x.Map.(*ssa.UnOp); ok {
							if fa, ok := ld.X.(*ssa.FieldAddr); ok && fa.Field == mapField && core.StructOf(fa.X.Type()) == st {
								written[core.Unspill(fa.X)] = true
							}
						}
					case *ssa.Call:
						if bi, ok := x.Call.Value.(*ssa.Builtin); ok && bi.Name() == "delete" {
							if ld, ok := x.Call.Args[0].(*ssa.UnOp); ok {
								if fa, ok := ld.X.(*ssa.FieldAddr); ok && fa.Field == mapField && core.StructOf(fa.X.Type()) == st {
									written[core.Unspill(fa.X)] = true
								}
							}
						}
					case *ssa.Store:
						if fa, ok := x.Addr.(*ssa.FieldAddr); ok && core.StructOf(fa.X.Type()) == st && fa.Field != mapField {
							b2 := core.Unspill(fa.X)
							if assigned[b2] == nil {
								assigned[b2] = map[int]bool{}
							}
							assigned[b2][fa.Field] = true
						}
					}
				}
			}
			for base := range written {
				nW++
				for _, f := range others {
					if !assigned[base][f] && bad == "" {
						bad = core.ShortFn(fn) + " writes the map of a " + spec[1] + " but not its field " + st.Field(f).Name()
					}
				}
			}
		}
		c.R.Check(bad == "", "R20.17", spec[1]+": state kept besides the map is updated wherever the map is written", spec[0], fmt.Sprintf("%d places where the map of a set is written", nW),
			bad+": the field describes the elements only for sets built through the functions that maintain it - a set returned by Copy, Union, Intersect or Difference carries stale state, and an operation that trusts it (a range test in Disjoint) answers wrongly")
	}
	// R20.18: the queue never compares two elements with == : the elements are interface values of the caller's choosing, and
	// comparing interface values whose dynamic type is not comparable (a slice, a map, a struct holding one) panics - in the
	// middle of Push, Pop, Fix or Remove, with the heap half rearranged.
	{
		pq := scPkg + "/internal/pq"
		nC, bad := 0, ""
		for _, fn := range pkgFuncs(p, pq) {
			for _, b := range fn.Blocks {
				for _, in := range b.Instrs {
					bo, ok := in.(*ssa.BinOp)
					if !ok || (bo.Op != token.EQL && bo.Op != token.NEQ) {
						continue
					}
					_, xi := bo.X.Type().Underlying().(*types.Interface)
					_, yi := bo.Y.Type().Underlying().(*types.Interface)
					if !xi || !yi {
						continue
					}
					if k, isK := bo.X.(*ssa.Const); isK && k.IsNil() {
						continue
					}
					if k, isK := bo.Y.(*ssa.Const); isK && k.IsNil() {
						continue
					}
					nC++
					if bad == "" {
						bad = core.ShortFn(fn) + " at " + p.Pos(bo.Pos())
					}
				}
			}
		}
		c.R.Check(bad == "", "R20.18", "the queue does not compare its elements with ==", pq, "no comparison of two interface values",
			"two elements are compared with == ("+bad+"): for elements of a type that is not comparable the comparison panics while the heap is being rearranged, and the queue is left out of order")
	}
}
