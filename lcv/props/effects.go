package props

import (
	"fmt"
	"go/types"
	"sort"
	"strings"

	"golang.org/x/tools/go/callgraph"
	"golang.org/x/tools/go/callgraph/cha"
	"golang.org/x/tools/go/callgraph/vta"
	"golang.org/x/tools/go/ssa"
	"golang.org/x/tools/go/ssa/ssautil"

	"lcv/core"
	"lcv/eng"
)

const v2pkg = core.V2Mod

// effectRoot describes one API entry point explored by E1.
type effectRoot struct {
	fn     *ssa.Function
	name   string
	params []eng.Prov
	// allowed decides whether a violating write is expected for this root (e.g.
	// Normalize may add words to the dictionary).
	allowed func(v *eng.EffViolation) bool
	// only restricts reporting to violations whose provenance intersects this mask (0 = all).
	only eng.Prov
}

// runEffects explores one root and turns E1's findings into obligations.
func runEffects(c *Ctx, p *core.Prog, rule string, root effectRoot, scope []string, allowGo bool) *eng.Explorer {
	e := eng.NewExplorer(p, scope...)
	e.AllowGo = allowGo
	e.Run(root.fn, root.params)
	fns := e.Explored()
	c.R.Count(rule+":explored_functions:"+root.name, len(fns))
	c.R.Count(rule+":clones:"+root.name, e.NumClones())
	c.R.Count(rule+":external_callees:"+root.name, len(e.Ext))
	nviol := 0
	var keys []string
	for k := range e.Viol {
		keys = append(keys, k)
	}
	sort.Strings(keys)
	for _, k := range keys {
		v := e.Viol[k]
		if root.only != 0 && v.Prov&root.only == 0 {
			continue
		}
		if root.allowed != nil && root.allowed(v) {
			c.R.OK(rule, "root "+root.name+": expected write: "+v.Construct, p.Pos(v.Pos), "write is the documented effect of this entry point ["+v.Prov.String()+"]")
			continue
		}
		nviol++
		c.R.Fail(rule, "root "+root.name+": "+v.Construct, p.Pos(v.Pos),
			fmt.Sprintf("%s; target provenance %s; call path: %s", v.Detail, v.Prov, v.Path))
	}
	keys = keys[:0]
	for k := range e.Undecided {
		keys = append(keys, k)
	}
	sort.Strings(keys)
	for _, k := range keys {
		v := e.Undecided[k]
		c.R.Undecided(rule, "root "+root.name+": "+v.Construct, p.Pos(v.Pos),
			fmt.Sprintf("%s; provenance %s; call path: %s", v.Detail, v.Prov, v.Path))
	}
	// one discharged obligation per explored function: "no violating write in f"
	bad := map[*ssa.Function]bool{}
	for _, v := range e.Viol {
		bad[v.Fn] = true
	}
	for _, v := range e.Undecided {
		bad[v.Fn] = true
	}
	for _, f := range fns {
		if !bad[f] {
			c.R.OK(rule, "root "+root.name+": no write to non-owned memory in "+core.ShortFn(f), p.Pos(f.Pos()), "all stores/map updates/appends/copies target memory allocated inside the call tree")
		}
	}
	var ext []string
	for k, x := range e.Ext {
		ext = append(ext, k)
		c.R.Trust("external callee " + k + ": " + x.How)
	}
	return e
}

// vtaCrossCheck verifies that every in-scope function reachable from root in the
// VTA call graph was explored by E1 (a missed dynamic call would hide effects).
func vtaCrossCheck(c *Ctx, p *core.Prog, rule string, rootName string, root *ssa.Function, e *eng.Explorer, scope []string) {
	all := ssautil.AllFunctions(p.SSA)
	cg := vta.CallGraph(all, cha.CallGraph(p.SSA))
	explored := map[*ssa.Function]bool{}
	for _, f := range e.Explored() {
		explored[f] = true
	}
	inScope := func(fn *ssa.Function) bool {
		pk := core.FuncPkgPath(fn)
		for _, s := range scope {
			if pk == s || strings.HasPrefix(pk, s+"/") {
				return true
			}
		}
		return false
	}
	seen := map[*ssa.Function]bool{}
	var walk func(n *callgraph.Node)
	missed := 0
	reach := 0
	walk = func(n *callgraph.Node) {
		if n == nil || seen[n.Func] {
			return
		}
		seen[n.Func] = true
		if !inScope(n.Func) {
			return // do not walk through external code (callbacks are handled by E1's summaries)
		}
		reach++
		if !explored[n.Func] && len(n.Func.Blocks) > 0 {
			// E1 prunes branches under constant bool arguments; a VTA-reachable function
			// that E1 did not explore is acceptable only if every call site of it inside
			// explored functions is in a pruned (dead) block.
			if !onlyPrunedCallers(n, explored, e) {
				missed++
				c.R.Fail(rule+".vta", "root "+rootName+": VTA-reachable function not explored: "+core.ShortFn(n.Func), p.Pos(n.Func.Pos()), "E1 did not analyse a function that the VTA call graph says is reachable; its effects are unknown")
			}
			return
		}
		for _, out := range n.Out {
			walk(out.Callee)
		}
	}
	walk(cg.Nodes[root])
	c.R.Count(rule+".vta:reachable_in_scope:"+rootName, reach)
	if missed == 0 {
		c.R.OK(rule+".vta", "root "+rootName+": every VTA-reachable in-scope function was explored", p.Pos(root.Pos()), fmt.Sprintf("%d functions", reach))
	}
}

func onlyPrunedCallers(n *callgraph.Node, explored map[*ssa.Function]bool, e *eng.Explorer) bool {
	for _, in := range n.In {
		if in.Caller == nil || !explored[in.Caller.Func] || in.Site == nil {
			continue
		}
		if e.LiveIn(in.Site) {
			return false
		}
	}
	return true
}

// stringMethodRoots analyses every in-scope String/Error/GoString/Format method as an
// extra root with a shared receiver: fmt and spew call them under tracing.
func stringMethodRoots(c *Ctx, p *core.Prog, rule string, pkgPrefix string, scope []string) {
	n := 0
	for _, fn := range p.SrcFuncs(pkgPrefix) {
		if fn.Signature.Recv() == nil || fn.Parent() != nil {
			continue
		}
		switch fn.Name() {
		case "String", "Error", "GoString", "Format":
		default:
			continue
		}
		n++
		ps := make([]eng.Prov, len(fn.Params))
		for i, prm := range fn.Params {
			if eng.PointerLike(prm.Type()) {
				ps[i] = eng.Shared
			}
		}
		e := eng.NewExplorer(p, scope...)
		e.Run(fn, ps)
		name := core.ShortFn(fn)
		if len(e.Viol)+len(e.Undecided) == 0 {
			c.R.OK(rule, "formatting method is effect-free: "+name, p.Pos(fn.Pos()), "no write to non-owned memory with the receiver shared")
			continue
		}
		for _, v := range e.Viol {
			c.R.Fail(rule, "formatting method writes shared memory: "+v.Construct, p.Pos(v.Pos), v.Detail+" ["+v.Prov.String()+"]")
		}
		for _, v := range e.Undecided {
			c.R.Undecided(rule, "formatting method: "+v.Construct, p.Pos(v.Pos), v.Detail)
		}
	}
	c.R.Count(rule+":formatting_methods", n)
}

func provParams(fn *ssa.Function, spec ...eng.Prov) []eng.Prov {
	ps := make([]eng.Prov, len(fn.Params))
	for i := range ps {
		if i < len(spec) && eng.PointerLike(fn.Params[i].Type()) {
			ps[i] = spec[i]
		}
	}
	return ps
}

var _ = types.Typ
