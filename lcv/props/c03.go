package props

import (
	"fmt"
	"go/token"
	"go/types"
	"strings"

	"golang.org/x/tools/go/ssa"

	"lcv/core"
	"lcv/eng"
)

func init() {
	register(&Check{
		ID:      "C03",
		Modules: []string{"v2"},
		Explanation: "Dominance/guard and table-agreement analysis of the v2 result construction: (R03.1) every non-Copyright Match literal stores a Confidence value that a dominating branch compared >= the classifier's threshold; " +
			"(R03.2) a dominating guard G > 0 whose linear form equals EndTokenIndex-StartTokenIndex+1; (R03.3) StartLine/EndLine are the Line of the target document's token at exactly the stored Start/EndTokenIndex; " +
			"(R03.4) the returned slice is an order-preserving filter of a slice sorted (after its last append) by a comparator whose first key is Confidence descending; (R03.5) Name/Variant/MatchType are decoded from the same corpus key that was scored; " +
			"(R03.6) the key format of generateDocName agrees with the three decoders and every docs key comes from it; (R03.7) Copyright pseudo-matches have constant confidence 1.0 and StartLine = EndLine; (R03.8) the last-token access is guarded; " +
			"(R03.12) the components of the corpus key cannot contain the separator the key is split at (fails today: known finding D39); (R03.9) the tokenizer's line counter advances at most once per consumed rune and deferred increments are paired with a swallowed newline; (R03.10) the line-to-tokens conversion emits at most one token per buffered word (token indices are bounded by the number of input words). Necessary conditions of the property for all inputs and thresholds; Confidence <= 1.0 (float reasoning) is not decided.",
		Run: runC03,
	})
}

// structLit is a composite literal allocation with the values stored into its fields.
type structLit struct {
	fn     *ssa.Function
	alloc  *ssa.Alloc
	fields map[string]ssa.Value
	// when the literal is built by a helper from its parameters, the literal is looked at once per call
	// site of the helper: parameters are replaced by the arguments (subst) and branch facts are taken at
	// the call (at) in addition to those at the literal itself.
	at    ssa.Instruction
	subst map[ssa.Value]ssa.Value
	// owner: the function in whose frame the field values live after substitution (nil: fn)
	owner *ssa.Function
	inner []ssa.Instruction // call sites of the helpers nearer to the literal (deep expansion)
}

// expandLiteralDeep applies expandLiteral through up to three levels of unexported helpers.
// Values are not substituted beyond the frame of stop.
func expandLiteralDeep(p *core.Prog, lit structLit, stop *ssa.Function) []structLit {
	cur := []structLit{lit}
	for depth := 0; depth < 3; depth++ {
		var next []structLit
		changed := false
		for _, l := range cur {
			if own := l.owner; own == stop && stop != nil || (own == nil && l.fn == stop) {
				next = append(next, l)
				continue
			}
			ex := expandLiteral(p, l)
			if len(ex) != 1 || ex[0].at != l.at {
				changed = true
			}
			next = append(next, ex...)
		}
		cur = next
		if !changed {
			break
		}
	}
	return cur
}

// facts: branch conditions that hold when the literal is built (local ones and those at the call site).
func (l structLit) facts() []core.Fact {
	out := core.FactsAtInstr(l.alloc)
	if l.at != nil && l.at != ssa.Instruction(l.alloc) {
		out = append(out, core.FactsAtInstr(l.at)...)
	}
	for _, in := range l.inner {
		out = append(out, core.FactsAtInstr(in)...)
	}
	return out
}

// expandLiteral: if fields of the literal are parameters of an unexported helper with call sites in its
// package, return one copy of the literal per call site with the parameters substituted.
func expandLiteral(p *core.Prog, lit structLit) []structLit {
	own := lit.owner
	if own == nil {
		own = lit.fn
	}
	uses := false
	for _, v := range lit.fields {
		v = core.Unspill(v)
		if ld, ok := v.(*ssa.UnOp); ok {
			// a field copied from a parameter: x.f
			if fa, ok := ld.X.(*ssa.FieldAddr); ok {
				v = core.Unspill(fa.X)
			}
		}
		if prm, ok := v.(*ssa.Parameter); ok && prm.Parent() == own {
			uses = true
		}
	}
	if !uses || own.Object() == nil || own.Object().Exported() {
		return []structLit{lit}
	}
	var out []structLit
	for _, g := range p.SrcFuncs(core.FuncPkgPath(own)) {
		for _, call := range core.CallsIn(g) {
			if eng.ResolveCallee(call.Common().Value) != own {
				continue
			}
			nl := structLit{fn: lit.fn, alloc: lit.alloc, fields: map[string]ssa.Value{}, at: call, subst: map[ssa.Value]ssa.Value{}, owner: call.Parent()}
			for k, v := range lit.subst {
				nl.subst[k] = v
			}
			if lit.at != nil {
				nl.inner = append(append([]ssa.Instruction{}, lit.inner...), lit.at)
			}
			for i, prm := range own.Params {
				if i < len(call.Common().Args) {
					nl.subst[prm] = core.Unspill(call.Common().Args[i])
				}
			}
			for k, v := range lit.fields {
				if a, ok := nl.subst[core.Unspill(v)]; ok {
					nl.fields[k] = a
				} else {
					nl.fields[k] = v
				}
			}
			out = append(out, nl)
		}
	}
	if len(out) == 0 {
		return []structLit{lit}
	}
	return out
}

func structLits(fns []*ssa.Function, typeSuffix string) []structLit {
	var out []structLit
	for _, fn := range fns {
		for _, b := range fn.Blocks {
			for _, in := range b.Instrs {
				al, ok := in.(*ssa.Alloc)
				if !ok || !strings.HasSuffix(core.TypeName(al.Type()), typeSuffix) {
					continue
				}
				if core.StructOf(al.Type()) == nil {
					continue
				}
				lit := structLit{fn: fn, alloc: al, fields: map[string]ssa.Value{}}
				for _, r := range *al.Referrers() {
					fa, ok := r.(*ssa.FieldAddr)
					if !ok {
						continue
					}
					for _, u := range *fa.Referrers() {
						if st, ok := u.(*ssa.Store); ok && st.Addr == fa {
							lit.fields[core.FieldName(fa)] = st.Val
						}
					}
				}
				if len(lit.fields) > 0 {
					out = append(out, lit)
				}
			}
		}
	}
	return out
}

func v2Funcs(p *core.Prog) []*ssa.Function {
	var out []*ssa.Function
	for _, f := range p.SrcFuncs(core.V2Mod) {
		if core.FuncPkgPath(f) == core.V2Mod {
			out = append(out, f)
		}
	}
	return out
}

func isThresholdLoad(v ssa.Value) bool {
	r := curRoles()
	return r != nil && core.LoadOfField(v, "/v2.Classifier", r.threshold)
}

// curRoles: the roles of the v2 module loaded by the running check.
func curRoles() *v2Roles {
	progMu.Lock()
	var pr *core.Prog
	for _, p := range progOf {
		if p.Pkg(v2pkg) != nil && p.Dir != "" && p.Named(v2pkg, "Classifier") != nil {
			pr = p
		}
	}
	progMu.Unlock()
	if pr == nil {
		return nil
	}
	r := rolesOf(pr)
	if !r.ok {
		return nil
	}
	return r
}

func runC03(c *Ctx) {
	p := c.Prog("v2")
	if p == nil {
		return
	}
	// shared with C01: the threshold compared with is the one the caller configured (stored as given, written once)
	checkThresholdAndQ(c, p)
	// shared with C04/C09: the matches of a result were computed for this input - Match keeps nothing between calls that a
	// later or overlapping call could write into (R04.1)
	matchReadOnly(c, p, "R04.1")
	// shared with C08: no line of the input is counted twice or skipped where two read windows meet - the bytes carried over
	// to the next window start where the rune loop stopped (R08.4/R08.5/R08.8); otherwise TotalInputLines and EndLine can
	// exceed the number of lines of the input
	tokenizerWindowRules(c, p)
	fns := v2Funcs(p)
	lits := structLits(fns, "/v2.Match")
	nLicense, nCopyright := 0, 0
	for _, lit := range lits {
		mt := lit.fields["MatchType"]
		if s, ok := core.ConstString(mt); ok && s == "Copyright" {
			nCopyright++
			checkCopyrightLiteral(c, p, lit, "R03.7")
			continue
		}
		nLicense++
		for _, l2 := range expandLiteral(p, lit) {
			checkLicenseLiteral(c, p, l2)
		}
	}
	c.R.RequireMin("R03.1", "non-Copyright Match literals", nLicense, 1)
	c.R.RequireMin("R03.7", "Copyright Match literals", nCopyright, 1)

	checkMatchImmutable(c, p)
	checkTotalLines(c, p)
	checkOrdering(c, p)
	checkResultIsRetained(c, p)
	checkKeyFormat(c, p, "R03.6")
	checkKeyComponents(c, p)

	// R03.8: constant-position accesses in match and the decoders
	decoderFns := keyDecoderFuncs(p, lits)
	var sub []*ssa.Function
	for _, f := range fns {
		if p.IsFn(f, v2pkg, "(*Classifier).match") || decoderFns[f] {
			sub = append(sub, f)
		}
	}
	obls := eng.FindNonEmpty(sub)
	for _, o := range obls {
		if ok, how := dischargeNE(c, p, o); ok {
			c.R.OK("R03.8", o.Key, p.Pos(o.Instr.Pos()), how)
		} else {
			c.R.Fail("R03.8", o.Key, p.Pos(o.Instr.Pos()), fmt.Sprintf("nothing establishes len >= %d here; the access panics instead of returning a well-formed result", o.Need))
		}
	}
	c.R.RequireMin("R03.8", "constant-position accesses in match and the key decoders", len(obls), 2)

	checkLineCounter(c, p, "R03.9")
	checkOneTokenPerWord(c, p, "R03.10")
}

// checkMatchImmutable: R03.13. A Match is complete when it is built: its fields are written by the composite literal that
// creates it and by nothing else. A later store (extending the EndLine of the previous pseudo-match to merge two notices,
// rounding a Confidence after the threshold test, ...) changes a value that the guards at the literal established.
func checkMatchImmutable(c *Ctx, p *core.Prog) {
	n, nLit := 0, 0
	for _, fn := range v2Funcs(p) {
		for _, b := range fn.Blocks {
			for _, in := range b.Instrs {
				st, ok := in.(*ssa.Store)
				if !ok {
					continue
				}
				fa, ok := st.Addr.(*ssa.FieldAddr)
				if !ok || !strings.HasSuffix(core.TypeName(fa.X.Type()), "/v2.Match") {
					continue
				}
				n++
				if al, isAlloc := fa.X.(*ssa.Alloc); isAlloc && al.Parent() == fn {
					nLit++
					continue
				}
				c.R.Fail("R03.13", core.ShortFn(fn)+": field "+core.FieldName(fa)+" of an existing Match is overwritten", p.Pos(st.Pos()),
					"a Match is changed after it was built: the value no longer is the one the guards at its construction established (threshold <= Confidence, StartLine <= EndLine of one span, a Copyright pseudo-match on one line)")
			}
		}
	}
	c.R.RequireMin("R03.13", "stores into Match fields (all inside composite literals)", n, 4)
	if n == nLit {
		c.R.OK("R03.13", "the fields of a Match are written only by the literal that builds it", "-", fmt.Sprintf("%d field stores, all into a Match allocated by the same function", n))
	}
}

// keyDecoderFuncs: the functions that compute MatchType/Name/Variant of the license Match literals - the decoders called
// there with the helpers they hand the key to, and the function that holds the literal (an inlined decoder).
func keyDecoderFuncs(p *core.Prog, lits []structLit) map[*ssa.Function]bool {
	decoderFns := map[*ssa.Function]bool{}
	for _, lit := range lits {
		if s, ok := core.ConstString(lit.fields["MatchType"]); ok && s == "Copyright" {
			continue
		}
		for _, f := range []string{"MatchType", "Name", "Variant"} {
			if call, ok := lit.fields[f].(*ssa.Call); ok && call.Call.StaticCallee() != nil {
				for _, g := range pkgClosure(call.Call.StaticCallee(), v2pkg) {
					decoderFns[g] = true
				}
			}
			decoderFns[lit.fn] = true
		}
	}
	return decoderFns
}

// loopDepthOf: the number of loops of the function that contain block b (headers that dominate b and that b
// can reach again).
func loopDepthOf(b *ssa.BasicBlock) int {
	// the number of natural loops b belongs to: a header that dominates b counts only if b lies on a path back to it that
	// does not leave the loop (a block behind the exit of an inner loop is dominated by that loop's header but not part of it)
	n := 0
	for h := b; h != nil; h = h.Idom() {
		isHeader := false
		for _, pr := range h.Preds {
			if h.Dominates(pr) {
				isHeader = true
			}
		}
		if isHeader && naturalLoop(h)[b] {
			n++
		}
	}
	return n
}

// checkOneTokenPerWord: token indices are compared with the number of input words, so the function that turns the
// buffered words of a line into tokens may emit at most one token per buffered word: the token literal lies in the loop
// over the words and in no loop nested inside it.
func checkOneTokenPerWord(c *Ctx, p *core.Prog, rule string) {
	// the functions that turn buffered words into tokens: those that build token literals, other than the stream
	// loop itself (which only makes the end-of-line tokens)
	var stream *ssa.Function
	for _, f := range v2Funcs(p) {
		for _, call := range core.CallsIn(f) {
			if core.StaticCalleeName(call.Common()) == "unicode/utf8.DecodeRune" {
				stream = f
			}
		}
	}
	n := 0
	for _, f := range v2Funcs(p) {
		if f == stream || (f.Parent() != nil && f.Parent() == stream) {
			continue
		}
		lits := structLits([]*ssa.Function{f}, "/v2.indexedToken")
		if len(lits) == 0 {
			continue
		}
		// f and the unexported helpers it calls to prepare the words
		scope := []*ssa.Function{f}
		for _, call := range core.CallsIn(f) {
			if g := call.Common().StaticCallee(); g != nil && g != f && core.FuncPkgPath(g) == v2pkg && len(g.Blocks) > 0 && g.Signature.Results().Len() == 1 {
				if sl, isSl := g.Signature.Results().At(0).Type().Underlying().(*types.Slice); isSl && isString(sl.Elem()) {
					scope = append(scope, g)
				}
			}
		}
		for _, lit := range lits {
			n++
			d := loopDepthOf(lit.alloc.Block())
			// when the tokens are made from an intermediate list of words, that list gets at most one entry per
			// buffered word too
			for _, g := range scope {
				for _, b := range g.Blocks {
					for _, in := range b.Instrs {
						call, ok := in.(*ssa.Call)
						if !ok {
							continue
						}
						bi, isB := call.Call.Value.(*ssa.Builtin)
						if !isB || bi.Name() != "append" || len(call.Call.Args) < 2 {
							continue
						}
						if sl, isSl := call.Call.Args[0].Type().Underlying().(*types.Slice); !isSl || !isString(sl.Elem()) {
							continue
						}
						if da := loopDepthOf(call.Block()); da > d {
							d = da
						}
					}
				}
			}
			c.R.Check(d <= 1, rule, core.ShortFn(f)+": at most one token is produced per buffered word", p.Pos(lit.alloc.Pos()),
				fmt.Sprintf("the token literal and the list of cleaned words it is made from are filled in loops of depth %d", d),
				fmt.Sprintf("a token (or an entry of the word list the tokens are made from) is produced in %d nested loops: one buffered word can yield several tokens, so token indices can reach or exceed the number of input words", d))
		}
	}
	c.R.RequireMin(rule, "token literals outside the stream loop", n, 1)
}

func checkCopyrightLiteral(c *Ctx, p *core.Prog, lit structLit, rule string) {
	key := core.ShortFn(lit.fn) + ": Copyright Match literal"
	pos := p.Pos(lit.alloc.Pos())
	conf, ok := core.ConstFloat(lit.fields["Confidence"])
	c.R.Check(ok && conf == 1.0, rule, key+": Confidence is the constant 1.0", pos, "constant 1.0", "Copyright pseudo-matches must have Confidence exactly 1.0")
	sl, el := lit.fields["StartLine"], lit.fields["EndLine"]
	c.R.Check(sl != nil && sl == el, rule, key+": StartLine and EndLine are the same value", pos, "both fields store "+valName(sl), "StartLine and EndLine of a Copyright match must be the one line it was found on")
	name, ok2 := core.ConstString(lit.fields["Name"])
	c.R.Check(ok2 && name == "Copyright", rule, key+": Name is \"Copyright\"", pos, "constant", "Name of a Copyright pseudo-match must be \"Copyright\"")
	// the line stored must be the line parameter/counter of the tokenizer (not a derived value)
	if sl != nil {
		_, isParam := sl.(*ssa.Parameter)
		c.R.Check(isParam, rule, key+": the line is the line of the buffered text", pos, "StartLine is the `line` parameter of "+lit.fn.Name(), "StartLine is computed ("+sl.String()+") instead of being the line of the buffered text")
	}
}

func valName(v ssa.Value) string {
	if v == nil {
		return "<none>"
	}
	return eng.Describe(v)
}

func checkLicenseLiteral(c *Ctx, p *core.Prog, lit structLit) {
	key := core.ShortFn(lit.fn) + ": license Match literal"
	pos := p.Pos(lit.alloc.Pos())
	facts := lit.facts()

	// R03.1
	conf := lit.fields["Confidence"]
	ok := false
	if conf != nil {
		for _, f := range facts {
			cmp, isCmp := f.AsCmp()
			if !isCmp {
				continue
			}
			if (cmp.Op == token.GEQ || cmp.Op == token.GTR) && cmp.X == conf && isThresholdLoad(cmp.Y) {
				ok = true
			}
			if (cmp.Op == token.LEQ || cmp.Op == token.LSS) && cmp.Y == conf && isThresholdLoad(cmp.X) {
				ok = true
			}
		}
	}
	c.R.Check(ok, "R03.1", key+": stored Confidence was compared >= threshold on every path", pos,
		"a dominating branch establishes conf >= c.threshold for the very value stored in Confidence",
		"no dominating comparison `v >= c.threshold` on the value stored into Confidence ("+valName(conf)+"): a match below the threshold can be reported")

	// R03.2
	st, en := lit.fields["StartTokenIndex"], lit.fields["EndTokenIndex"]
	ok = false
	var want core.Lin
	if st != nil && en != nil {
		want = core.LinOf(en, lit.subst).Add(core.LinOf(st, lit.subst), -1).Add(core.Lin{Const: 1}, 1)
		for _, f := range facts {
			cmp, isCmp := f.AsCmp()
			if !isCmp {
				continue
			}
			if k, isK := core.ConstInt(cmp.Y); isK && k == 0 && cmp.Op == token.GTR && core.LinOf(cmp.X, lit.subst).Equal(want) {
				ok = true
			}
			if k, isK := core.ConstInt(cmp.Y); isK && k == 1 && cmp.Op == token.GEQ && core.LinOf(cmp.X, lit.subst).Equal(want) {
				ok = true
			}
		}
	}
	c.R.Check(ok, "R03.2", key+": a dominating guard establishes EndTokenIndex - StartTokenIndex + 1 > 0", pos,
		"guard with linear form "+want.String()+" > 0",
		"no dominating guard G > 0 with G = EndTokenIndex - StartTokenIndex + 1 ("+want.String()+"): a match with an empty or inverted token span can be reported")

	// R03.3
	for _, pair := range [][2]string{{"StartLine", "StartTokenIndex"}, {"EndLine", "EndTokenIndex"}} {
		lineV, idxV := lit.fields[pair[0]], lit.fields[pair[1]]
		ok, why := lineOfToken(lineV, idxV, lit.subst)
		c.R.Check(ok, "R03.3", key+": "+pair[0]+" is the line of the token at "+pair[1], pos, why, why)
	}

	// R03.5
	checkTriple(c, p, lit, key, pos)
}

// lineOfToken: lineV == *(&(*(&id.Tokens))[e].Line) with lin(e) == lin(idxV) and id the result of tokenizeStream.
func lineOfToken(lineV, idxV ssa.Value, subst map[ssa.Value]ssa.Value) (bool, string) {
	if lineV == nil || idxV == nil {
		return false, "field not stored"
	}
	ld, ok := lineV.(*ssa.UnOp)
	if !ok || ld.Op != token.MUL {
		return false, "line value is not a load of a token's Line field: " + lineV.String()
	}
	fa, ok := ld.X.(*ssa.FieldAddr)
	if !ok || core.FieldName(fa) != "Line" {
		return false, "line value is not a token's Line field"
	}
	ia, ok := fa.X.(*ssa.IndexAddr)
	if !ok {
		return false, "Line is not taken from an indexed token"
	}
	toks, ok := ia.X.(*ssa.UnOp)
	if !ok || !isDocField(toks, func(r *v2Roles) string { return r.tokens }) {
		return false, "the indexed slice is not indexedDocument.Tokens"
	}
	base := core.Unspill(toks.X.(*ssa.FieldAddr).X)
	if !isTokenizedHere(base, 0) {
		return false, "the document is not the one tokenised by this Match call"
	}
	if !core.LinOf(ia.Index, subst).Equal(core.LinOf(idxV, subst)) {
		return false, fmt.Sprintf("the token index used for the line (%s) differs from the stored token index (%s)", core.LinOf(ia.Index, subst), core.LinOf(idxV, subst))
	}
	return true, "Line of target token [" + core.LinOf(ia.Index, subst).String() + "]"
}

// asKeySplit: v is strings.Split(key, pathsep), directly or as the result of a helper whose body
// returns strings.Split(itsParameter, pathsep). Returns the key value (in the caller's frame).
func asKeySplit(v ssa.Value, depth int) (ssa.Value, bool) {
	call, ok := v.(*ssa.Call)
	if !ok || depth > 2 {
		return nil, false
	}
	if core.StaticCalleeName(&call.Call) == "strings.Split" && isPathSepString(call.Call.Args[1]) {
		return core.Unspill(call.Call.Args[0]), true
	}
	f := call.Call.StaticCallee()
	if f == nil || !core.InRepo(f) || len(f.Blocks) == 0 {
		return nil, false
	}
	var inner ssa.Value
	for _, b := range f.Blocks {
		if ret, isRet := b.Instrs[len(b.Instrs)-1].(*ssa.Return); isRet {
			if len(ret.Results) != 1 {
				return nil, false
			}
			k, ok := asKeySplit(ret.Results[0], depth+1)
			if !ok {
				return nil, false
			}
			if inner != nil && inner != k {
				return nil, false
			}
			inner = k
		}
	}
	prm, isPrm := inner.(*ssa.Parameter)
	if !isPrm {
		return nil, false
	}
	for i, q := range f.Params {
		if q == prm && i < len(call.Call.Args) {
			return core.Unspill(call.Call.Args[i]), true
		}
	}
	return nil, false
}

// keyComponent: v is component k of a docs key: strings.Split(key, pathsep)[k] directly, or the result of a chain of
// in-repo helpers that ends in such an element, with the key and the constant position handed down as arguments
// (LicenseName(key) -> docNameField(key, 1) -> strings.Split(key, sep)[1]).
func keyComponent(v ssa.Value) (key ssa.Value, idx int64, ok bool) {
	return keyComponentIn(v, nil, 0)
}

func keyComponentIn(v ssa.Value, bind map[ssa.Value]ssa.Value, depth int) (ssa.Value, int64, bool) {
	if depth > 4 {
		return nil, 0, false
	}
	res := func(x ssa.Value) ssa.Value {
		x = core.Unspill(x)
		for i := 0; i < 6; i++ {
			y, ok := bind[x]
			if !ok {
				break
			}
			x = core.Unspill(y)
		}
		return x
	}
	switch x := res(v).(type) {
	case *ssa.Call:
		f := x.Call.StaticCallee()
		if f == nil || !core.InRepo(f) || len(f.Blocks) == 0 || len(x.Call.Args) != len(f.Params) {
			return nil, 0, false
		}
		nb := map[ssa.Value]ssa.Value{}
		for i, prm := range f.Params {
			nb[prm] = res(x.Call.Args[i])
		}
		var key ssa.Value
		idx, n := int64(0), 0
		for _, b := range f.Blocks {
			ret, isRet := b.Instrs[len(b.Instrs)-1].(*ssa.Return)
			if !isRet {
				continue
			}
			if len(ret.Results) != 1 {
				return nil, 0, false
			}
			k, i, ok := keyComponentIn(ret.Results[0], nb, depth+1)
			if !ok || (n > 0 && (k != key || i != idx)) {
				return nil, 0, false
			}
			key, idx = k, i
			n++
		}
		if n == 0 {
			return nil, 0, false
		}
		return key, idx, true
	case *ssa.UnOp:
		ia, isIA := x.X.(*ssa.IndexAddr)
		if !isIA {
			return nil, 0, false
		}
		k, isK := core.ConstInt(res(ia.Index))
		keyV, isSplit := asKeySplit(ia.X, 0)
		if !isK || !isSplit {
			return nil, 0, false
		}
		return res(keyV), k, true
	case *ssa.Phi:
		// a component that is decoded once and carried round a loop (`if !split { name = segments[1]; split = true }`): every
		// edge that is not the empty string the variable was declared with is the same component of the same key
		var key ssa.Value
		idx, n := int64(0), 0
		seen := map[*ssa.Phi]bool{}
		var leaves func(ph *ssa.Phi) bool
		leaves = func(ph *ssa.Phi) bool {
			if seen[ph] {
				return true
			}
			seen[ph] = true
			for _, e := range ph.Edges {
				e = res(e)
				if p2, isPhi := e.(*ssa.Phi); isPhi {
					if !leaves(p2) {
						return false
					}
					continue
				}
				if sv, isS := core.ConstString(e); isS && sv == "" {
					continue
				}
				k, i, ok := keyComponentIn(e, bind, depth+1)
				if !ok || (n > 0 && (k != key || i != idx)) {
					return false
				}
				key, idx = k, i
				n++
			}
			return true
		}
		if !leaves(x) || n == 0 {
			return nil, 0, false
		}
		return key, idx, true
	}
	return nil, 0, false
}

// callSiteTuples substitutes parameters of one function by the arguments of each of its call sites
// (one level); values that are not parameters are kept. Returns one tuple per call site.
func callSiteTuples(p *core.Prog, vals []ssa.Value) [][]ssa.Value {
	var fn *ssa.Function
	for _, v := range vals {
		if prm, ok := v.(*ssa.Parameter); ok {
			if fn != nil && prm.Parent() != fn {
				return [][]ssa.Value{vals}
			}
			fn = prm.Parent()
		}
	}
	if fn == nil {
		return [][]ssa.Value{vals}
	}
	var out [][]ssa.Value
	for _, g := range p.SrcFuncs(core.FuncPkgPath(fn)) {
		for _, call := range core.CallsIn(g) {
			if eng.ResolveCallee(call.Common().Value) != fn {
				continue
			}
			t := make([]ssa.Value, len(vals))
			for i, v := range vals {
				t[i] = v
				if prm, ok := v.(*ssa.Parameter); ok {
					for k, q := range fn.Params {
						if q == prm && k < len(call.Common().Args) {
							t[i] = core.Unspill(call.Common().Args[k])
						}
					}
				}
			}
			out = append(out, t)
		}
	}
	if len(out) == 0 {
		return [][]ssa.Value{vals}
	}
	return out
}

// isTokenizedHere: v is the document returned by tokenizeStream in the Match call tree: the result
// itself, or a parameter that receives it at every call site.
func isTokenizedHere(v ssa.Value, depth int) bool {
	v = core.Unspill(v)
	if ex, ok := v.(*ssa.Extract); ok {
		if call, ok := ex.Tuple.(*ssa.Call); ok && isTokenizeStream(call.Call.StaticCallee()) {
			return true
		}
	}
	prm, ok := v.(*ssa.Parameter)
	if !ok || depth > 3 {
		return false
	}
	fn := prm.Parent()
	pr := progOf[fn.Prog]
	if pr == nil {
		return false
	}
	n := 0
	for _, t := range callSiteTuples(pr, []ssa.Value{prm}) {
		if t[0] == ssa.Value(prm) {
			return false // no call sites
		}
		n++
		if !isTokenizedHere(t[0], depth+1) {
			return false
		}
	}
	return n > 0
}

func checkTriple(c *Ctx, p *core.Prog, lit structLit, key, pos string) {
	want := map[string]int64{"MatchType": 0, "Name": 1, "Variant": 2}
	var keyVal ssa.Value
	ok := true
	why := ""
	for _, f := range []string{"MatchType", "Name", "Variant"} {
		k, idx, okK := keyComponent(lit.fields[f])
		if !okK {
			ok, why = false, f+" is not a component of the corpus key (decoder(key) or strings.Split(key, pathsep)[k])"
			break
		}
		if idx != want[f] {
			ok, why = false, fmt.Sprintf("%s is component %d of the key, expected component %d", f, idx, want[f])
			break
		}
		if a, has := lit.subst[k]; has {
			k = a
		}
		if keyVal == nil {
			keyVal = k
		} else if keyVal != k {
			ok, why = false, "the three fields are decoded from different keys"
		}
	}
	if ok {
		conf, isExC := lit.fields["Confidence"].(*ssa.Extract)
		var sc *ssa.Call
		if isExC {
			sc, _ = conf.Tuple.(*ssa.Call)
		}
		if sc == nil || !p.IsFn(sc.Call.StaticCallee(), v2pkg, "(*Classifier).score") || len(sc.Call.Args) < 4 {
			ok, why = false, "Confidence is not a result of score"
		} else if core.Unspill(sc.Call.Args[1]) != keyVal {
			ok, why = false, "score was called with a different key than the one decoded into Name/Variant/MatchType"
		} else {
			// the key must be the map key paired (same iteration) with the document that was scored
			for _, t := range callSiteTuples(p, []ssa.Value{keyVal, core.Unspill(sc.Call.Args[3])}) {
				kx, isK := t[0].(*ssa.Extract)
				dx, isD := t[1].(*ssa.Extract)
				if !isK || !isD || kx.Index != 1 || dx.Index != 2 || kx.Tuple != dx.Tuple {
					ok, why = false, "the document scored is not the one stored under the decoded key (key and document are not the pair of one corpus iteration)"
				} else if _, isNext := kx.Tuple.(*ssa.Next); !isNext {
					ok, why = false, "the decoded key is not the key of the corpus iteration"
				}
			}
		}
	}
	c.R.Check(ok, "R03.5", key+": Name/Variant/MatchType are decoded from the key of the document that was scored", pos,
		"components 1, 2, 0 of l, with (l, d) the pair of one corpus iteration and d the document scored", why)
}

// checkOrdering: R03.4.
func checkOrdering(c *Ctx, p *core.Prog) {
	fn := p.Func(v2pkg, "(*Classifier).match")
	if !c.R.Anchor(fn != nil, "v2.(*Classifier).match") {
		return
	}
	// the sort of the candidates: in match, or in a helper of match (the sort-and-filter stage split off)
	oa := eng.NewOrderAnalysis(p, pkgClosure(fn, v2pkg))
	oa.FindSorts()
	var site *eng.SortSite
	for _, s := range oa.Sorts {
		if s.Value != nil && strings.HasSuffix(core.TypeName(s.Value.Type()), "/v2.Matches") {
			if site == nil || s.Fn == fn {
				site = s
			}
		}
	}
	if site == nil {
		c.R.Fail("R03.4", "match: candidates are sorted", p.Pos(fn.Pos()), "no sort.Sort on a Matches value in match: results are not ordered by confidence")
		return
	}
	pos := p.Pos(site.Call.Pos())
	cmp := site.Cmp
	c.R.Check(cmp != nil && cmp.Undecided == "" && cmp.FirstKey == "Confidence" && cmp.FirstDir == "desc", "R03.4", "Matches.Less orders by Confidence descending before anything else", pos,
		"for every ordering of the compared fields, a greater Confidence alone decides Less", "Confidence is not the primary descending key of Matches.Less (first key: "+firstKeyDesc(cmp)+")")
	// no append to the sorted slice after the sort
	fam := sliceFamily(site.Value)
	late := false
	for v := range fam {
		if call, ok := v.(*ssa.Call); ok {
			if instrBeforeI(site.Call, call) {
				late = true
			}
		}
	}
	c.R.Check(!late, "R03.4", "match: nothing is appended to candidates after the sort", pos, "every append precedes sort.Sort(candidates)", "an element is appended to the sorted slice after sort.Sort: the result is no longer ordered")
	// the returned Matches is an order-preserving filter of the sorted slice
	okFilter, why := false, "Results.Matches is not built from the sorted candidates"
	for _, lit := range structLits([]*ssa.Function{fn}, "/v2.Results") {
		m := lit.fields["Matches"]
		if m == nil {
			continue
		}
		if cst, isConst := m.(*ssa.Const); isConst && cst.Value == nil {
			continue // early return with no matches
		}
		if site.Fn != fn {
			// the helper that sorts also filters: match returns that helper's result, and the helper's result is an
			// order-preserving filter of what it sorted
			call, isCall := core.Unspill(m).(*ssa.Call)
			if !isCall || call.Call.StaticCallee() != site.Fn {
				okFilter, why = false, "the sort is in "+core.ShortFn(site.Fn)+" but Results.Matches is not that function's result"
				continue
			}
			var rv ssa.Value
			nRet := 0
			for _, b := range site.Fn.Blocks {
				if ret, isRet := b.Instrs[len(b.Instrs)-1].(*ssa.Return); isRet && len(ret.Results) >= 1 {
					rv = ret.Results[0]
					nRet++
				}
			}
			if nRet != 1 {
				okFilter, why = false, core.ShortFn(site.Fn)+" has several returns"
				continue
			}
			okFilter, why = orderPreservingFilter(rv, fam, site.Call)
			continue
		}
		if g, gm, gfam, ok := resultBuilder(m, fam); ok {
			// the result is built by a helper from the sorted slice it is handed after the sort
			if call, isCall := m.(*ssa.Call); isCall && instrBeforeI(site.Call, call) {
				okFilter, why = orderPreservingFilter(gm, gfam, nil)
				_ = g
			} else {
				okFilter, why = false, "the helper that builds the result runs before the sort"
			}
			continue
		}
		okFilter, why = orderPreservingFilter(m, fam, site.Call)
	}
	c.R.Check(okFilter, "R03.4", "match: the returned matches are an order-preserving filter of the sorted candidates", pos, why, why)
}

// resultBuilder: m is the result of a call of a same-package helper that receives a member of the slice family `sorted`
// as an argument: returns the helper, the value it returns and the family of the corresponding parameter.
func resultBuilder(m ssa.Value, sorted map[ssa.Value]bool) (*ssa.Function, ssa.Value, map[ssa.Value]bool, bool) {
	call, ok := m.(*ssa.Call)
	if !ok {
		return nil, nil, nil, false
	}
	g := call.Call.StaticCallee()
	if g == nil || core.FuncPkgPath(g) != v2pkg || len(g.Blocks) == 0 {
		return nil, nil, nil, false
	}
	for i, a := range call.Call.Args {
		if !sorted[a] || i >= len(g.Params) {
			continue
		}
		var rv ssa.Value
		n := 0
		for _, b := range g.Blocks {
			if ret, isRet := b.Instrs[len(b.Instrs)-1].(*ssa.Return); isRet && len(ret.Results) >= 1 {
				rv = ret.Results[0]
				n++
			}
		}
		if n != 1 {
			return nil, nil, nil, false
		}
		return g, rv, sliceFamily(g.Params[i]), true
	}
	return nil, nil, nil, false
}

// checkResultIsRetained: R03.4b. The matches returned are exactly the candidates that the overlap filter retained: the
// append that builds the result is guarded by the candidate's retain flag and by nothing else (no further
// de-duplication or cut-off after the filter).
func checkResultIsRetained(c *Ctx, p *core.Prog) {
	fn := p.Func(v2pkg, "(*Classifier).match")
	if fn == nil {
		return
	}
	n := 0
	for _, lit := range structLits([]*ssa.Function{fn}, "/v2.Results") {
		m := lit.fields["Matches"]
		if m == nil {
			continue
		}
		fn := fn
		if call, isCall := m.(*ssa.Call); isCall {
			// the result is built by a helper: look at the value it returns
			if g := call.Call.StaticCallee(); g != nil && core.FuncPkgPath(g) == v2pkg && len(g.Blocks) > 0 {
				for _, b := range g.Blocks {
					if ret, isRet := b.Instrs[len(b.Instrs)-1].(*ssa.Return); isRet && len(ret.Results) >= 1 {
						m, fn = ret.Results[0], g
					}
				}
			}
		}
		for v := range sliceFamily(m) {
			call, ok := v.(*ssa.Call)
			if !ok {
				continue
			}
			if bi, isB := call.Call.Value.(*ssa.Builtin); !isB || bi.Name() != "append" {
				continue
			}
			n++
			flag, extra := false, ""
			// only the decisions taken inside the loop that builds the result
			var h *ssa.BasicBlock
			for d := call.Block(); d != nil && h == nil; d = d.Idom() {
				for _, pr := range d.Preds {
					if d.Dominates(pr) && reaches(call.Block(), d) {
						h = d
					}
				}
			}
			// the branches the append is (transitively) control dependent on, inside that loop
			tcd := core.NewPostDom(fn).TransitiveControlDeps()
			for db := range tcd[call.Block()] {
				if h == nil || !h.Dominates(db) || !reaches(db, h) {
					continue
				}
				ifi, isIf := db.Instrs[len(db.Instrs)-1].(*ssa.If)
				if !isIf {
					continue
				}
				cond := ifi.Cond
				for {
					if u, isU := cond.(*ssa.UnOp); isU && u.Op == token.NOT {
						cond = u.X
						continue
					}
					break
				}
				// retain[i]: a boolean loaded from an element of a []bool - or the boolean field of an element of a slice of
				// structs that keeps each candidate together with its flag
				if ld, isLd := cond.(*ssa.UnOp); isLd {
					if ia, isIA := ld.X.(*ssa.IndexAddr); isIA {
						if sl, isSl := ia.X.Type().Underlying().(*types.Slice); isSl && isBool(sl.Elem()) {
							flag = true
							continue
						}
					}
					if fa, isFA := ld.X.(*ssa.FieldAddr); isFA && isBool(ld.Type()) {
						if _, isIA := fa.X.(*ssa.IndexAddr); isIA || elementBehindCopy(fa.X) != nil {
							flag = true
							continue
						}
					}
				}
				if fv, isF := cond.(*ssa.Field); isF && isBool(fv.Type()) {
					if ld, isLd := fv.X.(*ssa.UnOp); isLd {
						if _, isIA := ld.X.(*ssa.IndexAddr); isIA {
							flag = true
							continue
						}
					}
				}
				if bo, isBo := cond.(*ssa.BinOp); isBo && (bo.Op == token.LSS || bo.Op == token.GEQ) {
					if _, isPhi := bo.X.(*ssa.Phi); isPhi || ascendingIndex(bo.X) {
						continue // the bound of the loop over the candidates
					}
				}
				if _, isEx := cond.(*ssa.Extract); isEx {
					continue // ok of a range step
				}
				extra = eng.Describe(cond) + " (" + p.Pos(cond.Pos()) + ")"
			}
			ok2 := flag && extra == ""
			why := "the append is guarded by the candidate's retain flag only"
			if !flag {
				why = "the append that builds the result is not guarded by the retain flag of the candidate"
			} else if extra != "" {
				why = "besides the retain flag, " + extra + " decides whether a retained candidate is returned: candidates that passed the overlap filter are dropped afterwards (a de-duplication collapses the Copyright matches, which carry no token span, into one)"
			}
			c.R.Check(ok2, "R03.4", "match: every candidate the overlap filter retained is returned", p.Pos(call.Pos()), why, why)
		}
	}
	c.R.RequireMin("R03.4", "appends that build the returned matches", n, 1)
}

func firstKeyDesc(cmp *eng.CmpResult) string {
	if cmp == nil {
		return "unresolved comparator"
	}
	if cmp.Undecided != "" {
		return "undecided: " + cmp.Undecided
	}
	return cmp.FirstKey + " " + cmp.FirstDir
}

func instrBeforeI(a, b ssa.Instruction) bool {
	if a.Block() != b.Block() {
		return a.Block().Dominates(b.Block())
	}
	for _, in := range a.Block().Instrs {
		if in == a {
			return true
		}
		if in == b {
			return false
		}
	}
	return false
}

// sliceFamily: the phi/append web of a slice variable.
func sliceFamily(v ssa.Value) map[ssa.Value]bool {
	fam := map[ssa.Value]bool{}
	var walk func(x ssa.Value)
	walk = func(x ssa.Value) {
		if x == nil || fam[x] {
			return
		}
		fam[x] = true
		switch y := x.(type) {
		case *ssa.Phi:
			for _, e := range y.Edges {
				walk(e)
			}
		case *ssa.Call:
			if b, ok := y.Call.Value.(*ssa.Builtin); ok && b.Name() == "append" {
				walk(y.Call.Args[0])
			}
		}
		if refs := x.Referrers(); refs != nil {
			for _, r := range *refs {
				switch u := r.(type) {
				case *ssa.Phi:
					walk(u)
				case *ssa.Call:
					if b, ok := u.Call.Value.(*ssa.Builtin); ok && b.Name() == "append" && u.Call.Args[0] == x {
						walk(u)
					}
				}
			}
		}
	}
	walk(v)
	return fam
}

// orderPreservingFilter: m is a slice built only by `append(m, src[i])` where src is in the
// sorted family and i is the index of an ascending loop; the loop runs after the sort.
func orderPreservingFilter(m ssa.Value, sorted map[ssa.Value]bool, sortCall ssa.Instruction) (bool, string) {
	fam := sliceFamily(m)
	n := 0
	for v := range fam {
		call, ok := v.(*ssa.Call)
		if !ok {
			if cst, isConst := v.(*ssa.Const); isConst && cst.Value == nil {
				continue
			}
			if _, isPhi := v.(*ssa.Phi); isPhi {
				continue
			}
			return false, "the returned slice has a source that is neither nil nor an append: " + v.String()
		}
		n++
		if len(call.Call.Args) != 2 {
			return false, "unexpected append shape"
		}
		// element: varargs array with one element loaded from sorted[i]
		el := singleVarargElem(call.Call.Args[1])
		if el == nil {
			return false, "append of more than one element or of a spread slice"
		}
		if zi, okZ := zippedElement(el, sorted, sortCall); okZ {
			// the element is read from a slice of structs that was filled, index by index, from the sorted slice
			if !ascendingIndex(zi) {
				return false, "the index into the zipped slice is not an ascending loop index"
			}
			if sortCall != nil && !instrBeforeI(sortCall, call) {
				return false, "the filter runs before the sort"
			}
			continue
		}
		ld, ok := el.(*ssa.UnOp)
		if !ok || ld.Op != token.MUL {
			return false, "appended element is not an element of the sorted slice"
		}
		ia, ok := ld.X.(*ssa.IndexAddr)
		if !ok || !sorted[ia.X] {
			return false, "appended element is not an element of the sorted slice"
		}
		if !ascendingIndex(ia.Index) {
			return false, "the index into the sorted slice is not an ascending loop index"
		}
		if sortCall != nil && !instrBeforeI(sortCall, call) {
			return false, "the filter runs before the sort"
		}
	}
	if n == 0 {
		return false, "nothing is appended to the returned slice"
	}
	return true, fmt.Sprintf("built by %d append(s) of sorted[i] with i ascending, after the sort", n)
}

// elementBehindCopy: addr is (a field address of) a local variable that is assigned, in one place, the element s[i] of a
// slice (`for _, r := range s`: r is a copy of s[i]): returns the address &s[i].
func elementBehindCopy(base ssa.Value) *ssa.IndexAddr {
	al, ok := base.(*ssa.Alloc)
	if !ok {
		return nil
	}
	var ia *ssa.IndexAddr
	n := 0
	for _, r := range *al.Referrers() {
		st, ok := r.(*ssa.Store)
		if !ok || st.Addr != ssa.Value(al) {
			continue
		}
		n++
		if ld, ok := st.Val.(*ssa.UnOp); ok && ld.Op == token.MUL {
			ia, _ = ld.X.(*ssa.IndexAddr)
		}
	}
	if n != 1 {
		return nil
	}
	return ia
}

// zippedElement: el is field f of zip[i], where zip is a slice of structs made in this function whose field f is written by
// exactly one store zip[k].f = sorted[k] (the same index on both sides, after the sort): zip[i].f is then sorted[i].
// Returns the index i.
func zippedElement(el ssa.Value, sorted map[ssa.Value]bool, sortCall ssa.Instruction) (ssa.Value, bool) {
	var ia *ssa.IndexAddr
	field := -1
	switch x := el.(type) {
	case *ssa.UnOp:
		if fa, ok := x.X.(*ssa.FieldAddr); ok && x.Op == token.MUL {
			ia, _ = fa.X.(*ssa.IndexAddr)
			if ia == nil {
				ia = elementBehindCopy(fa.X)
			}
			field = fa.Field
		}
	case *ssa.Field:
		if ld, ok := x.X.(*ssa.UnOp); ok && ld.Op == token.MUL {
			ia, _ = ld.X.(*ssa.IndexAddr)
			field = x.Field
		}
	}
	if ia == nil {
		return nil, false
	}
	zip, ok := ia.X.(*ssa.MakeSlice)
	if !ok {
		return nil, false
	}
	n := 0
	for _, b := range zip.Parent().Blocks {
		for _, in := range b.Instrs {
			st, ok := in.(*ssa.Store)
			if !ok {
				continue
			}
			fa, ok := st.Addr.(*ssa.FieldAddr)
			if !ok || fa.Field != field {
				continue
			}
			zi, ok := fa.X.(*ssa.IndexAddr)
			if !ok || zi.X != ssa.Value(zip) {
				continue
			}
			n++
			src, ok := st.Val.(*ssa.UnOp)
			if !ok || src.Op != token.MUL {
				return nil, false
			}
			si, ok := src.X.(*ssa.IndexAddr)
			if !ok || !sorted[si.X] || si.Index != zi.Index {
				return nil, false
			}
			if sortCall != nil && !instrBeforeI(sortCall, st) {
				return nil, false
			}
		}
	}
	if n != 1 {
		return nil, false
	}
	return ia.Index, true
}

func singleVarargElem(v ssa.Value) ssa.Value {
	sl, ok := v.(*ssa.Slice)
	if !ok {
		return nil
	}
	al, ok := sl.X.(*ssa.Alloc)
	if !ok {
		return nil
	}
	var el ssa.Value
	n := 0
	for _, r := range *al.Referrers() {
		if ia, ok := r.(*ssa.IndexAddr); ok {
			for _, u := range *ia.Referrers() {
				if st, ok := u.(*ssa.Store); ok {
					n++
					el = st.Val
				}
			}
		}
	}
	if n != 1 {
		return nil
	}
	return el
}

// ascendingIndex: phi+1 with phi in {-1, itself+1} (range index) or a counter phi [0, phi+1].
func ascendingIndex(v ssa.Value) bool {
	if bo, ok := v.(*ssa.BinOp); ok && bo.Op == token.ADD {
		if k, ok := core.ConstInt(bo.Y); ok && k == 1 {
			if phi, ok := bo.X.(*ssa.Phi); ok {
				for _, e := range phi.Edges {
					if e == bo {
						continue
					}
					if k, ok := core.ConstInt(e); !ok || k != -1 {
						return false
					}
				}
				return true
			}
		}
	}
	if phi, ok := v.(*ssa.Phi); ok {
		for _, e := range phi.Edges {
			if k, ok := core.ConstInt(e); ok && k == 0 {
				continue
			}
			bo, ok := e.(*ssa.BinOp)
			if !ok || bo.Op != token.ADD || bo.X != phi {
				return false
			}
			if k, ok := core.ConstInt(bo.Y); !ok || k != 1 {
				return false
			}
		}
		return true
	}
	return false
}

// checkKeyFormat: R03.6.
// checkKeyComponents: R03.12. The triple a match reports is recovered from the corpus key by splitting it at the
// separator it was joined with. That only gives back what was added if no component contains the separator: AddContent
// (the only way in) has to test its three components for it before the document is stored, or the triple has to be kept
// with the document instead of being re-split.
func checkKeyComponents(c *Ctx, p *core.Prog) {
	ac := p.Func(v2pkg, "(*Classifier).AddContent")
	if !c.R.Anchor(ac != nil, "v2.(*Classifier).AddContent") {
		return
	}
	// are the reported components recovered by splitting? (decoders called on the key in the Match literal)
	splits := false
	for fn := range keyDecoderFuncs(p, structLits(v2Funcs(p), "/v2.Match")) {
		for _, call := range core.CallsIn(fn) {
			if n := core.StaticCalleeName(call.Common()); n == "strings.Split" || n == "strings.SplitN" {
				if isString(call.Common().Args[0].Type()) {
					splits = true
				}
			}
		}
	}
	if !splits {
		c.R.OK("R03.12", "the reported triple is not recovered by splitting the corpus key", p.Pos(ac.Pos()), "no strings.Split in the key decoders")
		return
	}
	var untested []string
	for i := 1; i <= 3 && i < len(ac.Params); i++ {
		prm := ac.Params[i]
		tested := false
		for _, fn := range pkgClosure(ac, v2pkg) {
			for _, call := range core.CallsIn(fn) {
				switch core.StaticCalleeName(call.Common()) {
				case "strings.Contains", "strings.ContainsRune", "strings.IndexByte", "strings.IndexRune", "strings.Index", "strings.ContainsAny":
					for _, tup := range callSiteTuples(p, []ssa.Value{core.Unspill(call.Common().Args[0])}) {
						if tup[0] == ssa.Value(prm) {
							tested = true
						}
					}
				}
			}
		}
		if !tested {
			untested = append(untested, []string{"", "category", "name", "variant"}[i])
		}
	}
	c.R.Check(len(untested) == 0, "R03.12", "AddContent tests the components of the corpus key for the key separator", p.Pos(ac.Pos()), "every component is searched for the separator before the document is stored",
		"the reported (MatchType, Name, Variant) is recovered by splitting the key category/name/variant at the path separator, but AddContent accepts "+strings.Join(untested, ", ")+" containing it: the document is then reported under another identity (Name \"Doorknob/2.0\" comes back as Name \"Doorknob\", Variant \"2.0\" - possibly the identity of a different document)")
}

func checkKeyFormat(c *Ctx, p *core.Prog, rule string) {
	gen := p.Func(v2pkg, "(*Classifier).generateDocName")
	if !c.R.Anchor(gen != nil, "v2.(*Classifier).generateDocName") {
		return
	}
	// generateDocName builds category <sep> name <sep> variant (fmt.Sprintf or concatenation)
	ok, why := false, "cannot read how the key is built"
	for _, b := range gen.Blocks {
		ret, isRet := b.Instrs[len(b.Instrs)-1].(*ssa.Return)
		if !isRet || len(ret.Results) != 1 {
			continue
		}
		pieces, okP := keyPieces(gen, ret.Results[0])
		if !okP {
			why = "the key expression has an unsupported shape: " + ret.Results[0].String()
			continue
		}
		want := []string{"P1", "SEP", "P2", "SEP", "P3"}
		ok, why = len(pieces) == len(want), fmt.Sprintf("key pieces %v", pieces)
		for k := range want {
			if ok && pieces[k] != want[k] {
				ok = false
			}
		}
		if ok {
			why = "category <pathsep> name <pathsep> variant"
		} else {
			why = fmt.Sprintf("the key is built as %v, expected [category sep name sep variant] with the path separator", pieces)
		}
	}
	c.R.Check(ok, rule, "generateDocName formats category, name, variant in that order with the path separator", p.Pos(gen.Pos()), why, why)

	// AddContent -> addDocument -> generateDocName forward (category, name, variant) in order
	for _, hop := range [][2]string{{"(*Classifier).AddContent", "addDocument"}, {"(*Classifier).addDocument", "generateDocName"}} {
		fn := p.Func(v2pkg, hop[0])
		if !c.R.Anchor(fn != nil, "v2."+hop[0]) {
			continue
		}
		ok, why := false, "no call of "+hop[1]
		for _, call := range core.CallsIn(fn) {
			cal := call.Common().StaticCallee()
			if cal == nil || !p.IsFn(cal, v2pkg, "(*Classifier)."+hop[1]) {
				continue
			}
			ok, why = true, "parameters 1..3 forwarded in order"
			for i := 1; i <= 3; i++ {
				if core.Unspill(call.Common().Args[i]) != fn.Params[i] {
					ok, why = false, fmt.Sprintf("argument %d of %s is not parameter %s", i, hop[1], fn.Params[i].Name())
				}
			}
		}
		c.R.Check(ok, rule, strings.TrimPrefix(hop[0], "(*Classifier).")+" forwards category, name, variant in order to "+hop[1], p.Pos(fn.Pos()), why, why)
	}

	// every MapUpdate on Classifier.docs uses a key returned by generateDocName
	n := 0
	for _, fn := range v2Funcs(p) {
		for _, b := range fn.Blocks {
			for _, in := range b.Instrs {
				mu, ok := in.(*ssa.MapUpdate)
				if !ok || !isClsField(mu.Map, func(r *v2Roles) string { return r.docs }) {
					continue
				}
				n++
				call, isCall := mu.Key.(*ssa.Call)
				good := isCall && call.Call.StaticCallee() == gen
				c.R.Check(good, rule, core.ShortFn(fn)+": key stored into Classifier.docs comes from generateDocName", p.Pos(mu.Pos()), "key is the result of generateDocName", "a key that was not built by generateDocName is stored into Classifier.docs: the decoders cannot recover (MatchType, Name, Variant) from it")
			}
		}
	}
	c.R.RequireMin(rule, "updates of Classifier.docs", n, 1)
}

func varargElems(v ssa.Value) []ssa.Value {
	sl, ok := v.(*ssa.Slice)
	if !ok {
		return nil
	}
	al, ok := sl.X.(*ssa.Alloc)
	if !ok {
		return nil
	}
	m := map[int64]ssa.Value{}
	for _, r := range *al.Referrers() {
		if ia, ok := r.(*ssa.IndexAddr); ok {
			k, _ := core.ConstInt(ia.Index)
			for _, u := range *ia.Referrers() {
				if st, ok := u.(*ssa.Store); ok {
					m[k] = st.Val
				}
			}
		}
	}
	out := make([]ssa.Value, len(m))
	for k, v := range m {
		if int(k) < len(out) {
			out[k] = v
		}
	}
	return out
}

func unwrapIface(v ssa.Value) ssa.Value {
	if mi, ok := v.(*ssa.MakeInterface); ok {
		return mi.X
	}
	return v
}

func isPathSepConst(v ssa.Value) bool {
	k, ok := core.ConstInt(v)
	return ok && (k == '/' || k == '\\')
}

// decoderIndex: fn returns strings.Split(param, pathsep)[k] for a constant k.
func decoderIndex(fn *ssa.Function) (int64, bool) {
	if fn == nil || len(fn.Params) != 1 || len(fn.Blocks) == 0 {
		return 0, false
	}
	for k := int64(0); k < 6; k++ {
		if ok, _ := decoderShape(fn, k); ok {
			return k, true
		}
	}
	return 0, false
}

// decoderShape: return strings.Split(in, sep)[idx] with sep the path separator.
func decoderShape(fn *ssa.Function, idx int64) (bool, string) {
	for _, b := range fn.Blocks {
		for _, in := range b.Instrs {
			ret, ok := in.(*ssa.Return)
			if !ok || len(ret.Results) != 1 {
				continue
			}
			ld, ok := ret.Results[0].(*ssa.UnOp)
			if !ok {
				return false, "does not return an element of a split: " + ret.Results[0].String()
			}
			ia, ok := ld.X.(*ssa.IndexAddr)
			if !ok {
				return false, "does not return an element of a split"
			}
			k, ok := core.ConstInt(ia.Index)
			if !ok || k != idx {
				return false, fmt.Sprintf("returns component %d, expected %d", k, idx)
			}
			keyV, ok := asKeySplit(ia.X, 0)
			if !ok {
				return false, "the indexed value is not strings.Split(key, pathsep)"
			}
			if keyV != ssa.Value(fn.Params[0]) {
				return false, "does not split its parameter"
			}
			return true, fmt.Sprintf("strings.Split(key, pathsep)[%d]", idx)
		}
	}
	return false, "no return"
}

// keyPieces flattens the expression that builds a docs key into pieces: "P<n>" for parameter n
// (receiver = 0), "SEP" for the path separator, or the literal text. Supports fmt.Sprintf with
// %s/%c/%v verbs and string concatenation.
func keyPieces(fn *ssa.Function, v ssa.Value) ([]string, bool) {
	classify := func(x ssa.Value) (string, bool) {
		x = unwrapIface(core.Unspill(x))
		for i, prm := range fn.Params {
			if x == ssa.Value(prm) {
				return fmt.Sprintf("P%d", i), true
			}
		}
		if isPathSepConst(x) {
			return "SEP", true
		}
		if sv, ok := core.ConstString(x); ok {
			if sv == "/" || sv == "\\" {
				return "SEP", true
			}
			return sv, true
		}
		if cv, ok := x.(*ssa.Convert); ok && isPathSepConst(cv.X) {
			return "SEP", true
		}
		return "", false
	}
	switch x := v.(type) {
	case *ssa.BinOp:
		if x.Op != token.ADD {
			return nil, false
		}
		l, ok1 := keyPieces(fn, x.X)
		r, ok2 := keyPieces(fn, x.Y)
		if !ok1 || !ok2 {
			return nil, false
		}
		return append(l, r...), true
	case *ssa.Call:
		if core.StaticCalleeName(&x.Call) == "strings.Join" {
			els := varargElems(x.Call.Args[0])
			sep, okS := classify(x.Call.Args[1])
			if len(els) == 0 || !okS {
				return nil, false
			}
			var out []string
			for i, e := range els {
				pc, ok := classify(e)
				if !ok {
					return nil, false
				}
				if i > 0 {
					out = append(out, sep)
				}
				out = append(out, pc)
			}
			return out, true
		}
		// a helper of the repository that builds the key from its parameters: its pieces, with the helper's parameters
		// replaced by what the caller hands it
		if g := x.Call.StaticCallee(); g != nil && core.InRepo(g) && len(g.Blocks) > 0 && g != fn {
			var inner []string
			for _, gb := range g.Blocks {
				ret, isRet := gb.Instrs[len(gb.Instrs)-1].(*ssa.Return)
				if !isRet || gb == g.Recover {
					continue
				}
				if len(ret.Results) != 1 || inner != nil {
					return nil, false
				}
				pcs, okP := keyPieces(g, ret.Results[0])
				if !okP {
					return nil, false
				}
				inner = pcs
			}
			var out []string
			for _, pc := range inner {
				if strings.HasPrefix(pc, "P") {
					var k int
					if _, err := fmt.Sscanf(pc, "P%d", &k); err != nil || k >= len(x.Call.Args) {
						return nil, false
					}
					cp, okC := classify(x.Call.Args[k])
					if !okC {
						return nil, false
					}
					out = append(out, cp)
				} else {
					out = append(out, pc)
				}
			}
			return out, len(out) > 0
		}
		if core.StaticCalleeName(&x.Call) != "fmt.Sprintf" {
			return nil, false
		}
		f, ok := core.ConstString(x.Call.Args[0])
		if !ok {
			return nil, false
		}
		els := varargElems(x.Call.Args[1])
		var out []string
		ai := 0
		for k := 0; k < len(f); k++ {
			if f[k] == '%' && k+1 < len(f) {
				switch f[k+1] {
				case 's', 'c', 'v':
					if ai >= len(els) {
						return nil, false
					}
					pc, ok := classify(els[ai])
					if !ok {
						return nil, false
					}
					out = append(out, pc)
					ai++
					k++
					continue
				}
				return nil, false
			}
			// literal text
			if f[k] == '/' || f[k] == '\\' {
				out = append(out, "SEP")
			} else {
				out = append(out, string(f[k]))
			}
		}
		return out, ai == len(els)
	}
	if pc, ok := classify(v); ok {
		return []string{pc}, true
	}
	return nil, false
}

// isTokenizeStream: fn is the streaming tokenizer (resolved through the anchor table, so a rename does not matter).
func isTokenizeStream(fn *ssa.Function) bool {
	if fn == nil || fn.Prog == nil {
		return false
	}
	pr := progOf[fn.Prog]
	return pr != nil && pr.IsFn(fn, v2pkg, "tokenizeStream")
}

// progOf maps an SSA program back to its loaded module (filled by Ctx.Prog / Preload).
var progOf = map[*ssa.Program]*core.Prog{}

func isClsField(v ssa.Value, pick func(*v2Roles) string) bool {
	r := curRoles()
	return r != nil && core.LoadOfField(v, "/v2.Classifier", pick(r))
}

func isDocField(v ssa.Value, pick func(*v2Roles) string) bool {
	r := curRoles()
	if r == nil {
		return false
	}
	switch x := v.(type) {
	case *ssa.UnOp:
		if fa, ok := x.X.(*ssa.FieldAddr); ok && x.Op == token.MUL {
			return core.FieldName(fa) == pick(r) && core.TypeName(fa.X.Type()) == r.docTypeName
		}
	case *ssa.Field:
		return core.FieldName(x) == pick(r) && core.TypeName(x.X.Type()) == r.docTypeName
	}
	return false
}

// rangeLoop is a `for ... range X` loop: its header and X.
type rangeLoop struct {
	header *ssa.BasicBlock
	over   ssa.Value
}

// rangeLoopsOf lists the range loops of fn over slices (index phi from -1 compared with len(X)) and over maps / strings
// (next of range X).
func rangeLoopsOf(fn *ssa.Function) []rangeLoop {
	var out []rangeLoop
	for _, h := range fn.Blocks {
		isHeader := false
		for _, pr := range h.Preds {
			if h.Dominates(pr) {
				isHeader = true
			}
		}
		if !isHeader || len(h.Instrs) == 0 {
			continue
		}
		ifi, ok := h.Instrs[len(h.Instrs)-1].(*ssa.If)
		if !ok {
			continue
		}
		switch cond := ifi.Cond.(type) {
		case *ssa.BinOp:
			if cond.Op != token.LSS {
				continue
			}
			inc, ok := cond.X.(*ssa.BinOp)
			if !ok || inc.Op != token.ADD || inc.Block() != h {
				continue
			}
			phi, ok := inc.X.(*ssa.Phi)
			if !ok || phi.Block() != h {
				continue
			}
			fromMinusOne := false
			for _, e := range phi.Edges {
				if k, isK := core.ConstInt(e); isK && k == -1 {
					fromMinusOne = true
				}
			}
			if !fromMinusOne {
				continue
			}
			if call, ok := cond.Y.(*ssa.Call); ok {
				if bi, ok := call.Call.Value.(*ssa.Builtin); ok && bi.Name() == "len" {
					out = append(out, rangeLoop{h, call.Call.Args[0]})
				}
			}
		case *ssa.Extract:
			if nx, ok := cond.Tuple.(*ssa.Next); ok && cond.Index == 0 {
				if rg, ok := nx.Iter.(*ssa.Range); ok {
					out = append(out, rangeLoop{h, rg.X})
				}
			}
		}
	}
	return out
}

// leavesEarly: the loop with this header can be left from its body (break, return, goto) - not only from the header
// when the ranged collection is exhausted. Returns the position of such an exit.
func leavesEarly(header *ssa.BasicBlock) (bool, token.Pos) {
	loopBlocks := map[*ssa.BasicBlock]bool{header: true}
	var lw []*ssa.BasicBlock
	for _, pr := range header.Preds {
		if header.Dominates(pr) {
			lw = append(lw, pr)
		}
	}
	for len(lw) > 0 {
		b := lw[len(lw)-1]
		lw = lw[:len(lw)-1]
		if loopBlocks[b] {
			continue
		}
		loopBlocks[b] = true
		lw = append(lw, b.Preds...)
	}
	for _, b := range header.Parent().Blocks {
		if !loopBlocks[b] || b == header {
			continue
		}
		last := b.Instrs[len(b.Instrs)-1]
		for _, sc := range b.Succs {
			if !loopBlocks[sc] {
				return true, last.Pos()
			}
		}
		if _, isRet := last.(*ssa.Return); isRet {
			return true, last.Pos()
		}
		if _, isPanic := last.(*ssa.Panic); isPanic {
			continue
		}
	}
	return false, token.NoPos
}

// checkTotalLines: R03.15. EndLine <= TotalInputLines holds because both are read off the tokens: every EndLine is the line of
// a token, lines never decrease along the tokens, and TotalInputLines is the line of the LAST token (0 without tokens). A count
// kept by other means (a field the tokenizer fills) has to agree with the token lines in every corner - an unterminated last
// line, a word flushed after the count was taken - which this rule cannot establish, so it is reported.
func checkTotalLines(c *Ctx, p *core.Prog) {
	m := p.Func(v2pkg, "(*Classifier).match")
	if m == nil {
		return
	}
	n := 0
	for _, b := range m.Blocks {
		ret, ok := b.Instrs[len(b.Instrs)-1].(*ssa.Return)
		if !ok || len(ret.Results) != 2 {
			continue
		}
		if cst, isC := ret.Results[1].(*ssa.Const); !isC || cst.Value != nil {
			continue
		}
		ld, ok := ret.Results[0].(*ssa.UnOp)
		if !ok {
			continue
		}
		al, ok := ld.X.(*ssa.Alloc)
		if !ok {
			continue
		}
		var val ssa.Value
		for _, r := range *al.Referrers() {
			if fa, isFA := r.(*ssa.FieldAddr); isFA && core.FieldName(fa) == "TotalInputLines" {
				for _, u := range *fa.Referrers() {
					if st, isSt := u.(*ssa.Store); isSt && st.Addr == ssa.Value(fa) {
						val = st.Val
					}
				}
			}
		}
		if val == nil {
			continue
		}
		n++
		bad := ""
		seen := map[ssa.Value]bool{}
		var walk func(v ssa.Value)
		walk = func(v ssa.Value) {
			v = core.Unspill(v)
			if seen[v] || bad != "" {
				return
			}
			seen[v] = true
			switch x := v.(type) {
			case *ssa.Const:
				if k, isK := core.ConstInt(x); !isK || k != 0 {
					bad = "the constant " + x.String()
				}
			case *ssa.Phi:
				for _, e := range x.Edges {
					walk(e)
				}
			case *ssa.Call:
				// a helper of the package that returns the line: what it returns
				g := x.Call.StaticCallee()
				if g == nil || core.FuncPkgPath(g) != v2pkg || len(g.Blocks) == 0 || g.Signature.Results().Len() != 1 {
					bad = eng.Describe(x)
					return
				}
				for _, gb := range g.Blocks {
					if ret, isRet := gb.Instrs[len(gb.Instrs)-1].(*ssa.Return); isRet && len(ret.Results) == 1 {
						walk(ret.Results[0])
					}
				}
			case *ssa.UnOp:
				fa, isFA := x.X.(*ssa.FieldAddr)
				if !isFA || core.FieldName(fa) != "Line" {
					bad = eng.Describe(x)
					return
				}
				ia, isIA := fa.X.(*ssa.IndexAddr)
				if !isIA || !strings.HasSuffix(core.AP(ia.X), ".Tokens") {
					bad = "the line of something else than a token of the input"
					return
				}
				bo, isBo := ia.Index.(*ssa.BinOp)
				if !isBo || bo.Op != token.SUB || !strings.HasPrefix(core.AP(bo.X), "len(") {
					bad = "the line of a token that is not the last one"
				} else if k, isK := core.ConstInt(bo.Y); !isK || k != 1 {
					bad = "the line of a token that is not the last one"
				}
			default:
				bad = eng.Describe(v)
			}
		}
		walk(val)
		c.R.Check(bad == "", "R03.15", "match: TotalInputLines is the line of the last token (0 without tokens)", p.Pos(ret.Pos()), "Tokens[len(Tokens)-1].Line or 0",
			"TotalInputLines is "+bad+": nothing ties it to the lines of the tokens, from which every EndLine is read - where the two counts disagree (an unterminated last line, a word flushed after the count was taken) a match ends behind the last line of the input")
	}
	if n == 0 {
		c.R.Info("R03.15", "match: TotalInputLines", p.Pos(m.Pos()), "no Results literal with a TotalInputLines field on a successful return")
	}
}
