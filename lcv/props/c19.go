package props

import (
	"fmt"
	"go/token"
	"go/types"
	"strings"

	"golang.org/x/tools/go/ssa"

	"lcv/core"
	"lcv/eng"
)

const (
	cliPkg     = core.V2Mod + "/tools/identify_license"
	backendPkg = cliPkg + "/backend"
	resultsPkg = cliPkg + "/results"
)

func init() {
	register(&Check{
		ID:      "C19",
		Modules: []string{"v2"},
		Explanation: "Structural rules on the v2 identify_license tool: (R19.1) every field of a library Match is copied to the same-named field of LicenseType, and from there to Classification/readFileLines, for the same element; (R19.2) the path condition under which a match is recorded is exactly `headers or MatchType != \"Header\"` (all paths enumerated, truth table compared); " +
			"(R19.3) the shared result list is read and appended only while holding the backend mutex for writing; (R19.4) every input file spawns exactly one task with that file's name after taking a pool token, the token is returned before the task signals completion (the channel is closed after the wait), and the error channel has room for every file; " +
			"(R19.5) every path of main that reaches the normal return with no results passes a fatal exit, and any later fatal exit is guarded by the JSON writer's error; (R19.6) the line re-reader's scanner limit is raised to at least MaxInt32, lines are counted once per Scan and accumulated exactly for startLine <= i <= endLine; (R19.7) the library is given exactly the bytes that this call read from the named file; (R19.8) the result list is sorted by a comparator that is a strict total order over every field of a result, so the printed order does not depend on the order in which the concurrent tasks delivered. " +
			"Necessary conditions of 'the CLI reports what the library finds' for all file sets, flags and -tasks values; output formatting and ordering are not decided.",
		Run: runC19,
	})
}

func runC19(c *Ctx) {
	p := c.Prog("v2")
	if p == nil {
		return
	}
	cl := p.Func(backendPkg, "(*ClassifierBackend).classifyLicense")
	if !c.R.Anchor(cl != nil, "backend.(*ClassifierBackend).classifyLicense") {
		return
	}
	// classifyLicense, its closures and the unexported helpers of the package it is split into
	clFns := pkgClosure(cl, backendPkg)

	// ---- R19.9 the walk over the arguments: SkipDir is returned for directories only --------
	// filepath.Walk skips the rest of the *containing* directory when its callback returns SkipDir for a file: every
	// return of SkipDir in the tool's walk callbacks is therefore behind a true info.IsDir().
	{
		toolPkg := strings.TrimSuffix(backendPkg, "/backend")
		nSkip, nCb := 0, 0
		for _, fn := range p.SrcFuncs(toolPkg) {
			if core.FuncPkgPath(fn) != toolPkg {
				continue
			}
			for _, f := range core.WithAnon(fn) {
				isCb := false
				for _, b := range f.Blocks {
					ret, ok := b.Instrs[len(b.Instrs)-1].(*ssa.Return)
					if !ok || len(ret.Results) != 1 {
						continue
					}
					ld, ok := ret.Results[0].(*ssa.UnOp)
					if !ok || ld.Op != token.MUL {
						continue
					}
					g, ok := ld.X.(*ssa.Global)
					if !ok || g.Name() != "SkipDir" {
						continue
					}
					isCb = true
					nSkip++
					isDir := false
					for _, ft := range core.FactsAt(b) {
						if call, ok := ft.Cond.(*ssa.Call); ok && ft.Truth && call.Call.IsInvoke() && call.Call.Method.Name() == "IsDir" {
							isDir = true
						}
					}
					c.R.Check(isDir, "R19.9", core.ShortFn(f)+": SkipDir is returned only for a directory", p.Pos(ret.Pos()), "behind info.IsDir()",
						"SkipDir can be returned for a file (an ignored file): filepath.Walk then skips the rest of the directory the file lies in, and its later siblings are never classified")
				}
				if isCb {
					nCb++
				}
			}
		}
		c.R.Count("R19.9:returns of SkipDir in the walk callbacks", nSkip)
		if nSkip == 0 {
			c.R.OK("R19.9", "the walk callbacks never return SkipDir", toolPkg, "nothing to guard")
		}
	}

	// ---- R19.1 field agreement ---------------------------------------------------
	n1 := 0
	var lts []structLit
	for _, lit := range structLits(clFns, "/results.LicenseType") {
		lts = append(lts, expandLiteralDeep(p, lit, cl)...)
	}
	for _, lit := range lts {
		n1++
		var src ssa.Value
		bad := ""
		for _, f := range []string{"MatchType", "Name", "Variant", "Confidence", "StartLine", "EndLine"} {
			v := lit.fields[f]
			ld, ok := v.(*ssa.UnOp)
			if !ok {
				bad = f + " is not copied from a Match field"
				break
			}
			fa, ok := ld.X.(*ssa.FieldAddr)
			if !ok || core.FieldName(fa) != f || !strings.HasSuffix(core.TypeName(fa.X.Type()), "/v2.Match") {
				bad = fmt.Sprintf("LicenseType.%s is copied from %s", f, core.AP(v))
				break
			}
			if src == nil {
				src = fa.X
			} else if src != fa.X {
				bad = "fields are copied from different matches"
				break
			}
		}
		for i := 0; i < 4 && src != nil; i++ {
			if a, ok := lit.subst[core.Unspill(src)]; ok {
				src = a
			}
		}
		if bad == "" {
			// the source element comes from Match(contents).Matches of this file
			if !strings.Contains(core.AP(src), "Match(") && !fromMatchCall(src) {
				bad = "the match copied is not an element of Match(contents).Matches"
			}
		}
		if bad == "" {
			if fv := core.Unspill(lit.fields["Filename"]); fv == nil || !isFilenameOf(fv, cl) {
				bad = "Filename is not the name of the file that was read"
			}
		}
		c.R.Check(bad == "", "R19.1", "classifyLicense: LicenseType copies every field from the same library Match", p.Pos(lit.alloc.Pos()), "MatchType, Name, Variant, Confidence, StartLine, EndLine copied field-for-field; Filename is the file read", bad)
	}
	c.R.RequireMin("R19.1", "LicenseType literals in classifyLicense", n1, 1)
	if nj := p.Func(resultsPkg, "NewJSONResult"); c.R.Anchor(nj != nil, "results.NewJSONResult") {
		n2 := 0
		for _, lit := range structLits(pkgClosure(nj, resultsPkg), "/results.Classification") {
			n2++
			nj := lit.fn
			var src ssa.Value
			bad := ""
			for _, f := range []string{"Name", "Confidence", "StartLine", "EndLine"} {
				ld, ok := lit.fields[f].(*ssa.UnOp)
				if !ok {
					bad = f + " is not copied"
					break
				}
				fa, ok := ld.X.(*ssa.FieldAddr)
				if !ok || core.FieldName(fa) != f {
					bad = fmt.Sprintf("Classification.%s is copied from %s", f, core.AP(lit.fields[f]))
					break
				}
				if src == nil {
					src = fa.X
				} else if src != fa.X {
					bad = "fields are copied from different entries"
				}
			}
			// readFileLines(l.Filename, l.StartLine, l.EndLine) for the same l
			for _, call := range core.CallsIn(nj) {
				cal := call.Common().StaticCallee()
				if cal == nil || !p.IsFn(cal, resultsPkg, "readFileLines") {
					continue
				}
				for i, f := range []string{"Filename", "StartLine", "EndLine"} {
					ld, ok := call.Common().Args[i].(*ssa.UnOp)
					if !ok {
						bad = "readFileLines argument is not a field of the entry"
						break
					}
					fa, ok := ld.X.(*ssa.FieldAddr)
					if !ok || core.FieldName(fa) != f || (src != nil && fa.X != src) {
						bad = fmt.Sprintf("readFileLines argument %d is %s, expected the entry's %s", i, core.AP(call.Common().Args[i]), f)
						break
					}
				}
			}
			c.R.Check(bad == "", "R19.1", "NewJSONResult: Classification and readFileLines use the fields of the same entry", p.Pos(lit.alloc.Pos()), "Name, Confidence, StartLine, EndLine copied; text read for (Filename, StartLine, EndLine)", bad)
		}
		c.R.RequireMin("R19.1", "Classification literals", n2, 1)
	}

	// ---- R19.7 the bytes matched are the bytes just read from this file ----------------
	nM := 0
	for _, f := range clFns {
		for _, call := range core.CallsIn(f) {
			cal := call.Common().StaticCallee()
			if cal == nil || cal.Name() != "Match" || !strings.HasSuffix(core.FuncPkgPath(cal), "/v2") {
				continue
			}
			nM++
			arg := core.Unspill(call.Common().Args[1])
			// through a closure parameter / free variable back to the ReadFile result
			ok, why := isFileContents(arg, cl, 0)
			c.R.Check(ok, "R19.7", "classifyLicense: Match is given exactly the bytes read from the file by this call", p.Pos(call.Pos()), why, why)
		}
	}
	c.R.RequireMin("R19.7", "Match calls in classifyLicense", nM, 1)

	// ---- R19.2 headers filter -------------------------------------------------------
	checkHeadersFilter(c, p, clFns)

	// ---- R19.3 results under mu -------------------------------------------------------
	nAcc := 0
	beT := p.Named(backendPkg, "ClassifierBackend")
	resultsField, okRF := "", false
	muFieldBE, okMF := "", false
	if beT != nil {
		resultsField, okRF = core.UniqueField(beT, func(t types.Type) bool { _, isSl := t.Underlying().(*types.Slice); return isSl })
		muFieldBE, okMF = core.UniqueField(beT, func(t types.Type) bool {
			return core.IsNamedType(t, "sync", "Mutex") || core.IsNamedType(t, "sync", "RWMutex")
		})
	}
	if !c.R.Anchor(okRF && okMF, "backend.ClassifierBackend: one result slice guarded by one mutex") {
		return
	}
	for _, f := range pkgFuncs(p, backendPkg) {
		lf := eng.NewLockFlow(f)
		for _, b := range f.Blocks {
			for _, in := range b.Instrs {
				fa, ok := in.(*ssa.FieldAddr)
				if !ok || core.FieldName(fa) != resultsField || !strings.HasSuffix(core.TypeName(fa.X.Type()), "backend.ClassifierBackend") {
					continue
				}
				if f.Name() == "GetResults" || isFreshBase(fa.X) {
					continue // read after all tasks have finished (wg.Wait in ClassifyLicenses) / constructor
				}
				for _, u := range *fa.Referrers() {
					var at ssa.Instruction
					what := ""
					switch x := u.(type) {
					case *ssa.Store:
						at, what = x, "write"
					case *ssa.UnOp:
						at, what = x, "read"
					default:
						continue
					}
					nAcc++
					held := 0
					for k, v := range lf.Before[at] {
						if strings.HasSuffix(k, "ClassifierBackend."+muFieldBE) {
							held = v.Mode
						}
					}
					c.R.Check(held == eng.LockW, "R19.3", core.ShortFn(f)+": "+what+" of ClassifierBackend.results holds mu for writing", p.Pos(at.Pos()),
						"held: "+lf.Before[at].String(), "the shared result list is accessed by concurrent tasks without the exclusive lock (held: "+lf.Before[at].String()+"): appends can be lost")
				}
			}
		}
	}
	c.R.RequireMin("R19.3", "accesses to ClassifierBackend.results in tasks", nAcc, 2)

	// ---- R19.11 every argument is walked ------------------------------------------------------
	// in the function that expands the arguments into files, every pass through the loop over the arguments reaches the
	// walk of that argument unless it returns (an error): no argument is skipped because of what an earlier one was
	{
		toolPkg := strings.TrimSuffix(backendPkg, "/backend")
		nL := 0
		for _, fn := range p.SrcFuncs(toolPkg) {
			if core.FuncPkgPath(fn) != toolPkg || fn.Parent() != nil {
				continue
			}
			var walk ssa.CallInstruction
			isWalk := func(n string) bool { return n == "path/filepath.Walk" || n == "path/filepath.WalkDir" }
			for _, call := range core.CallsIn(fn) {
				if isWalk(core.StaticCalleeName(call.Common())) {
					walk = call
				} else if cal := call.Common().StaticCallee(); cal != nil && core.FuncPkgPath(cal) == toolPkg && walk == nil {
					// a helper of the tool that walks the path it is given
					for _, inner := range core.CallsIn(cal) {
						if isWalk(core.StaticCalleeName(inner.Common())) {
							walk = call
						}
					}
				}
			}
			if walk == nil {
				continue
			}
			for _, rl := range rangeLoopsOf(fn) {
				prm, isPrm := core.Unspill(rl.over).(*ssa.Parameter)
				if !isPrm || prm.Parent() != fn {
					continue
				}
				loop := naturalLoop(rl.header)
				if !loop[walk.Block()] {
					continue
				}
				nL++
				// a way from the loop head back to the loop head that does not pass the walk
				seen := map[*ssa.BasicBlock]bool{}
				var skips func(b *ssa.BasicBlock) bool
				skips = func(b *ssa.BasicBlock) bool {
					if b == walk.Block() || !loop[b] || seen[b] {
						return false
					}
					seen[b] = true
					for _, sc := range b.Succs {
						if sc == rl.header {
							return true
						}
						if skips(sc) {
							return true
						}
					}
					return false
				}
				skipped := false
				for _, sc := range rl.header.Succs {
					if loop[sc] && skips(sc) {
						skipped = true
					}
				}
				c.R.Check(!skipped, "R19.11", core.ShortFn(fn)+": every argument is walked", p.Pos(walk.Pos()), "every pass through the loop over the arguments reaches filepath.Walk or returns",
					"a pass through the loop over the arguments can go on to the next argument without walking this one: its files are silently left out")
			}
		}
		c.R.RequireMin("R19.11", "loops over the arguments that walk them", nL, 1)
	}

	// ---- R19.12 the text of a classification is read or the reading fails -----------------------
	// the function that re-reads the lines of a match returns an empty text only together with an error
	if rl := p.Func(strings.TrimSuffix(backendPkg, "/backend")+"/results", "readFileLines"); rl != nil {
		nR, bad := 0, ""
		for _, b := range rl.Blocks {
			ret, ok := b.Instrs[len(b.Instrs)-1].(*ssa.Return)
			if !ok || len(ret.Results) != 2 {
				continue
			}
			nR++
			// with a deferred call in the function the results are spilled: the value returned is the one stored last into
			// the result cell in this block
			unspill := func(v ssa.Value) ssa.Value {
				ld, ok := v.(*ssa.UnOp)
				if !ok || ld.Op != token.MUL {
					return v
				}
				al, ok := ld.X.(*ssa.Alloc)
				if !ok {
					return v
				}
				var last ssa.Value
				for _, in := range b.Instrs {
					if in == ssa.Instruction(ld) {
						break
					}
					if st, ok := in.(*ssa.Store); ok && st.Addr == ssa.Value(al) {
						last = st.Val
					}
				}
				if last != nil {
					return last
				}
				return v
			}
			if sv, isS := core.ConstString(unspill(ret.Results[0])); isS && sv == "" {
				if cst, isC := unspill(ret.Results[1]).(*ssa.Const); isC && cst.Value == nil {
					bad = p.Pos(ret.Pos())
				}
			}
		}
		c.R.Check(bad == "" && nR > 0, "R19.12", "readFileLines: an empty text is returned only with an error", p.Pos(rl.Pos()), fmt.Sprintf("%d returns", nR),
			"an empty text is returned without an error at "+bad+": with -include_text the classification of a one-line span (a license on one long line, a Copyright match) carries no text")
	}

	checkToolOutputRules(c, p)
	checkEveryFileMatchedAndPrinted(c, p)
	checkTimeoutAndLibraryState(c, p)

	// ---- R19.10 what is recorded for a file is built from that file's matches -----------
	// every value appended to the result list is a LicenseType built by a composite literal of this call (whose fields
	// R19.1 ties to the match and to the file name) - not an element fetched from somewhere else (a cache of what was found
	// for another file with the same contents carries that file's name)
	{
		nApp := 0
		for _, f := range pkgFuncs(p, backendPkg) {
			for _, call := range core.CallsIn(f) {
				cv, ok := call.(*ssa.Call)
				if !ok {
					continue
				}
				bi, ok := cv.Call.Value.(*ssa.Builtin)
				if !ok || bi.Name() != "append" || len(cv.Call.Args) != 2 {
					continue
				}
				ld, ok := cv.Call.Args[0].(*ssa.UnOp)
				if !ok {
					continue
				}
				fa, ok := ld.X.(*ssa.FieldAddr)
				if !ok || core.FieldName(fa) != resultsField || !strings.HasSuffix(core.TypeName(fa.X.Type()), "backend.ClassifierBackend") {
					continue
				}
				nApp++
				els := varargElems(cv.Call.Args[1])
				okEl := len(els) > 0
				var builtHere func(v ssa.Value, depth int) bool
				builtHere = func(v ssa.Value, depth int) bool {
					v = core.Unspill(v)
					if _, isLit := v.(*ssa.Alloc); isLit {
						return true
					}
					// a parameter of a helper that only appends what it is given: what its callers hand it
					if prm, isPrm := v.(*ssa.Parameter); isPrm && depth < 2 {
						idx := -1
						for k, q := range prm.Parent().Params {
							if q == prm {
								idx = k
							}
						}
						sites, escapes := eng.CallSitesOf(prm.Parent())
						if idx < 0 || escapes || len(sites) == 0 {
							return false
						}
						for _, cs := range sites {
							if idx >= len(cs.Common().Args) || !builtHere(cs.Common().Args[idx], depth+1) {
								return false
							}
						}
						return true
					}
					// a constructor of the package: every return hands out an object it allocated itself
					if cc, isCall := v.(*ssa.Call); isCall && depth < 2 {
						g := cc.Call.StaticCallee()
						if g == nil || core.FuncPkgPath(g) != backendPkg || len(g.Blocks) == 0 {
							return false
						}
						nRet := 0
						for _, b := range g.Blocks {
							if ret, isRet := b.Instrs[len(b.Instrs)-1].(*ssa.Return); isRet {
								nRet++
								if len(ret.Results) != 1 || !builtHere(ret.Results[0], depth+1) {
									return false
								}
							}
						}
						return nRet > 0
					}
					return false
				}
				for _, el := range els {
					if !builtHere(el, 0) {
						okEl = false
					}
				}
				c.R.Check(okEl, "R19.10", core.ShortFn(f)+": what is appended to the result list is a result built in this call", p.Pos(cv.Pos()), "a LicenseType composite literal",
					"the result list is extended by values that were not built from this file's matches (a slice or an element taken from elsewhere): a file can be reported under another file's name, or not at all")
			}
		}
		c.R.RequireMin("R19.10", "appends to the result list", nApp, 1)
	}

	// ---- R19.4 task fan-out -----------------------------------------------------------
	checkFanOut(c, p)

	// ---- R19.5 exit structure ----------------------------------------------------------
	checkExitStructure(c, p)

	// ---- R19.6 line re-reader ----------------------------------------------------------
	checkLineReader(c, p)

	// ---- R19.8 the order of the report does not depend on the order in which the tasks delivered -------
	if fn := p.Func(cliPkg, "main"); fn != nil {
		oa := eng.NewOrderAnalysis(p, pkgClosure(fn, cliPkg))
		oa.FindSorts()
		n8 := 0
		for _, site := range oa.Sorts {
			if site.Value == nil || !strings.HasSuffix(core.TypeName(site.Value.Type()), "/results.LicenseTypes") {
				continue
			}
			n8++
			cmp := site.Cmp
			ok := cmp != nil && cmp.Undecided == "" && cmp.Bad == 0 && len(cmp.NotCompared) == 0
			why := "the comparator is a strict total order over all fields of a result"
			if !ok {
				switch {
				case cmp == nil:
					why = "the comparator of the sort cannot be resolved"
				case cmp.Undecided != "":
					why = "undecided: " + cmp.Undecided
				case cmp.Bad > 0:
					why = "the comparator is not a strict order: " + cmp.FirstBad
				default:
					why = "results that differ only in " + strings.Join(cmp.NotCompared, ", ") + " compare equal; sort.Sort is not stable and the results arrive in the order in which the concurrent tasks finished, so the printed order (and the order of a file's classifications in the JSON output) depends on -tasks and on the schedule"
				}
			}
			c.R.Check(ok, "R19.8", "main: the results are sorted by a total order before they are printed", p.Pos(site.Call.Pos()), why, why)
		}
		c.R.RequireMin("R19.8", "sorts of the result list in main", n8, 1)
	}
}

func fromMatchCall(v ssa.Value) bool {
	// element of a range over (Match(contents)).Matches: load of IndexAddr(slice, idx) with slice = Field Matches of call result
	for i := 0; i < 8 && v != nil; i++ {
		switch x := v.(type) {
		case *ssa.UnOp:
			v = x.X
		case *ssa.IndexAddr:
			v = x.X
		case *ssa.Index:
			v = x.X
		case *ssa.Field:
			if core.FieldName(x) == "Matches" {
				if call, ok := x.X.(*ssa.Call); ok && call.Call.StaticCallee() != nil && call.Call.StaticCallee().Name() == "Match" {
					return true
				}
			}
			v = x.X
		case *ssa.FieldAddr:
			v = x.X
		default:
			return false
		}
	}
	return false
}

func isFilenameOf(v ssa.Value, cl *ssa.Function) bool {
	// the filename parameter of classifyLicense, possibly captured by the closure
	if prm, ok := v.(*ssa.Parameter); ok {
		return prm == cl.Params[1]
	}
	if fv, ok := v.(*ssa.FreeVar); ok {
		return fv.Name() == cl.Params[1].Name()
	}
	if ld, ok := v.(*ssa.UnOp); ok {
		if fv, ok := ld.X.(*ssa.FreeVar); ok {
			return fv.Name() == cl.Params[1].Name()
		}
	}
	return false
}

// checkHeadersFilter: R19.2.
func checkHeadersFilter(c *Ctx, p *core.Prog, fns []*ssa.Function) {
	for _, lit := range structLits(fns, "/results.LicenseType") {
		fn := lit.fn
		target := lit.alloc.Block()
		// loop body entry: the innermost loop header dominating the literal
		loopHeader := func(target *ssa.BasicBlock) *ssa.BasicBlock {
			for d := target; d != nil; d = d.Idom() {
				for _, pr := range d.Preds {
					if d.Dominates(pr) {
						return d
					}
				}
			}
			return nil
		}
		header := loopHeader(target)
		// a literal built by a straight-line helper: the record site is the helper's (only) call site
		for hops := 0; header == nil && hops < 3; hops++ {
			var sites []ssa.CallInstruction
			for _, g := range fns {
				for _, call := range core.CallsIn(g) {
					if eng.ResolveCallee(call.Common().Value) == fn {
						sites = append(sites, call)
					}
				}
			}
			if len(sites) != 1 || len(fn.Blocks) != 1 {
				break
			}
			fn, target = sites[0].Parent(), sites[0].Block()
			header = loopHeader(target)
		}
		if header == nil {
			c.R.Undecided("R19.2", "classifyLicense: headers filter", p.Pos(lit.alloc.Pos()), "the literal is not inside the loop over matches")
			continue
		}
		// the loop over the matches may be left only from its header (all matches are looked at)
		loopBlocks := map[*ssa.BasicBlock]bool{header: true}
		var lw []*ssa.BasicBlock
		for _, pr := range header.Preds {
			if header.Dominates(pr) {
				lw = append(lw, pr)
			}
		}
		for len(lw) > 0 {
			b := lw[len(lw)-1]
			lw = lw[:len(lw)-1]
			if loopBlocks[b] {
				continue
			}
			loopBlocks[b] = true
			lw = append(lw, b.Preds...)
		}
		early := false
		for b := range loopBlocks {
			if b == header {
				continue
			}
			for _, sc := range b.Succs {
				if !loopBlocks[sc] {
					early = true
				}
			}
			if _, isRet := b.Instrs[len(b.Instrs)-1].(*ssa.Return); isRet {
				early = true
			}
		}
		c.R.Check(!early, "R19.2", "classifyLicense: the loop over the library's matches looks at every match", p.Pos(lit.alloc.Pos()), "the loop is left only when the matches are exhausted", "the loop over Match(...).Matches can be left early (break/return in its body): matches listed after the one that triggers the exit are never recorded")
		paths, ok := eng.EnumPaths(header, target, func(b *ssa.BasicBlock) bool { return !header.Dominates(b) }, 200)
		if !ok {
			c.R.Undecided("R19.2", "classifyLicense: headers filter", p.Pos(lit.alloc.Pos()), "too many paths")
			continue
		}
		// atoms: 0 = headers flag, 1 = MatchType == "Header"; anything else is a loop condition (ignored) or unknown
		unknown := ""
		atom := func(v ssa.Value) int {
			if isHeadersFlag(v, fn) {
				return 0
			}
			if bo, ok := v.(*ssa.BinOp); ok && (bo.Op == token.EQL || bo.Op == token.NEQ) {
				if s, ok := core.ConstString(bo.Y); ok && s == "Header" && strings.HasSuffix(core.AP(bo.X), ".MatchType") {
					if bo.Op == token.NEQ {
						return -3
					}
					return 1
				}
			}
			if bo, ok := v.(*ssa.BinOp); ok && bo.Op == token.LSS {
				return -1 // range loop condition
			}
			if _, ok := v.(*ssa.Extract); ok {
				return -1
			}
			unknown = v.String()
			return -1
		}
		good := true
		detail := ""
		for a := 0; a < 4; a++ {
			assign := []bool{a&1 != 0, a&2 != 0}
			got := eng.PathsSatisfiable(paths, atom, assign)
			want := assign[0] || !assign[1]
			if got != want {
				good = false
				detail = fmt.Sprintf("with headers=%v and MatchType==\"Header\" %v the match is recorded=%v, expected %v", assign[0], assign[1], got, want)
			}
		}
		if why := flagChain(fn, fns, 0); why != "" && unknown == "" {
			c.R.Fail("R19.2", "classifyLicense: a match is recorded iff headers or MatchType != \"Header\"", p.Pos(lit.alloc.Pos()), why)
			continue
		}
		if unknown != "" {
			c.R.Undecided("R19.2", "classifyLicense: a match is recorded iff headers or MatchType != \"Header\"", p.Pos(lit.alloc.Pos()), "the path to the record depends on an unrecognised condition: "+unknown)
			continue
		}
		c.R.Check(good, "R19.2", "classifyLicense: a match is recorded iff headers or MatchType != \"Header\"", p.Pos(lit.alloc.Pos()), fmt.Sprintf("%d paths, truth table over (headers, MatchType==\"Header\") matches", len(paths)), detail)
	}
}

// flagChain: when the record site lies in a helper, every call of the helper passes its caller's headers flag on
// unchanged. Returns "" when that holds.
func flagChain(fn *ssa.Function, fns []*ssa.Function, depth int) string {
	top := fn
	for top.Parent() != nil {
		top = top.Parent()
	}
	idx := -1
	for i, prm := range top.Params {
		if isBool(prm.Type()) {
			idx = i
		}
	}
	if idx < 0 || depth > 3 {
		return ""
	}
	for _, g := range fns {
		for _, call := range core.CallsIn(g) {
			if eng.ResolveCallee(call.Common().Value) != top || idx >= len(call.Common().Args) {
				continue
			}
			if !isHeadersFlag(call.Common().Args[idx], g) {
				return fmt.Sprintf("%s is called with %s as its headers flag, not with the caller's flag", top.Name(), core.AP(call.Common().Args[idx]))
			}
			if why := flagChain(g, fns, depth+1); why != "" {
				return why
			}
		}
	}
	return ""
}

// isHeadersFlag: v is the boolean parameter of the enclosing top-level function (classifyLicense has
// exactly one), directly, spilled, or captured by a closure.
func isHeadersFlag(v ssa.Value, fn *ssa.Function) bool {
	top := fn
	for top.Parent() != nil {
		top = top.Parent()
	}
	var flag *ssa.Parameter
	n := 0
	for _, prm := range top.Params {
		if isBool(prm.Type()) {
			flag = prm
			n++
		}
	}
	if n != 1 {
		return false
	}
	v = core.Unspill(v)
	if v == ssa.Value(flag) {
		return true
	}
	isCapturedFlag := func(fv *ssa.FreeVar) bool {
		f := fv.Parent()
		idx := -1
		for i, x := range f.FreeVars {
			if x == fv {
				idx = i
			}
		}
		if f.Parent() == nil || idx < 0 {
			return false
		}
		for _, b := range f.Parent().Blocks {
			for _, in := range b.Instrs {
				if mc, ok := in.(*ssa.MakeClosure); ok && mc.Fn == f && idx < len(mc.Bindings) {
					bd := mc.Bindings[idx]
					if core.Unspill(bd) == ssa.Value(flag) {
						return true
					}
					if al, ok := bd.(*ssa.Alloc); ok {
						for _, r := range *al.Referrers() {
							if st, ok := r.(*ssa.Store); ok && st.Addr == al && st.Val == ssa.Value(flag) {
								return true
							}
						}
					}
				}
			}
		}
		return false
	}
	switch x := v.(type) {
	case *ssa.FreeVar:
		return isBool(x.Type()) && isCapturedFlag(x)
	case *ssa.UnOp:
		if fv, ok := x.X.(*ssa.FreeVar); ok {
			return isCapturedFlag(fv)
		}
	}
	return false
}

// checkFanOut: R19.4.
func checkFanOut(c *Ctx, p *core.Prog) {
	fn := p.Func(backendPkg, "(*ClassifierBackend).ClassifyLicenses")
	if !c.R.Anchor(fn != nil, "backend.(*ClassifierBackend).ClassifyLicenses") {
		return
	}
	filenames := fn.Params[2]
	// (a) exactly one task is started inside the loop over filenames, with that iteration's element: a go statement
	// there, or a call of a starter helper of the package (it takes the task as a func() and runs it on a goroutine of its
	// own - the worker pool split off into a type)
	isIterFile := func(v ssa.Value) bool {
		v = core.Unspill(v)
		if ld, ok := v.(*ssa.UnOp); ok {
			if ia, ok := ld.X.(*ssa.IndexAddr); ok && ia.X == filenames && ascendingIndex(ia.Index) {
				return true
			}
			// a per-iteration copy (filename := filename): a cell that is stored the iteration's element once
			if al, ok := ld.X.(*ssa.Alloc); ok {
				n, good := 0, true
				for _, r := range *al.Referrers() {
					if st, ok := r.(*ssa.Store); ok && st.Addr == ssa.Value(al) {
						n++
						if sl, ok := core.Unspill(st.Val).(*ssa.UnOp); !ok {
							good = false
						} else if ia, ok := sl.X.(*ssa.IndexAddr); !ok || ia.X != filenames || !ascendingIndex(ia.Index) {
							good = false
						}
					}
				}
				return n == 1 && good
			}
		}
		return false
	}
	// the cell itself (a closure binds the variable, not its value)
	isIterFileCell := func(v ssa.Value) bool {
		al, ok := v.(*ssa.Alloc)
		if !ok {
			return false
		}
		n, good := 0, true
		for _, r := range *al.Referrers() {
			if st, ok := r.(*ssa.Store); ok && st.Addr == ssa.Value(al) {
				n++
				if !isIterFile(st.Val) {
					good = false
				}
			}
		}
		return n == 1 && good
	}
	var gos []*ssa.Go
	for _, b := range fn.Blocks {
		for _, in := range b.Instrs {
			if g, ok := in.(*ssa.Go); ok {
				gos = append(gos, g)
			}
		}
	}
	var spawn ssa.Instruction // the go statement (in ClassifyLicenses or in the starter helper)
	var spawnAt ssa.Instruction
	var taskFn *ssa.Function
	nSpawn := 0
	for _, g := range gos {
		if len(g.Call.Args) >= 1 && isIterFile(g.Call.Args[len(g.Call.Args)-1]) {
			nSpawn++
			spawn, spawnAt = g, g
			taskFn = eng.ResolveCallee(g.Call.Value)
		}
	}
	for _, call := range core.CallsIn(fn) {
		cv, ok := call.(*ssa.Call)
		starter := call.Common().StaticCallee()
		if !ok || starter == nil || core.FuncPkgPath(starter) != backendPkg || len(starter.Blocks) == 0 {
			continue
		}
		// an argument that is a closure binding the iteration's file
		var taskArg *ssa.MakeClosure
		argIdx := -1
		for i, a := range cv.Call.Args {
			if mc, ok := a.(*ssa.MakeClosure); ok {
				for _, bnd := range mc.Bindings {
					if isIterFile(bnd) || isIterFileCell(bnd) {
						taskArg, argIdx = mc, i
					}
				}
			}
		}
		if taskArg == nil || argIdx >= len(starter.Params) {
			continue
		}
		// the starter runs its parameter exactly once, on a goroutine it starts
		prm := starter.Params[argIdx]
		var sgo *ssa.Go
		nCalls := 0
		for _, f := range core.WithAnon(starter) {
			for _, c2 := range core.CallsIn(f) {
				v := c2.Common().Value
				if fv, ok := v.(*ssa.FreeVar); ok {
					if cell := boundCell(fv); cell == ssa.Value(prm) {
						nCalls++
					}
				}
				if v == ssa.Value(prm) {
					nCalls++
				}
				// the parameter captured by the goroutine's closure: a load of the cell it was spilled to
				if ld, ok := v.(*ssa.UnOp); ok && ld.Op == token.MUL {
					var cell ssa.Value = ld.X
					if fv, ok := ld.X.(*ssa.FreeVar); ok {
						cell = boundCell(fv)
					}
					if al, ok := cell.(*ssa.Alloc); ok {
						nSt, isPrm := 0, false
						for _, r := range *al.Referrers() {
							if st, ok := r.(*ssa.Store); ok && st.Addr == ssa.Value(al) {
								nSt++
								isPrm = st.Val == ssa.Value(prm)
							}
						}
						if nSt == 1 && isPrm {
							nCalls++
						}
					}
				}
			}
		}
		for _, b := range starter.Blocks {
			for _, in := range b.Instrs {
				if g, ok := in.(*ssa.Go); ok {
					sgo = g
				}
			}
		}
		if sgo == nil || nCalls != 1 {
			continue
		}
		nSpawn++
		spawn, spawnAt = sgo, cv
		taskFn = eng.ResolveCallee(sgo.Call.Value)
	}
	if nSpawn > 1 {
		c.R.Fail("R19.4", "ClassifyLicenses: one task per file", p.Pos(spawnAt.Pos()), "more than one task is spawned per file")
	}
	if spawn == nil {
		c.R.Fail("R19.4", "ClassifyLicenses: one task per file", p.Pos(fn.Pos()), "no `go task(filenames[i])` with i the index of the loop over filenames: some file is analysed zero or several times")
		return
	}
	c.R.OK("R19.4", "ClassifyLicenses: each iteration over filenames spawns one task with that iteration's file name", p.Pos(spawnAt.Pos()), "go analyze(filenames[i]) with i the ascending loop index (directly or through a starter helper that runs its task once on a new goroutine)")
	// token taken and wg.Add before the spawn, in the same iteration
	var recvTok, add ssa.Instruction
	for _, in := range spawn.Block().Instrs {
		if u, ok := in.(*ssa.UnOp); ok && u.Op == token.ARROW {
			recvTok = u
		}
		if call, ok := in.(*ssa.Call); ok && core.StaticCalleeName(&call.Call) == "(*sync.WaitGroup).Add" {
			add = call
		}
	}
	c.R.Check(recvTok != nil && instrBeforeI(recvTok, spawn), "R19.4", "ClassifyLicenses: a pool token is taken before each spawn", p.Pos(spawn.Pos()), "<-task precedes the go statement in the loop body", "the spawn is not preceded by taking a token: -tasks no longer bounds concurrency")
	c.R.Check(add != nil && instrBeforeI(add, spawn), "R19.4", "ClassifyLicenses: wg.Add precedes each spawn", p.Pos(spawn.Pos()), "wg.Add(1) precedes the go statement", "wg.Add is not called before the task starts: Wait can return early")
	// (b) the task returns its token in a deferred call, before wg.Done; the channel is closed only after wg.Wait
	task := taskFn
	okTok, why := false, "the task has no deferred function that returns the token"
	if task != nil {
		for _, in := range task.Blocks[0].Instrs {
			d, ok := in.(*ssa.Defer)
			if !ok {
				continue
			}
			df := eng.ResolveCallee(d.Call.Value)
			if df == nil {
				continue
			}
			var send, done ssa.Instruction
			for _, b := range df.Blocks {
				for _, di := range b.Instrs {
					if s, ok := di.(*ssa.Send); ok {
						send = s
					}
					if call, ok := di.(*ssa.Call); ok && core.StaticCalleeName(&call.Call) == "(*sync.WaitGroup).Done" {
						done = call
					}
				}
			}
			switch {
			case send == nil:
				why = "the deferred function does not return the token"
			case done == nil:
				why = "the deferred function does not call wg.Done"
			case !instrBeforeI(send, done):
				why = "the deferred function calls wg.Done() before it sends the token back: once the last task is done the waiter closes the token channel, and the send panics (send on closed channel)"
			default:
				okTok, why = true, "deferred: task <- token, then wg.Done()"
			}
		}
	}
	c.R.Check(okTok, "R19.4", "ClassifyLicenses: each task returns its token before signalling completion", p.Pos(spawn.Pos()), why, why)
	// close(task) only after wg.Wait in the same goroutine
	var closers []*ssa.Function
	for _, f := range pkgFuncs(p, backendPkg) {
		closers = append(closers, core.WithAnon(f)...)
	}
	for _, f := range closers {
		for _, b := range f.Blocks {
			for _, in := range b.Instrs {
				call, ok := in.(*ssa.Call)
				if !ok {
					continue
				}
				if bi, ok := call.Call.Value.(*ssa.Builtin); ok && bi.Name() == "close" {
					waited := false
					for _, w := range core.CallsIn(f) {
						if core.StaticCalleeName(w.Common()) == "(*sync.WaitGroup).Wait" && instrBeforeI(w, call) {
							waited = true
						}
					}
					if !waited {
						waited = calledOnlyAfterWait(p, f)
					}
					c.R.Check(waited, "R19.4", core.ShortFn(f)+": close of "+eng.Describe(call.Call.Args[0])+" follows wg.Wait", p.Pos(call.Pos()), "wg.Wait() dominates the close", "a channel is closed while tasks may still send on it")
				}
			}
		}
	}
	// (c) errs has capacity len(filenames)
	okCap := false
	isLenFiles := func(v ssa.Value) bool {
		call, ok := v.(*ssa.Call)
		if !ok {
			return false
		}
		bi, ok := call.Call.Value.(*ssa.Builtin)
		return ok && bi.Name() == "len" && call.Call.Args[0] == filenames
	}
	for _, b := range fn.Blocks {
		for _, in := range b.Instrs {
			mk, ok := in.(*ssa.MakeChan)
			if !ok || !strings.Contains(mk.Type().String(), "error") {
				continue
			}
			if isLenFiles(mk.Size) {
				okCap = true
			}
		}
	}
	// the channel may be made by a constructor of the package that is handed its capacity
	if !okCap {
		for _, call := range core.CallsIn(fn) {
			g := call.Common().StaticCallee()
			if g == nil || core.FuncPkgPath(g) != backendPkg || len(g.Blocks) == 0 {
				continue
			}
			for _, gb := range g.Blocks {
				for _, in := range gb.Instrs {
					mk, ok := in.(*ssa.MakeChan)
					if !ok || !strings.Contains(mk.Type().String(), "error") {
						continue
					}
					for k, prm := range g.Params {
						if mk.Size == ssa.Value(prm) && k < len(call.Common().Args) && isLenFiles(call.Common().Args[k]) {
							okCap = true
						}
					}
				}
			}
		}
	}
	c.R.Check(okCap, "R19.4", "ClassifyLicenses: the error channel has room for one error per file", p.Pos(fn.Pos()), "make(chan error, len(filenames))", "the error channel is smaller than the number of files: a task blocks on reporting its error while the collector waits for the channel to be closed")
}

// calledOnlyAfterWait: f is a closure that is handed as a func() argument to a helper of the package, and the helper (or
// the goroutine it starts) calls that parameter only behind a wg.Wait() of the same function.
func calledOnlyAfterWait(p *core.Prog, f *ssa.Function) bool {
	parent := f.Parent()
	if parent == nil {
		return false
	}
	n := 0
	for _, call := range core.CallsIn(parent) {
		h := call.Common().StaticCallee()
		if h == nil || core.FuncPkgPath(h) != backendPkg || len(h.Blocks) == 0 {
			continue
		}
		for i, a := range call.Common().Args {
			mc, ok := a.(*ssa.MakeClosure)
			if !ok || mc.Fn != ssa.Value(f) || i >= len(h.Params) {
				continue
			}
			prm := h.Params[i]
			okAll, calls := true, 0
			for _, g := range core.WithAnon(h) {
				for _, c2 := range core.CallsIn(g) {
					v := c2.Common().Value
					isPrm := v == ssa.Value(prm)
					if ld, ok := v.(*ssa.UnOp); ok && ld.Op == token.MUL {
						var cell ssa.Value = ld.X
						if fv, ok := ld.X.(*ssa.FreeVar); ok {
							cell = boundCell(fv)
						}
						if al, ok := cell.(*ssa.Alloc); ok {
							for _, r := range *al.Referrers() {
								if st, ok := r.(*ssa.Store); ok && st.Addr == ssa.Value(al) && st.Val == ssa.Value(prm) {
									isPrm = true
								}
							}
						}
					}
					if !isPrm {
						continue
					}
					calls++
					waited := false
					for _, w := range core.CallsIn(g) {
						if core.StaticCalleeName(w.Common()) == "(*sync.WaitGroup).Wait" && instrBeforeI(w, c2.(ssa.Instruction)) {
							waited = true
						}
					}
					if !waited {
						okAll = false
					}
				}
			}
			if calls == 0 || !okAll {
				return false
			}
			n++
		}
	}
	return n > 0
}

func isFatal(call ssa.CallInstruction) bool {
	switch core.StaticCalleeName(call.Common()) {
	case "log.Fatal", "log.Fatalf", "log.Fatalln", "os.Exit", "log.Panic", "log.Panicf":
		return true
	}
	return false
}

// checkExitStructure: R19.5.
func checkExitStructure(c *Ctx, p *core.Prog) {
	fn := p.Func(cliPkg, "main")
	if !c.R.Anchor(fn != nil, "identify_license.main") {
		return
	}
	// `func main() { if err := run(); err != nil { log.Fatal(err) } }`: the exit status is decided in run - a return of an
	// error is the fatal exit, a return of nil the normal one
	runStyle := false
	for _, call := range core.CallsIn(fn) {
		g := call.Common().StaticCallee()
		cv, isCall := call.(*ssa.Call)
		if g == nil || !isCall || core.FuncPkgPath(g) != cliPkg || len(g.Blocks) == 0 || g.Signature.Results().Len() != 1 || g.Signature.Results().At(0).Type().String() != "error" {
			continue
		}
		// its error leads to a fatal exit
		for _, r := range *cv.Referrers() {
			bo, isBo := r.(*ssa.BinOp)
			if !isBo || bo.Op != token.NEQ {
				continue
			}
			for _, u := range *bo.Referrers() {
				if ifi, isIf := u.(*ssa.If); isIf {
					for _, fc := range core.CallsIn(fn) {
						if isFatal(fc) && ifi.Block().Succs[0].Dominates(fc.Block()) {
							hasGet := false
							for _, inner := range core.CallsIn(g) {
								if inner.Common().IsInvoke() && inner.Common().Method.Name() == "GetResults" {
									hasGet = true
								}
								if ic := inner.Common().StaticCallee(); ic != nil && ic.Name() == "GetResults" {
									hasGet = true
								}
							}
							if hasGet {
								fn, runStyle = g, true
							}
						}
					}
				}
			}
		}
	}
	var getRes *ssa.Call
	isGetResults := func(call ssa.CallInstruction) bool {
		if cal := call.Common().StaticCallee(); cal != nil {
			return cal.Name() == "GetResults"
		}
		return call.Common().IsInvoke() && call.Common().Method.Name() == "GetResults"
	}
	helperEstablishes := false
	for _, call := range core.CallsIn(fn) {
		if isGetResults(call) {
			getRes, _ = call.(*ssa.Call)
		}
	}
	if getRes == nil {
		// a helper of the tool that fetches (and sorts) the results and hands them back; it may also be the one that ends
		// the program when there are none
		for _, call := range core.CallsIn(fn) {
			cal := call.Common().StaticCallee()
			if cal == nil || core.FuncPkgPath(cal) != cliPkg || len(cal.Blocks) == 0 {
				continue
			}
			for _, inner := range core.CallsIn(cal) {
				iv, isV := inner.(*ssa.Call)
				cv, ok := call.(*ssa.Call)
				if !isGetResults(inner) || !isV || !ok || !types.Identical(cv.Type(), iv.Type()) {
					continue
				}
				getRes = cv
				// does every way from the fetch to a return of the helper pass `len(results) != 0` (fatal exits apart)?
				all, nRet := true, 0
				for _, b := range cal.Blocks {
					if _, isRet := b.Instrs[len(b.Instrs)-1].(*ssa.Return); !isRet || b == cal.Recover {
						continue
					}
					nRet++
					okP, _, _ := nonEmptyOnAllPaths(cal, iv.Block(), b, iv)
					if !okP {
						all = false
					}
				}
				helperEstablishes = all && nRet > 0
			}
		}
	}
	if getRes == nil {
		c.R.Fail("R19.5", "main: results", p.Pos(fn.Pos()), "no call of GetResults")
		return
	}
	fatalBlock := map[*ssa.BasicBlock]bool{}
	for _, call := range core.CallsIn(fn) {
		if isFatal(call) {
			fatalBlock[call.Block()] = true
		}
	}
	// with a deferred call in the function the result is spilled: the value returned is the one stored last into the result
	// cell in the same block
	retVal := func(b *ssa.BasicBlock) ssa.Value {
		ret, ok := b.Instrs[len(b.Instrs)-1].(*ssa.Return)
		if !ok || len(ret.Results) != 1 {
			return nil
		}
		v := ret.Results[0]
		if ld, isLd := v.(*ssa.UnOp); isLd && ld.Op == token.MUL {
			if al, isAl := ld.X.(*ssa.Alloc); isAl {
				var last ssa.Value
				for _, in := range b.Instrs {
					if in == ssa.Instruction(ld) {
						break
					}
					if st, isSt := in.(*ssa.Store); isSt && st.Addr == ssa.Value(al) {
						last = st.Val
					}
				}
				if last != nil {
					return last
				}
			}
		}
		return v
	}
	errReturn := func(b *ssa.BasicBlock) bool {
		v := retVal(b)
		if v == nil || !runStyle {
			return false
		}
		cst, isC := v.(*ssa.Const)
		return !isC || !cst.IsNil()
	}
	if runStyle {
		for _, b := range fn.Blocks {
			if errReturn(b) {
				// a return of something that may be an error ends the program with a non-zero status - unless it is the
				// value of a call that is itself the last thing done (`return writeJSON(res)`): then the guard rule below
				// looks at that call
				fatalBlock[b] = true
			}
		}
	}
	// the return block(s) of normal termination
	n := 0
	for _, b := range fn.Blocks {
		if _, ok := b.Instrs[len(b.Instrs)-1].(*ssa.Return); !ok || b == fn.Recover {
			continue
		}
		if errReturn(b) {
			if runStyle {
				rc, isCall := retVal(b).(*ssa.Call)
				if !isCall {
					continue
				}
				if g := rc.Call.StaticCallee(); g == nil || core.FuncPkgPath(g) != cliPkg {
					continue // errors.New(...), fmt.Errorf(...): an error, hence a fatal exit
				}
				// `return f(res)`: status 0 iff f returns nil - counts as a normal return behind the results test
				delete(fatalBlock, b)
			}
		}
		if !getRes.Block().Dominates(b) {
			continue
		}
		n++
		paths, ok := eng.EnumPaths(getRes.Block(), b, func(x *ssa.BasicBlock) bool { return fatalBlock[x] }, 5000)
		if !ok {
			c.R.Undecided("R19.5", "main: exit status", p.Pos(getRes.Pos()), "too many paths")
			continue
		}
		// every fatal-free path to the return must contain (len(results) == 0) = false
		bad := ""
		for _, pth := range paths {
			has := false
			for _, l := range pth.Lits {
				if bo, ok := l.Cond.(*ssa.BinOp); ok && bo.Op == token.EQL {
					if k, ok := core.ConstInt(bo.Y); ok && k == 0 {
						if ln, ok := bo.X.(*ssa.Call); ok {
							if bi, ok := ln.Call.Value.(*ssa.Builtin); ok && bi.Name() == "len" && ln.Call.Args[0] == getRes && !l.Truth {
								has = true
							}
						}
					}
				}
				if bo, ok := l.Cond.(*ssa.BinOp); ok && (bo.Op == token.GTR || bo.Op == token.NEQ) && l.Truth {
					if k, ok := core.ConstInt(bo.Y); ok && k == 0 {
						if ln, ok := bo.X.(*ssa.Call); ok {
							if bi, ok := ln.Call.Value.(*ssa.Builtin); ok && bi.Name() == "len" && ln.Call.Args[0] == getRes {
								has = true
							}
						}
					}
				}
			}
			if !has && !helperEstablishes {
				var ls []string
				for _, l := range pth.Lits {
					ls = append(ls, fmt.Sprintf("%s=%v", core.AP(l.Cond), l.Truth))
				}
				bad = "a path reaches the normal return (exit status 0) without passing a fatal exit although nothing establishes len(results) != 0: [" + strings.Join(ls, " ") + "]"
				break
			}
		}
		c.R.Check(bad == "", "R19.5", "main: exit status 0 is reachable only when at least one result exists", p.Pos(getRes.Pos()), fmt.Sprintf("%d fatal-free paths from GetResults to the return, all under len(results) != 0", len(paths)), bad)
	}
	c.R.RequireMin("R19.5", "normal return blocks after GetResults", n, 1)
	// any fatal exit after the results test is guarded by the JSON writer's error
	for _, call := range core.CallsIn(fn) {
		if !isFatal(call) || !getRes.Block().Dominates(call.Block()) {
			continue
		}
		guardedEmpty, guardedJSON := false, false
		for _, f := range core.FactsAtInstr(call) {
			cmp, ok := f.AsCmp()
			if !ok {
				continue
			}
			if k, isK := core.ConstInt(cmp.Y); isK && k == 0 && cmp.Op == token.EQL {
				guardedEmpty = true
			}
			if cmp.Op == token.NEQ {
				if e, ok := cmp.X.(*ssa.Call); ok {
					if ec := e.Call.StaticCallee(); ec != nil && core.FuncPkgPath(ec) == cliPkg && e.Type().String() == "error" {
						guardedJSON = true
					}
				}
			}
		}
		c.R.Check(guardedEmpty || guardedJSON, "R19.5", "main: fatal exit after classification is guarded by `no results` or by the JSON writer's error", p.Pos(call.Pos()), "guard found", "a fatal exit (non-zero status) can happen although licenses were reported and written")
	}
}

// checkLineReader: R19.6.
func checkLineReader(c *Ctx, p *core.Prog) {
	fn := p.Func(resultsPkg, "readFileLines")
	if !c.R.Anchor(fn != nil, "results.readFileLines") {
		return
	}
	// the loop that scans the lines may live in a helper of readFileLines (handed the reader and the two line numbers),
	// and the scanner may be made - and its limit raised - by a constructor of the package
	for _, call := range core.CallsIn(fn) {
		h := call.Common().StaticCallee()
		if h == nil || core.FuncPkgPath(h) != resultsPkg || len(h.Blocks) == 0 {
			continue
		}
		for _, inner := range core.CallsIn(h) {
			if core.StaticCalleeName(inner.Common()) == "(*bufio.Scanner).Scan" {
				ints := 0
				for _, prm := range h.Params {
					if bt, ok := prm.Type().Underlying().(*types.Basic); ok && bt.Kind() == types.Int {
						ints++
					}
				}
				if ints == 2 && len(h.Params) == 3 {
					fn = h
				}
			}
		}
	}
	var scanner *ssa.Call
	var scanCall, bufCall ssa.CallInstruction
	for _, call := range core.CallsIn(fn) {
		switch core.StaticCalleeName(call.Common()) {
		case "bufio.NewScanner":
			scanner, _ = call.(*ssa.Call)
		case "(*bufio.Scanner).Scan":
			scanCall = call
		case "(*bufio.Scanner).Buffer":
			bufCall = call
		}
	}
	ctorBuffered := int64(-1)
	if scanner == nil && scanCall != nil {
		// scanner := newLineScanner(r): a constructor that makes the scanner and raises its limit before handing it out
		if mk, ok := scanCall.Common().Args[0].(*ssa.Call); ok {
			if g := mk.Call.StaticCallee(); g != nil && core.FuncPkgPath(g) == resultsPkg && len(g.Blocks) > 0 {
				var gs *ssa.Call
				var gb ssa.CallInstruction
				for _, gc := range core.CallsIn(g) {
					switch core.StaticCalleeName(gc.Common()) {
					case "bufio.NewScanner":
						gs, _ = gc.(*ssa.Call)
					case "(*bufio.Scanner).Buffer":
						gb = gc
					}
				}
				if gs != nil {
					scanner = mk
					ctorBuffered = 0
					if gb != nil && gb.Common().Args[0] == ssa.Value(gs) {
						if k, isK := core.ConstInt(gb.Common().Args[2]); isK {
							ctorBuffered = k
						}
					}
				}
			}
		}
	}
	if scanner == nil || scanCall == nil {
		// an unbounded reader (bufio.Reader.ReadString etc.) is fine
		c.R.OK("R19.6", "readFileLines: no token-limited scanner is used", p.Pos(fn.Pos()), "no bufio.Scanner in readFileLines")
	} else {
		ok, why := false, "the scanner keeps bufio's default 64 KiB token limit: a file with a longer line cannot be re-read, the JSON output is not written and the tool exits non-zero after printing matches"
		if ctorBuffered >= 1<<31-1 {
			ok, why = true, fmt.Sprintf("the constructor of the scanner calls Buffer(_, %d) before it hands the scanner out", ctorBuffered)
		} else if ctorBuffered > 0 {
			why = fmt.Sprintf("the scanner's limit is raised only to %d bytes: longer lines still make the re-read fail", ctorBuffered)
		} else if bufCall != nil && bufCall.Common().Args[0] == scanner && instrBeforeI(bufCall, scanCall) {
			if k, isK := core.ConstInt(bufCall.Common().Args[2]); isK {
				if k >= 1<<31-1 {
					ok, why = true, fmt.Sprintf("scanner.Buffer(_, %d) before the first Scan", k)
				} else {
					why = fmt.Sprintf("the scanner's limit is raised only to %d bytes: longer lines still make the re-read fail", k)
				}
			} else {
				why = "the scanner's limit is not a constant"
			}
		}
		c.R.Check(ok, "R19.6", "readFileLines: the scanner's token limit is raised to at least MaxInt32 before scanning", p.Pos(scanner.Pos()), why, why)
	}
	// the accumulate site: where the scanned line (scanner.Text()) is consumed
	var acc ssa.Instruction
	for _, call := range core.CallsIn(fn) {
		if core.StaticCalleeName(call.Common()) == "(*bufio.Scanner).Text" || core.StaticCalleeName(call.Common()) == "(*bufio.Scanner).Bytes" {
			acc = call
		}
	}
	if acc == nil || scanCall == nil {
		c.R.Undecided("R19.6", "readFileLines: accumulate statement", p.Pos(fn.Pos()), "cannot locate the statement that takes the scanned line")
		return
	}
	header := scanCall.Block()
	paths, ok := eng.EnumPaths(header, acc.Block(), func(b *ssa.BasicBlock) bool { return !header.Dominates(b) }, 200)
	if !ok || len(paths) == 0 {
		c.R.Undecided("R19.6", "readFileLines: accumulate condition", p.Pos(acc.Pos()), "cannot enumerate the paths to the accumulate statement")
		return
	}
	// atoms: 0: i < startLine   1: i > endLine ; i must be counter+1 per Scan
	start, end := fn.Params[1], fn.Params[2]
	var counter ssa.Value
	unknown := ""
	atom := func(v ssa.Value) int {
		if call, ok := v.(*ssa.Call); ok && call == scanCall.(*ssa.Call) {
			return -1
		}
		bo, ok := v.(*ssa.BinOp)
		if !ok {
			unknown = v.String()
			return -1
		}
		// normalise to `i OP bound`
		op, x, y := bo.Op, bo.X, bo.Y
		if x == ssa.Value(start) || x == ssa.Value(end) {
			x, y = y, x
			switch op {
			case token.LSS:
				op = token.GTR
			case token.GTR:
				op = token.LSS
			case token.LEQ:
				op = token.GEQ
			case token.GEQ:
				op = token.LEQ
			}
		}
		if counter != nil && counter != x {
			unknown = v.String()
			return -1
		}
		switch {
		case op == token.LSS && y == ssa.Value(start): // i < startLine
			counter = x
			return 0
		case op == token.GEQ && y == ssa.Value(start): // i >= startLine  ==  !(i < startLine)
			counter = x
			return -2
		case op == token.GTR && y == ssa.Value(end): // i > endLine
			counter = x
			return 1
		case op == token.LEQ && y == ssa.Value(end): // i <= endLine  ==  !(i > endLine)
			counter = x
			return -3
		}
		unknown = v.String()
		return -1
	}
	good, detail := true, ""
	for a := 0; a < 4; a++ {
		assign := []bool{a&1 != 0, a&2 != 0}
		got := eng.PathsSatisfiable(paths, atom, assign)
		want := !assign[0] && !assign[1]
		if got != want {
			good = false
			detail = fmt.Sprintf("with i<startLine=%v, i>endLine=%v the line is accumulated=%v, expected %v", assign[0], assign[1], got, want)
		}
	}
	if unknown != "" {
		c.R.Undecided("R19.6", "readFileLines: a line is accumulated iff startLine <= i <= endLine", p.Pos(acc.Pos()), "unrecognised condition on the path: "+unknown)
		return
	}
	c.R.Check(good, "R19.6", "readFileLines: a line is accumulated iff startLine <= i <= endLine", p.Pos(acc.Pos()), fmt.Sprintf("%d path(s); truth table over (i<startLine, i>endLine) matches", len(paths)), detail)
	// the counter is phi+1 with the phi starting at 0, incremented exactly once per Scan
	okCnt := false
	if bo, ok := counter.(*ssa.BinOp); ok && bo.Op == token.ADD {
		if k, isK := core.ConstInt(bo.Y); isK && k == 1 {
			if phi, isPhi := bo.X.(*ssa.Phi); isPhi && phi.Block() == header {
				okCnt = true
				for _, e := range phi.Edges {
					if e == bo {
						continue
					}
					if k0, isK0 := core.ConstInt(e); !isK0 || k0 != 0 {
						okCnt = false
					}
				}
			}
		}
	}
	c.R.Check(okCnt, "R19.6", "readFileLines: the line counter starts at 0 and is incremented exactly once per scanned line", p.Pos(acc.Pos()), "i = phi(0, i+1) at the Scan loop header, compared after the increment", "the counter compared with startLine/endLine is not `number of lines scanned so far`")
	// the scanned line is followed by exactly one newline: "\n" concatenated or written in the same block
	okText := false
	for _, in := range acc.Block().Instrs {
		switch x := in.(type) {
		case *ssa.BinOp:
			if sv, isS := core.ConstString(x.Y); isS && sv == "\n" && x.Op == token.ADD && x.X == acc.(ssa.Value) {
				okText = true
			}
		case *ssa.Call:
			n := core.StaticCalleeName(&x.Call)
			if strings.HasSuffix(n, ").WriteString") && len(x.Call.Args) == 2 {
				if sv, isS := core.ConstString(x.Call.Args[1]); isS && sv == "\n" {
					okText = true
				}
			}
			if (strings.HasSuffix(n, ").WriteByte") || strings.HasSuffix(n, ").WriteRune")) && len(x.Call.Args) == 2 {
				if k, isK := core.ConstInt(x.Call.Args[1]); isK && k == '\n' {
					okText = true
				}
			}
		}
	}
	c.R.Check(okText, "R19.6", "readFileLines: the accumulated text is the scanned line plus a newline", p.Pos(acc.Pos()), "scanner.Text() followed by \"\\n\"", "the scanned line is not followed by a newline in the accumulated text")
}

// isFileContents: v is the first result of os.ReadFile/ioutil.ReadFile(filename) of classifyLicense's
// filename parameter, possibly passed through a closure parameter or captured variable.
func isFileContents(v ssa.Value, cl *ssa.Function, depth int) (bool, string) {
	if depth > 4 {
		return false, "cannot trace where the matched bytes come from"
	}
	v = core.Unspill(v)
	switch x := v.(type) {
	case *ssa.Extract:
		if call, ok := x.Tuple.(*ssa.Call); ok && x.Index == 0 {
			n := core.StaticCalleeName(&call.Call)
			if n == "os.ReadFile" || n == "io/ioutil.ReadFile" {
				if fv := core.Unspill(call.Call.Args[0]); isFilenameOf(fv, cl) {
					return true, "contents, err := ReadFile(filename); Match(contents)"
				}
				return false, "the file read is not the file being classified"
			}
		}
	case *ssa.Parameter:
		// parameter of a closure/helper: every call site passes the contents
		fn := x.Parent()
		idx := -1
		for i, q := range fn.Params {
			if q == x {
				idx = i
			}
		}
		n := 0
		for _, g := range core.WithAnon(cl) {
			for _, call := range core.CallsIn(g) {
				if eng.ResolveCallee(call.Common().Value) == fn && idx < len(call.Common().Args) {
					n++
					if ok, why := isFileContents(call.Common().Args[idx], cl, depth+1); !ok {
						return false, why
					}
				}
			}
		}
		if n > 0 {
			return true, "contents, err := ReadFile(filename); passed unchanged to the matching helper"
		}
	case *ssa.FreeVar:
		// captured variable: find the binding in the parent
		f := x.Parent()
		for i, fv := range f.FreeVars {
			if fv != x || f.Parent() == nil {
				continue
			}
			for _, b := range f.Parent().Blocks {
				for _, in := range b.Instrs {
					if mc, ok := in.(*ssa.MakeClosure); ok && mc.Fn == ssa.Value(f) && i < len(mc.Bindings) {
						return isFileContents(mc.Bindings[i], cl, depth+1)
					}
				}
			}
		}
	case *ssa.UnOp:
		if fv, ok := x.X.(*ssa.FreeVar); ok {
			return isFileContents(fv, cl, depth+1)
		}
		if al, ok := x.X.(*ssa.Alloc); ok {
			// a captured local: its single store
			var src ssa.Value
			nst := 0
			for _, r := range *al.Referrers() {
				if st, ok := r.(*ssa.Store); ok && st.Addr == ssa.Value(al) {
					nst++
					src = st.Val
				}
			}
			if nst == 1 {
				return isFileContents(src, cl, depth+1)
			}
		}
	case *ssa.Alloc:
		var src ssa.Value
		nst := 0
		for _, r := range *x.Referrers() {
			if st, ok := r.(*ssa.Store); ok && st.Addr == ssa.Value(x) {
				nst++
				src = st.Val
			}
		}
		if nst == 1 {
			return isFileContents(src, cl, depth+1)
		}
	}
	return false, "the bytes handed to Match are not the result of ReadFile(filename) of this call (" + eng.Describe(v) + "): bytes from elsewhere (a reused buffer, another file) would be classified under this file's name"
}

// checkToolOutputRules: three rules on how the tool produces its output.
// R19.13 what is printed reaches the terminal whichever way the tool ends: a Flush that is only deferred does not run when
// the function goes on to log.Fatal / os.Exit, so a buffered writer over the standard output loses the lines printed.
// R19.14 the Text of a classification is read from that classification's own file: every source of the value stored into
// a Text field is a call that is handed the classification's file name, or a table looked up with a key that includes it.
// R19.15 a pattern that is anchored by concatenation ("^" + p + "$") is grouped first: without the group an alternation in
// p takes the anchors to its outer alternatives only, and names that merely begin or end like one of them match.
func checkToolOutputRules(c *Ctx, p *core.Prog) {
	pkgs := []string{cliPkg, backendPkg, resultsPkg}
	var fns []*ssa.Function
	for _, pk := range pkgs {
		fns = append(fns, pkgFuncs(p, pk)...)
	}
	// ---- R19.13 ----
	nExit := 0
	for _, fn := range fns {
		var exits []ssa.CallInstruction
		for _, call := range core.CallsIn(fn) {
			n := core.StaticCalleeName(call.Common())
			if isFatal(call) || n == "os.Exit" {
				exits = append(exits, call)
			}
		}
		nExit += len(exits)
		for _, b := range fn.Blocks {
			for i, in := range b.Instrs {
				df, ok := in.(*ssa.Defer)
				if !ok {
					continue
				}
				cal := df.Call.StaticCallee()
				if cal == nil || cal.Name() != "Flush" {
					continue
				}
				bad := ""
				for _, ex := range exits {
					if ex.Block() == b {
						for _, later := range b.Instrs[i+1:] {
							if later == ssa.Instruction(ex) {
								bad = p.Pos(ex.Pos())
							}
						}
					} else if reaches(b, ex.Block()) {
						bad = p.Pos(ex.Pos())
					}
				}
				c.R.Check(bad == "", "R19.13", core.ShortFn(fn)+": a deferred Flush is not followed by an exit that skips it", p.Pos(df.Pos()), "no log.Fatal / os.Exit behind the defer",
					"the Flush of "+core.TypeName(df.Call.Args[0].Type())+" is deferred, and the function can go on to end the process at "+bad+": deferred calls do not run then, and what was written to the buffer is never printed")
			}
		}
	}
	c.R.Count("R19.13:process exits in the tool", nExit)
	c.R.OK("R19.13", "the tool's functions: no deferred Flush in front of a process exit", cliPkg, fmt.Sprintf("%d calls of log.Fatal*/os.Exit examined", nExit))
	c.R.RequireMin("R19.13", "calls that end the process in the tool", nExit, 1)

	// ---- R19.14 ----
	var depFile func(v ssa.Value, seen map[ssa.Value]bool) bool
	depFile = func(v ssa.Value, seen map[ssa.Value]bool) bool {
		if v == nil || seen[v] {
			return false
		}
		seen[v] = true
		if fa, ok := v.(*ssa.FieldAddr); ok && core.FieldName(fa) == "Filename" {
			return true
		}
		if fl, ok := v.(*ssa.Field); ok {
			if st, isSt := fl.X.Type().Underlying().(*types.Struct); isSt && st.Field(fl.Field).Name() == "Filename" {
				return true
			}
		}
		if ld, ok := v.(*ssa.UnOp); ok && ld.Op == token.MUL {
			if al, isAl := ld.X.(*ssa.Alloc); isAl && al.Referrers() != nil {
				// a local struct (a composite key): what was stored into it and into its fields
				for _, r := range *al.Referrers() {
					switch x := r.(type) {
					case *ssa.Store:
						if x.Addr == ssa.Value(al) && depFile(x.Val, seen) {
							return true
						}
					case *ssa.FieldAddr:
						if x.Referrers() != nil {
							for _, r2 := range *x.Referrers() {
								if st, isSt := r2.(*ssa.Store); isSt && st.Addr == ssa.Value(x) && depFile(st.Val, seen) {
									return true
								}
							}
						}
					}
				}
			}
		}
		in, ok := v.(ssa.Instruction)
		if !ok {
			return false
		}
		for _, op := range in.Operands(nil) {
			if *op != nil && depFile(*op, seen) {
				return true
			}
		}
		return false
	}
	nText := 0
	for _, fn := range pkgFuncs(p, resultsPkg) {
		for _, b := range fn.Blocks {
			for _, in := range b.Instrs {
				st, ok := in.(*ssa.Store)
				if !ok {
					continue
				}
				fa, ok := st.Addr.(*ssa.FieldAddr)
				if !ok || core.FieldName(fa) != "Text" || !strings.HasSuffix(core.TypeName(fa.X.Type()), "results.Classification") {
					continue
				}
				nText++
				bad := ""
				seen := map[ssa.Value]bool{}
				var walk func(v ssa.Value)
				walk = func(v ssa.Value) {
					if seen[v] {
						return
					}
					seen[v] = true
					switch x := v.(type) {
					case *ssa.Phi:
						for _, e := range x.Edges {
							walk(e)
						}
					case *ssa.Const:
					case *ssa.Extract:
						walk(x.Tuple)
					case *ssa.Call:
						okArg := false
						for _, a := range x.Call.Args {
							if depFile(a, map[ssa.Value]bool{}) {
								okArg = true
							}
						}
						if !okArg {
							bad = "a call that is not handed the file name (" + p.Pos(x.Pos()) + ")"
						}
					case *ssa.Lookup:
						if !depFile(x.Index, map[ssa.Value]bool{}) {
							bad = "a table looked up with a key that does not include the file name (" + p.Pos(x.Pos()) + ")"
						}
					default:
						bad = "a value of another origin (" + p.Pos(v.Pos()) + ")"
					}
				}
				walk(st.Val)
				c.R.Check(bad == "", "R19.14", core.ShortFn(fn)+": the Text of a classification is read from its own file", p.Pos(st.Pos()), "every source is handed the classification's file name",
					"the text stored comes from "+bad+": a classification of another file with the same line range gets this text")
			}
		}
	}
	c.R.RequireMin("R19.14", "stores into Classification.Text", nText, 1)

	// ---- R19.15 ----
	nRe := 0
	for _, fn := range fns {
		for _, call := range core.CallsIn(fn) {
			n := core.StaticCalleeName(call.Common())
			if n != "regexp.Compile" && n != "regexp.MustCompile" && n != "regexp.CompilePOSIX" && n != "regexp.MustCompilePOSIX" {
				continue
			}
			nRe++
			var parts []ssa.Value
			var flat func(v ssa.Value)
			flat = func(v ssa.Value) {
				if b, ok := v.(*ssa.BinOp); ok && b.Op == token.ADD {
					flat(b.X)
					flat(b.Y)
					return
				}
				parts = append(parts, v)
			}
			flat(call.Common().Args[0])
			bad := false
			for i, pt := range parts {
				if _, isC := pt.(*ssa.Const); isC {
					continue
				}
				before, after := "", ""
				if i > 0 {
					before, _ = core.ConstString(parts[i-1])
				}
				if i+1 < len(parts) {
					after, _ = core.ConstString(parts[i+1])
				}
				anchored := strings.HasSuffix(before, "^") || strings.HasPrefix(after, "$") || strings.HasSuffix(before, `\A`) || strings.HasPrefix(after, `\z`)
				grouped := strings.HasSuffix(before, "(") || strings.HasSuffix(before, "(?:")
				if anchored && !(grouped && strings.HasPrefix(after, ")")) {
					bad = true
				}
			}
			c.R.Check(!bad, "R19.15", core.ShortFn(fn)+": a pattern given by the user is anchored only inside a group", p.Pos(call.Pos()), "not anchored by concatenation, or grouped",
				"the pattern is built as \"^\" + p + \"$\" without a group around p: for p = a|b the anchors bind to a and to b separately (^a | b$), so paths that only begin like a or end like b are matched as well")
		}
	}
	c.R.RequireMin("R19.15", "regular expressions compiled by the tool", nRe, 1)
}

// nonEmptyOnAllPaths: every way from block `from` to block `to` that passes no fatal exit takes a branch that says
// len(res) != 0.
func nonEmptyOnAllPaths(fn *ssa.Function, from, to *ssa.BasicBlock, res ssa.Value) (bool, int, string) {
	fatalBlock := map[*ssa.BasicBlock]bool{}
	for _, call := range core.CallsIn(fn) {
		if isFatal(call) {
			fatalBlock[call.Block()] = true
		}
	}
	paths, ok := eng.EnumPaths(from, to, func(x *ssa.BasicBlock) bool { return fatalBlock[x] }, 5000)
	if !ok {
		return false, 0, "too many paths"
	}
	for _, pth := range paths {
		has := false
		for _, l := range pth.Lits {
			bo, ok := l.Cond.(*ssa.BinOp)
			if !ok {
				continue
			}
			k, isK := core.ConstInt(bo.Y)
			ln, isLen := bo.X.(*ssa.Call)
			if !isK || k != 0 || !isLen {
				continue
			}
			bi, isB := ln.Call.Value.(*ssa.Builtin)
			if !isB || bi.Name() != "len" || ln.Call.Args[0] != res {
				continue
			}
			if (bo.Op == token.EQL && !l.Truth) || ((bo.Op == token.GTR || bo.Op == token.NEQ) && l.Truth) {
				has = true
			}
		}
		if !has {
			var ls []string
			for _, l := range pth.Lits {
				ls = append(ls, fmt.Sprintf("%s=%v", core.AP(l.Cond), l.Truth))
			}
			return false, len(paths), "[" + strings.Join(ls, " ") + "]"
		}
	}
	return true, len(paths), ""
}

// checkEveryFileMatchedAndPrinted: two rules on "prints, for each file, exactly the matches Match returns".
// R19.17 every file that could be read is matched: in the backend the call of the library's Match stands behind tests of
// errors only - not behind a judgement on the contents (binary, too large, wrong encoding).
// R19.16 what is printed is the list of results itself: the loop that prints ranges over what GetResults returned (sorted
// in place), not over a list that another function made of it (de-duplicated, filtered, capped).
func checkEveryFileMatchedAndPrinted(c *Ctx, p *core.Prog) {
	isErrTest := func(cond ssa.Value) bool {
		bo, ok := cond.(*ssa.BinOp)
		if !ok || (bo.Op != token.EQL && bo.Op != token.NEQ) {
			return false
		}
		for _, pair := range [][2]ssa.Value{{bo.X, bo.Y}, {bo.Y, bo.X}} {
			if cst, isC := pair[1].(*ssa.Const); isC && cst.IsNil() && pair[0].Type().String() == "error" {
				return true
			}
		}
		return false
	}
	nM := 0
	for _, f := range pkgFuncs(p, backendPkg) {
		for _, ff := range core.WithAnon(f) {
			if ff != f && ff.Parent() != f {
				continue
			}
			cdeps := core.NewPostDom(ff).TransitiveControlDeps()
			heads := map[*ssa.BasicBlock]bool{}
			for _, rl := range rangeLoopsOf(ff) {
				heads[rl.header] = true
			}
			for _, call := range core.CallsIn(ff) {
				n := core.StaticCalleeName(call.Common())
				if !strings.HasSuffix(n, "/v2.Classifier).Match") && !strings.HasSuffix(n, "/v2.Classifier).MatchFrom") {
					continue
				}
				nM++
				bad := ""
				for d := range cdeps[call.Block()] {
					if heads[d] {
						continue
					}
					ifi, ok := d.Instrs[len(d.Instrs)-1].(*ssa.If)
					if ok && !isErrTest(ifi.Cond) {
						bad = p.Pos(ifi.Cond.Pos())
					}
				}
				// Match inside a function literal: where the enclosing function calls that literal counts as well
				if par := ff.Parent(); par != nil && bad == "" {
					pdeps := core.NewPostDom(par).TransitiveControlDeps()
					pheads := map[*ssa.BasicBlock]bool{}
					for _, rl := range rangeLoopsOf(par) {
						pheads[rl.header] = true
					}
					for _, pc := range core.CallsIn(par) {
						if eng.ResolveCallee(pc.Common().Value) != ff {
							continue
						}
						for d := range pdeps[pc.Block()] {
							if pheads[d] {
								continue
							}
							ifi, ok := d.Instrs[len(d.Instrs)-1].(*ssa.If)
							if ok && !isErrTest(ifi.Cond) {
								bad = p.Pos(ifi.Cond.Pos())
							}
						}
					}
				}
				c.R.Check(bad == "", "R19.17", core.ShortFn(ff)+": the library's Match is called for every file that could be read", p.Pos(call.Pos()), "behind error tests only",
					"whether a file is matched at all depends on a test that is not an error test (at "+bad+"): files the test rejects are silently not reported, although Match may find a license in them")
			}
		}
	}
	c.R.RequireMin("R19.17", "calls of the library's Match in the backend", nM, 1)

	// R19.16
	mainFn := p.Func(cliPkg, "main")
	if mainFn == nil {
		return
	}
	isGetResults := func(call ssa.CallInstruction) bool {
		if cal := call.Common().StaticCallee(); cal != nil {
			return cal.Name() == "GetResults"
		}
		return call.Common().IsInvoke() && call.Common().Method.Name() == "GetResults"
	}
	var isResults func(v ssa.Value, depth int) bool
	isResults = func(v ssa.Value, depth int) bool {
		v = core.Unspill(v)
		switch x := v.(type) {
		case *ssa.Call:
			if isGetResults(x) {
				return true
			}
			// a helper of the tool that fetches the results itself and hands them back
			g := x.Call.StaticCallee()
			if g == nil || core.FuncPkgPath(g) != cliPkg || depth > 2 {
				return false
			}
			var got ssa.Value
			for _, inner := range core.CallsIn(g) {
				if isGetResults(inner) {
					got = inner.Value()
				}
			}
			if got == nil {
				return false
			}
			for _, b := range g.Blocks {
				if ret, ok := b.Instrs[len(b.Instrs)-1].(*ssa.Return); ok && b != g.Recover {
					if len(ret.Results) == 0 || core.Unspill(ret.Results[0]) != got {
						return false
					}
				}
			}
			return true
		case *ssa.Parameter:
			fn := x.Parent()
			idx := -1
			for k, q := range fn.Params {
				if q == x {
					idx = k
				}
			}
			sites, escapes := eng.CallSitesOf(fn)
			if idx < 0 || escapes || len(sites) == 0 || depth > 2 {
				return false
			}
			for _, cs := range sites {
				if idx >= len(cs.Common().Args) || !isResults(cs.Common().Args[idx], depth+1) {
					return false
				}
			}
			return true
		case *ssa.Phi:
			for _, e := range x.Edges {
				if !isResults(e, depth+1) {
					return false
				}
			}
			return len(x.Edges) > 0
		}
		return false
	}
	nP := 0
	for _, f := range pkgClosure(mainFn, cliPkg) {
		for _, rl := range rangeLoopsOf(f) {
			if !strings.HasSuffix(core.TypeName(rl.over.Type()), "/results.LicenseTypes") {
				continue
			}
			loop := naturalLoop(rl.header)
			prints := false
			for _, b := range f.Blocks {
				if !loop[b] {
					continue
				}
				for _, in := range b.Instrs {
					if call, ok := in.(*ssa.Call); ok {
						if n := core.StaticCalleeName(&call.Call); n == "fmt.Printf" || n == "fmt.Println" || n == "fmt.Fprintf" || n == "fmt.Print" || n == "fmt.Fprintln" {
							prints = true
						}
					}
				}
			}
			if !prints {
				continue
			}
			nP++
			c.R.Check(isResults(rl.over, 0), "R19.16", core.ShortFn(f)+": the loop that prints ranges over the results as the backend returned them", p.Pos(rl.header.Instrs[0].Pos()), "the ranged list is what GetResults returned",
				"the list that is printed is not the list GetResults returned but something another function made of it: matches that function leaves out (repeated names, say) are not printed although Match returned them")
		}
	}
	c.R.RequireMin("R19.16", "loops that print the results", nP, 1)
}

// checkTimeoutAndLibraryState: R19.18, R19.19.
func checkTimeoutAndLibraryState(c *Ctx, p *core.Prog) {
	var fns []*ssa.Function
	for _, pk := range []string{cliPkg, backendPkg, resultsPkg} {
		fns = append(fns, pkgFuncs(p, pk)...)
	}
	// R19.18: a run that is cut short is a failed run. Where a function of the tool waits on `<-ctx.Done()` in a select, the
	// branch taken when the context expires hands ctx.Err() to its caller (in the returned error / error list): otherwise the
	// tool prints the files classified so far and exits 0 although it did not look at every file.
	nSel := 0
	for _, fn := range fns {
		for _, b := range fn.Blocks {
			for _, in := range b.Instrs {
				sel, ok := in.(*ssa.Select)
				if !ok {
					continue
				}
				for k, st := range sel.States {
					call, isCall := st.Chan.(*ssa.Call)
					if !isCall || !call.Call.IsInvoke() || call.Call.Method.Name() != "Done" || !strings.HasSuffix(call.Call.Value.Type().String(), "context.Context") {
						continue
					}
					nSel++
					ctxV := call.Call.Value
					// the block of this case
					var body *ssa.BasicBlock
					for _, r := range *sel.Referrers() {
						ex, isEx := r.(*ssa.Extract)
						if !isEx || ex.Index != 0 {
							continue
						}
						for _, r2 := range *ex.Referrers() {
							bo, isBo := r2.(*ssa.BinOp)
							if !isBo || bo.Op != token.EQL {
								continue
							}
							if kk, isK := core.ConstInt(bo.Y); !isK || int(kk) != k {
								continue
							}
							for _, r3 := range *bo.Referrers() {
								if ifi, isIf := r3.(*ssa.If); isIf {
									body = ifi.Block().Succs[0]
								}
							}
						}
					}
					key := core.ShortFn(fn) + ": the branch taken when the context expires reports ctx.Err() to the caller"
					if body == nil {
						c.R.Undecided("R19.18", key, p.Pos(sel.Pos()), "the branch of the select case could not be located")
						continue
					}
					// values derived from ctx.Err() inside the branch
					derived := map[ssa.Value]bool{}
					for _, bb := range fn.Blocks {
						if !body.Dominates(bb) {
							continue
						}
						for _, i2 := range bb.Instrs {
							if ec, ok := i2.(*ssa.Call); ok && ec.Call.IsInvoke() && ec.Call.Method.Name() == "Err" && ec.Call.Value == ctxV {
								derived[ec] = true
							}
						}
					}
					for changed := true; changed; {
						changed = false
						mark := func(v ssa.Value) {
							if v != nil && !derived[v] {
								derived[v] = true
								changed = true
							}
						}
						for _, bb := range fn.Blocks {
							for _, i2 := range bb.Instrs {
								switch x := i2.(type) {
								case *ssa.Store:
									if derived[x.Val] {
										switch a := x.Addr.(type) {
										case *ssa.Alloc:
											mark(a)
										case *ssa.IndexAddr:
											mark(a.X)
										}
									}
								case *ssa.UnOp:
									if x.Op == token.MUL && derived[x.X] && body.Dominates(bb) {
										mark(x)
									}
								case *ssa.Slice:
									if derived[x.X] {
										mark(x)
									}
								case *ssa.MakeInterface:
									if derived[x.X] {
										mark(x)
									}
								case *ssa.ChangeInterface:
									if derived[x.X] {
										mark(x)
									}
								case *ssa.Phi:
									for _, e := range x.Edges {
										if derived[e] {
											mark(x)
										}
									}
								case *ssa.Call:
									if bi, ok := x.Call.Value.(*ssa.Builtin); ok && bi.Name() == "append" {
										for _, a := range x.Call.Args {
											if derived[a] {
												mark(x)
											}
										}
									} else if g := x.Call.StaticCallee(); g != nil && (g.Name() == "Errorf" || g.Name() == "Wrap" || g.Name() == "Join") {
										for _, a := range x.Call.Args {
											if derived[a] {
												mark(x)
											}
										}
									}
								}
							}
						}
					}
					// every return that the branch reaches returns such a value
					bad := ""
					nRet := 0
					for _, bb := range fn.Blocks {
						ret, isRet := bb.Instrs[len(bb.Instrs)-1].(*ssa.Return)
						if !isRet || !(bb == body || reaches(body, bb)) {
							continue
						}
						nRet++
						okRet := false
						for _, r := range ret.Results {
							if derived[r] {
								okRet = true
							}
						}
						if !okRet {
							bad = p.Pos(ret.Pos())
						}
					}
					c.R.Check(bad == "" && nRet > 0, "R19.18", key, p.Pos(sel.Pos()), fmt.Sprintf("%d return(s) behind the expiry branch, each returns a value built from ctx.Err()", nRet),
						"the return at "+bad+" that the expiry branch reaches does not hand ctx.Err() to the caller: when -timeout expires the tool carries on as if every file had been classified - it prints what it has and exits 0")
				}
			}
		}
	}
	c.R.Count("R19.18:selects on ctx.Done", nSel)
	// R19.22: the exit status says whether a license was reported, so the tool never leaves by the normal way before it has
	// looked at the results: in the function that calls GetResults, every return that is not the return of an error stands
	// behind that call. An early `return` for "nothing to scan" ends the process with status 0 although nothing was reported.
	{
		for _, fn := range fns {
			var gr ssa.Instruction
			for _, call := range core.CallsIn(fn) {
				if g := call.Common().StaticCallee(); g != nil && g.Name() == "GetResults" {
					gr = call.(ssa.Instruction)
				}
			}
			if gr == nil {
				continue
			}
			bad := ""
			nRet := 0
			for _, b := range fn.Blocks {
				ret, ok := b.Instrs[len(b.Instrs)-1].(*ssa.Return)
				if !ok || b == fn.Recover {
					continue
				}
				nRet++
				if gr.Block() == b || gr.Block().Dominates(b) {
					continue
				}
				// the return of an error (run() error style): the caller turns it into a fatal exit
				isErr := false
				for _, r := range ret.Results {
					if r.Type().String() == "error" {
						if k, isK := r.(*ssa.Const); !isK || !k.IsNil() {
							isErr = true
						}
					}
				}
				if !isErr && bad == "" {
					bad = p.Pos(ret.Pos())
				}
			}
			c.R.Check(bad == "", "R19.22", core.ShortFn(fn)+": no normal return in front of the look at the results", p.Pos(fn.Pos()), fmt.Sprintf("%d returns, each behind GetResults or the return of an error", nRet),
				"the function returns normally at "+bad+" before the results were looked at: the process ends with status 0 although no license was reported (an empty directory, every file excluded)")
		}
	}
	// R19.20: the JSON output has one entry per file: the entry a classification is added to is found by the file's name (a
	// map look-up keyed by Filename), not by comparing the name with that of the previous result - the results are sorted by
	// confidence first, so the results of one file are not adjacent.
	if nj := p.Func(resultsPkg, "NewJSONResult"); nj != nil {
		byName := false
		for _, f := range pkgClosure(nj, resultsPkg) {
			for _, b := range f.Blocks {
				for _, in := range b.Instrs {
					if lk, ok := in.(*ssa.Lookup); ok {
						if _, isMap := lk.X.Type().Underlying().(*types.Map); isMap && strings.HasSuffix(core.AP(lk.Index), ".Filename") {
							byName = true
						}
					}
				}
			}
		}
		c.R.Check(byName, "R19.20", "NewJSONResult finds the entry of a file by its name", p.Pos(nj.Pos()), "a map look-up keyed by the result's Filename",
			"no map look-up keyed by Filename: the entry of a file is not found by name (consecutive results are grouped instead) - with results of several files interleaved by confidence a file gets several entries, each with part of its classifications")
	}
	// R19.21: every path the tool is given is classified: the tool's walk does not leave entries out by their mode bits (a
	// symbolic link to a license file is not a regular file for Lstat, which filepath.Walk uses).
	{
		bad := ""
		for _, fn := range fns {
			for _, call := range core.CallsIn(fn) {
				switch core.StaticCalleeName(call.Common()) {
				case "(io/fs.FileMode).IsRegular", "(os.FileMode).IsRegular", "(io/fs.FileMode).Type", "(io/fs.FileMode).Perm":
					if bad == "" {
						bad = core.ShortFn(fn) + " at " + p.Pos(call.Pos())
					}
				}
			}
		}
		c.R.Check(bad == "", "R19.21", "the tool does not select the files to classify by their mode bits", cliPkg, "no test of FileMode.IsRegular/Type/Perm in the tool",
			"files are selected by their mode bits ("+bad+"): a symbolic link to a license file is silently left out, so the tool reports less than Match returns for the files it was given")
	}
	// R19.19: the tool reports what the library finds with the library as it is: no function of the tool writes a
	// package-level variable of a library package (the corpus loader's, the classifier's). A category left out of the corpus
	// changes which candidates compete in Match's overlap filter, so the tool prints matches Match does not return.
	{
		bad := ""
		nSt := 0
		isLib := func(pk string) bool {
			return strings.HasPrefix(pk, core.V2Mod) && !strings.HasPrefix(pk, cliPkg)
		}
		for _, fn := range fns {
			for _, b := range fn.Blocks {
				for _, in := range b.Instrs {
					var target ssa.Value
					switch x := in.(type) {
					case *ssa.Store:
						target = x.Addr
					case *ssa.MapUpdate:
						target = x.Map
					default:
						continue
					}
					nSt++
					// walk to the root of the address
					for depth := 0; depth < 8 && target != nil; depth++ {
						switch a := target.(type) {
						case *ssa.FieldAddr:
							target = a.X
						case *ssa.IndexAddr:
							target = a.X
						case *ssa.UnOp:
							target = a.X
						case *ssa.Global:
							if a.Pkg != nil && isLib(a.Pkg.Pkg.Path()) && bad == "" {
								bad = core.ShortFn(fn) + " writes " + a.Pkg.Pkg.Name() + "." + a.Name() + " at " + p.Pos(in.Pos())
							}
							target = nil
						default:
							target = nil
						}
					}
				}
			}
		}
		c.R.Check(bad == "", "R19.19", "the tool does not reconfigure the library through package-level variables", cliPkg, fmt.Sprintf("%d stores in the tool's packages, none into a variable of a library package", nSt),
			bad+": the classifier the tool uses is not the library's default one (a smaller corpus, other settings), so what it prints is not what Match returns for the file")
	}
}
