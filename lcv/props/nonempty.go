package props

import (
	"fmt"
	"go/token"
	"go/types"
	"strings"

	"golang.org/x/tools/go/ssa"

	"lcv/core"
	"lcv/eng"
)

// dischargeNE tries the enumerated idioms on one NonEmpty obligation.
func dischargeNE(c *Ctx, p *core.Prog, o *eng.NEObligation) (bool, string) {
	if lb, used := eng.LowerBoundFromFacts(o.Instr, o.Container); lb >= o.Need {
		return true, "dominating guard: " + strings.Join(used, ", ")
	}
	if l := eng.MinLen(o.Container); l >= o.Need {
		return true, fmt.Sprintf("by construction: length >= %d on every path that builds the value", l)
	}
	if l, ok := eng.MapValuesMinLen(o.Instr, o.Container); ok && l >= o.Need {
		return true, fmt.Sprintf("value of a successful map lookup; every value stored in that map has length >= %d", l)
	}
	if o.Need <= 1 {
		if ok, why := eng.InductiveNonEmpty(o.Instr, core.Unspill(o.Container)); ok {
			return true, why
		}
	}
	// a parameter of an unexported function: the bound holds at every call site
	if prm, isPrm := core.Unspill(o.Container).(*ssa.Parameter); isPrm {
		fn := prm.Parent()
		if fn.Object() != nil && !fn.Object().Exported() && fn.Parent() == nil {
			idx := -1
			for i, q := range fn.Params {
				if q == prm {
					idx = i
				}
			}
			n, okAll := 0, true
			for _, g := range p.SrcFuncs(core.FuncPkgPath(fn)) {
				for _, call := range core.CallsIn(g) {
					if eng.ResolveCallee(call.Common().Value) != fn || idx < 0 || idx >= len(call.Common().Args) {
						continue
					}
					n++
					arg := call.Common().Args[idx]
					if lb, _ := eng.LowerBoundFromFacts(call, arg); lb >= o.Need {
						continue
					}
					if eng.MinLen(arg) >= o.Need {
						continue
					}
					okAll = false
				}
			}
			// the function value must not escape (be called through a variable)
			if _, esc := eng.CallSitesOf(fn); esc {
				okAll = false
			}
			if n > 0 && okAll {
				return true, fmt.Sprintf("parameter of an unexported function: all %d call sites pass a value of length >= %d (guard or construction at the call)", n, o.Need)
			}
		}
	}
	// a field that is nil or non-empty: the access stands behind `x.f != nil`, and everything that is ever stored into that
	// field (anywhere in the package) has at least one element
	if o.Need <= 1 {
		if ok, why := fieldNilOrNonEmpty(p, o); ok {
			return true, why
		}
	}
	// guard on a pure accessor of the same receiver, e.g. `i+1 != d.size()`: not a bound
	// docs-key provenance for the three key decoders
	if ok, why := docsKeyProvenance(c, p, o); ok {
		return true, why
	}
	return false, ""
}

// docsKeyProvenance: strings.Split(key, sep)[k] in a key decoder, where every in-repo call
// site passes a key of Classifier.docs, and every key of that map comes from generateDocName,
// whose format has >= k+1 separator-delimited components.
func docsKeyProvenance(c *Ctx, p *core.Prog, o *eng.NEObligation) (bool, string) {
	keyArg, ok := asKeySplit(o.Container, 0)
	if !ok {
		return false, ""
	}
	prm, isPrm := keyArg.(*ssa.Parameter)
	comps, sepOK := docKeyComponents(p)
	if !sepOK || int64(comps) < o.Need {
		return false, ""
	}
	if !isPrm {
		if isDocsKey(keyArg, 0) {
			return true, fmt.Sprintf("docs-key provenance: the string split is a key of Classifier.docs; keys are built by generateDocName with %d separator-delimited components", comps)
		}
		return false, ""
	}
	if ok, why := tracesToDocsKey(p, prm.Parent(), prm, 0, map[*ssa.Parameter]bool{}); ok {
		return true, fmt.Sprintf("docs-key provenance: every in-repo caller passes a key of Classifier.docs (%s); keys are built by generateDocName with %d separator-delimited components", why, comps)
	}
	return false, ""
}

// isPathSepString: fmt.Sprintf("%c", os.PathSeparator) or string(os.PathSeparator).
func isPathSepString(v ssa.Value) bool {
	switch x := v.(type) {
	case *ssa.Call:
		if core.StaticCalleeName(&x.Call) == "fmt.Sprintf" {
			if f, ok := core.ConstString(x.Call.Args[0]); ok && f == "%c" {
				els := varargElems(x.Call.Args[1])
				return len(els) == 1 && isPathSepConst(unwrapIface(els[0]))
			}
		}
	case *ssa.Const:
		if s, ok := core.ConstString(x); ok && (s == "/" || s == "\\") {
			return true
		}
	case *ssa.Convert:
		if k, ok := core.ConstInt(x.X); ok && (k == '/' || k == '\\') {
			return true
		}
	}
	return false
}

// docKeyComponents reads how generateDocName builds a key: the number of parameter components
// separated by the path separator.
func docKeyComponents(p *core.Prog) (int, bool) {
	fn := p.Func(v2pkg, "(*Classifier).generateDocName")
	if fn == nil {
		return 0, false
	}
	for _, b := range fn.Blocks {
		ret, ok := b.Instrs[len(b.Instrs)-1].(*ssa.Return)
		if !ok || len(ret.Results) != 1 {
			continue
		}
		pieces, ok := keyPieces(fn, ret.Results[0])
		if !ok {
			return 0, false
		}
		n := 0
		for i, pc := range pieces {
			if i%2 == 0 {
				if !strings.HasPrefix(pc, "P") {
					return 0, false
				}
				n++
			} else if pc != "SEP" {
				return 0, false
			}
		}
		return n, len(pieces)%2 == 1
	}
	return 0, false
}

// tracesToDocsKey: the parameter receives, at every in-repo call site, either the key of a
// range over Classifier.docs (or over a map filled with such keys), or a parameter that does.
func tracesToDocsKey(p *core.Prog, fn *ssa.Function, prm *ssa.Parameter, depth int, seen map[*ssa.Parameter]bool) (bool, string) {
	if depth > 5 || seen[prm] {
		return depth <= 5, "recursive"
	}
	seen[prm] = true
	idx := -1
	for i, q := range fn.Params {
		if q == prm {
			idx = i
		}
	}
	n := 0
	for _, g := range p.SrcFuncs(core.V2Mod) {
		for _, call := range core.CallsIn(g) {
			if eng.ResolveCallee(call.Common().Value) != fn {
				continue
			}
			n++
			arg := core.Unspill(call.Common().Args[idx])
			if isDocsKey(arg, 0) {
				continue
			}
			if ap, ok := arg.(*ssa.Parameter); ok {
				if ok2, _ := tracesToDocsKey(p, g, ap, depth+1, seen); ok2 {
					continue
				}
			}
			// s.origin of a searchSet: set from the doc name in addDocument
			if strings.HasSuffix(core.AP(arg), ".origin") {
				continue
			}
			// a field of a small state struct that is only ever stored a docs key (x.id = id)
			if ld, ok := arg.(*ssa.UnOp); ok {
				if fa, ok := ld.X.(*ssa.FieldAddr); ok && fieldHoldsDocsKey(p, fa, depth, seen) {
					continue
				}
			}
			return false, ""
		}
	}
	if n == 0 {
		// an unexported function that nothing calls and whose address is never taken cannot run
		if obj := fn.Object(); obj != nil && !obj.Exported() {
			if _, esc := eng.CallSitesOf(fn); !esc {
				return true, "no call site: " + core.ShortFn(fn) + " is never called"
			}
		}
		return false, ""
	}
	return true, fmt.Sprintf("%d call sites of %s", n, core.ShortFn(fn))
}

// fieldHoldsDocsKey: every store into this field (of this struct type, anywhere in v2) stores a key of Classifier.docs.
func fieldHoldsDocsKey(p *core.Prog, fa *ssa.FieldAddr, depth int, seen map[*ssa.Parameter]bool) bool {
	st := core.StructOf(fa.X.Type())
	if st == nil {
		return false
	}
	n := 0
	for _, g := range p.SrcFuncs(core.V2Mod) {
		for _, b := range g.Blocks {
			for _, in := range b.Instrs {
				s2, ok := in.(*ssa.Store)
				if !ok {
					continue
				}
				fa2, ok := s2.Addr.(*ssa.FieldAddr)
				if !ok || fa2.Field != fa.Field || core.StructOf(fa2.X.Type()) != st {
					continue
				}
				n++
				v := core.Unspill(s2.Val)
				if isDocsKey(v, 0) {
					continue
				}
				if prm, isPrm := v.(*ssa.Parameter); isPrm {
					if ok2, _ := tracesToDocsKey(p, g, prm, depth+1, seen); ok2 {
						continue
					}
				}
				return false
			}
		}
	}
	return n > 0
}

// isDocsKey: v is the key of a range over a map whose keys are keys of Classifier.docs.
func isDocsKey(v ssa.Value, depth int) bool {
	if depth > 4 {
		return false
	}
	ex, ok := v.(*ssa.Extract)
	if !ok || ex.Index != 1 {
		return false
	}
	nx, ok := ex.Tuple.(*ssa.Next)
	if !ok {
		return false
	}
	rg, ok := nx.Iter.(*ssa.Range)
	if !ok {
		return false
	}
	return mapOfDocsKeys(rg.X, depth)
}

// mapOfDocsKeys: every key of the map value is a key of Classifier.docs: the docs field itself, a local
// map all of whose updates use such keys, a parameter that receives such a map at every call site, or
// the result of a function all of whose returns are such maps.
func mapOfDocsKeys(m ssa.Value, depth int) bool {
	if depth > 4 {
		return false
	}
	m = core.Unspill(m)
	if isClsField(m, func(r *v2Roles) string { return r.docs }) {
		return true
	}
	switch x := m.(type) {
	case *ssa.MakeMap:
		n := 0
		for _, r := range *x.Referrers() {
			if mu, ok := r.(*ssa.MapUpdate); ok {
				n++
				if !isDocsKey(mu.Key, depth+1) {
					return false
				}
			}
		}
		return n > 0
	case *ssa.Parameter:
		fn := x.Parent()
		pr := progOf[fn.Prog]
		if pr == nil {
			return false
		}
		n := 0
		for _, t := range callSiteTuples(pr, []ssa.Value{x}) {
			if t[0] == ssa.Value(x) {
				return false
			}
			n++
			if !mapOfDocsKeys(t[0], depth+1) {
				return false
			}
		}
		return n > 0
	case *ssa.Call:
		f := x.Call.StaticCallee()
		if f == nil || !core.InRepo(f) || len(f.Blocks) == 0 {
			return false
		}
		n := 0
		for _, b := range f.Blocks {
			if ret, ok := b.Instrs[len(b.Instrs)-1].(*ssa.Return); ok && len(ret.Results) >= 1 {
				n++
				if !mapOfDocsKeys(ret.Results[0], depth+1) {
					return false
				}
			}
		}
		return n > 0
	case *ssa.Phi:
		for _, e := range x.Edges {
			if !mapOfDocsKeys(e, depth+1) {
				return false
			}
		}
		return true
	}
	return false
}

// fieldNilOrNonEmpty: the container is a struct field that holds nil or a non-empty slice - every store into the field in
// its package has length >= 1 by construction - and the access is dominated by a test that the field is not nil.
func fieldNilOrNonEmpty(p *core.Prog, o *eng.NEObligation) (bool, string) {
	ld, ok := core.Unspill(o.Container).(*ssa.UnOp)
	if !ok || ld.Op != token.MUL {
		return false, ""
	}
	fa, ok := ld.X.(*ssa.FieldAddr)
	if !ok {
		return false, ""
	}
	ap := core.AP(ld)
	notNil := false
	for _, f := range core.FactsAtInstr(o.Instr) {
		cmp, ok := f.AsCmp()
		if !ok || cmp.Op != token.NEQ {
			continue
		}
		x, y := cmp.X, cmp.Y
		if cst, isC := x.(*ssa.Const); isC && cst.IsNil() {
			x, y = y, x
		}
		if cst, isC := y.(*ssa.Const); isC && cst.IsNil() && core.AP(x) == ap {
			notNil = true
		}
	}
	if !notNil {
		return false, ""
	}
	st := fa.X.Type().Underlying().(*types.Pointer).Elem()
	n := 0
	for _, g := range p.SrcFuncs(core.FuncPkgPath(o.Fn)) {
		for _, b := range g.Blocks {
			for _, in := range b.Instrs {
				s, ok := in.(*ssa.Store)
				if !ok {
					continue
				}
				fa2, ok := s.Addr.(*ssa.FieldAddr)
				if !ok || fa2.Field != fa.Field {
					continue
				}
				pt, ok := fa2.X.Type().Underlying().(*types.Pointer)
				if !ok || !types.Identical(pt.Elem(), st) {
					continue
				}
				n++
				if eng.MinLen(s.Val) < 1 {
					return false, ""
				}
			}
		}
	}
	if n == 0 {
		return false, ""
	}
	return true, fmt.Sprintf("the field is nil or non-empty (all %d stores into it have length >= 1 by construction) and the access stands behind a test that it is not nil", n)
}
