package props

import (
	"fmt"
	"go/token"
	"go/types"
	"strings"

	"golang.org/x/tools/go/ssa"

	"lcv/core"
	"lcv/eng"
)

func init() {
	register(&Check{
		ID:      "C10",
		Modules: []string{"v2"},
		Explanation: "Static totality clauses for the v2 API: (R10.1) every first/last/constant-position index or slice expression in v2 and v2/assets (NonEmpty obligations) is discharged by a dominating length guard, by construction, or by an audited provenance rule; " +
			"(R10.2) every explicit panic and every regexp.MustCompile reachable from Match/MatchFrom/Normalize/AddContent is audited (MustCompile only on constants); (R10.3) every cycle of the tokenizer's read loop passes through the reader call and the end-of-input branch leaves the loop; (R10.4) the quadratic word diff is never run with go-diff's deadline switched off; (R10.5) every integer division by a run-time value is dominated by a test that excludes a zero divisor; (R10.7) the methods that build a lazily built part of a document assign it on every path, and match builds the input's search set whenever the loop that reads it can run; (R10.6) no loop of the library accumulates a string by repeated concatenation (each step copies everything accumulated so far: quadratic in the length of a line or document). " +
			"Decides these structural necessary conditions for all inputs; does not decide index arithmetic with non-constant indices nor termination of the numeric loops.",
		Run: runC10,
	})
}

func v2LibFuncs(p *core.Prog) []*ssa.Function {
	var out []*ssa.Function
	for _, f := range p.SrcFuncs(core.V2Mod) {
		pk := core.FuncPkgPath(f)
		if pk == core.V2Mod || pk == core.V2Mod+"/assets" {
			out = append(out, f)
		}
	}
	return out
}

func runC10(c *Ctx) {
	p := c.Prog("v2")
	if p == nil {
		return
	}
	// shared with C03: the tokens a match is read from exist - the guard that a scored candidate has at least one token
	// left dominates the indexing of the input's tokens (R03.2, R03.3)
	borrowRules(c, []string{"R03.2", "R03.3", "R03.11"}, runC03)
	// shared with C08: the tokenizer fails only when its reader fails (R08.7) - Normalize panics on a tokenizer error and
	// AddContent dereferences the nil document
	// ... and a reader error other than the end of the input ends the call at once (R08.1): treated as "more to come" it
	// makes the read loop spin on stale bytes for ever. Line breaks held back for a hyphenated word are paid exactly once
	// (R03.11): re-added on every later line they make Normalize write, and Match count, a quadratic number of lines
	borrowRules(c, []string{"R08.7", "R08.1", "R08.3"}, runC08)
	// shared with C04: go-diff's line mode treats token rune 10 as a line break and indexes a table of at most 65535
	// "lines": with it switched on a large document makes the library panic (R04.11)
	if c.R.Filter == nil {
		borrowRules(c, []string{"R04.11"}, runC04)
	}
	c.R.Assume("non-constant index arithmetic (filter[off], hits[idx], diffs[start:end], Tokens[startIndex+startOffset]) is outside what this rule decides")
	fns := v2LibFuncs(p)
	c.R.Count("R10.1:functions", len(fns))
	obls := eng.FindNonEmpty(fns)
	for _, o := range obls {
		if core.FuncPkgPath(o.Fn) == core.V2Mod+"/assets" {
			// discharged by the asset-tree rule R12.4 (checked by C12): every embedded file has exactly 3 path components
			if ok, why := assetTreeShape(c, p); ok {
				c.R.OK("R10.1", o.Key, p.Pos(o.Instr.Pos()), "asset tree shape (R12.4): "+why)
			} else {
				c.R.Fail("R10.1", o.Key, p.Pos(o.Instr.Pos()), "asset tree shape not established: "+why)
			}
			continue
		}
		if ok, how := dischargeNE(c, p, o); ok {
			c.R.OK("R10.1", o.Key, p.Pos(o.Instr.Pos()), how)
		} else {
			c.R.Fail("R10.1", o.Key, p.Pos(o.Instr.Pos()), fmt.Sprintf("no dominating guard, construction or provenance rule establishes len >= %d: the access panics on an input that leaves the container shorter", o.Need))
		}
	}
	c.R.RequireMin("R10.1", "NonEmpty obligations in v2 and v2/assets", len(obls), 8)

	// R10.5 integer divisions
	checkIntDivisions(c, p, fns)
	checkPairwiseLoops(c, p, fns)
	checkBufferCopiedInLoop(c, p, fns)
	checkGrowingListRescanned(c, p, fns)
	checkLineKeyedTables(c, p, fns)
	checkByteBufferIndex(c, p, fns)
	checkListTableIndex(c, p, fns)
	// shared with C04/C09: Match keeps no state between calls (R04.1) - a package-level map that calls fill in makes
	// concurrent calls end in "fatal error: concurrent map read and map write"
	if c.R.Filter == nil {
		matchReadOnly(c, p, "R04.1")
	}
	// R10.6 no quadratic string accumulation
	checkStringAccumulation(c, p, fns)
	// R10.7 lazily built parts of a document exist wherever they are used
	checkDocumentPartsBuilt(c, p)
	// R01.2 (shared): the run detector uses the clamped q of the source search set (loop bounds depend on it)
	checkRunDetectorQ(c, p)

	// R10.2 panics and MustCompile reachable from the four APIs
	reach := map[*ssa.Function]bool{}
	for _, name := range []string{"(*Classifier).Match", "(*Classifier).MatchFrom", "(*Classifier).Normalize", "(*Classifier).AddContent"} {
		fn := p.Func(v2pkg, name)
		if !c.R.Anchor(fn != nil, "v2."+name) {
			continue
		}
		e := eng.NewExplorer(p, matchScope...)
		e.Run(fn, provParams(fn, eng.Shared, eng.Input, eng.Input, eng.Input, eng.Input))
		for _, f := range e.Explored() {
			reach[f] = true
		}
	}
	nPanic := 0
	for f := range reach {
		if !core.InRepo(f) {
			continue
		}
		for _, b := range f.Blocks {
			for _, in := range b.Instrs {
				if pn, ok := in.(*ssa.Panic); ok {
					nPanic++
					key := core.ShortFn(f) + ": explicit panic"
					// audited: Normalize panics only on a reader error, and its reader is a bytes.Reader
					if f.Name() == "Normalize" && panicGuardedByReaderErr(pn) {
						c.R.OK("R10.2", key+" guarded by the error of tokenizeStream on a bytes.Reader", p.Pos(pn.Pos()), "tokenizeStream only returns the reader's non-EOF errors (R08.1) and bytes.Reader has none")
					} else {
						c.R.Fail("R10.2", key, p.Pos(pn.Pos()), "explicit panic reachable from the v2 API that is not in the audited table")
					}
				}
			}
		}
	}
	c.R.Count("R10.2:explicit panics reachable", nPanic)
	checkMustCompile(c, p, "R10.2", core.V2Mod)

	// R10.3 loop progress of the tokenizer read loop
	checkReadLoopProgress(c, p)

	// R10.4 the quadratic diff runs under a deadline
	nDiff := 0
	for f := range reach {
		if !core.InRepo(f) {
			continue
		}
		for _, call := range core.CallsIn(f) {
			n := core.StaticCalleeName(call.Common())
			if !strings.HasPrefix(n, "(*"+core.DiffPkg+".DiffMatchPatch).DiffMain") {
				continue
			}
			nDiff++
			disabled, why := timeoutDisabled(f, call.Common().Args[0], call)
			c.R.Check(!disabled, "R10.4", core.ShortFn(f)+": the diff of target against corpus text runs under go-diff's deadline", p.Pos(call.Pos()),
				"DiffTimeout is not switched off at this call ("+why+")",
				"DiffTimeout is set to a constant <= 0 before the call: go-diff's bisection is O(N*D) without a deadline, so a large dissimilar input at a low threshold makes Match run for minutes (effectively hang)")
		}
	}
	c.R.RequireMin("R10.4", "DiffMain call sites reachable from the API", nDiff, 1)
}

func panicGuardedByReaderErr(pn *ssa.Panic) bool {
	for _, f := range core.FactsAtInstr(pn) {
		if cmp, ok := f.AsCmp(); ok {
			if ex, ok := cmp.X.(*ssa.Extract); ok {
				if call, ok := ex.Tuple.(*ssa.Call); ok && isTokenizeStream(call.Call.StaticCallee()) {
					// reader must be a bytes.NewReader
					if r, ok := call.Call.Args[0].(*ssa.MakeInterface); ok {
						if rc, ok := r.X.(*ssa.Call); ok && core.StaticCalleeName(&rc.Call) == "bytes.NewReader" {
							return true
						}
					}
				}
			}
		}
	}
	return false
}

// checkMustCompile: regexp.MustCompile* only on compile-time constants.
func checkMustCompile(c *Ctx, p *core.Prog, rule, prefix string) (total, dynamic int) {
	for _, f := range append(p.SrcFuncs(prefix), p.InitFuncs(prefix)...) {
		for _, call := range core.CallsIn(f) {
			n := core.StaticCalleeName(call.Common())
			if n != "regexp.MustCompile" && n != "regexp.MustCompilePOSIX" {
				continue
			}
			total++
			if _, ok := core.ConstString(call.Common().Args[0]); ok {
				continue
			}
			dynamic++
			c.R.Fail(rule, "regexp.MustCompile on a non-constant in "+core.ShortFn(f), p.Pos(call.Pos()), "MustCompile panics when the pattern does not compile; the argument is a run-time value")
		}
	}
	if dynamic == 0 {
		c.R.OK(rule, "regexp.MustCompile is only applied to compile-time constants in "+strings.TrimPrefix(prefix, core.RootMod), "-", fmt.Sprintf("%d call sites", total))
	}
	c.R.Count(rule+":MustCompile sites", total)
	return
}

// checkReadLoopProgress: in tokenizeStream every cycle through the outer loop header contains the
// io.ReadFull call, and the branch taken when the reader reports end of input leaves the loop.
func checkReadLoopProgress(c *Ctx, p *core.Prog) {
	fn := p.Func(v2pkg, "tokenizeStream")
	if !c.R.Anchor(fn != nil, "v2.tokenizeStream") {
		return
	}
	var read ssa.CallInstruction
	if wr := windowRead(fn); wr != nil {
		read = wr
	}
	for _, call := range core.CallsIn(fn) {
		if call.Common().IsInvoke() && call.Common().Method.Name() == "Read" {
			read = call
		}
	}
	if read == nil {
		c.R.Fail("R10.3", "tokenizeStream: reader call", p.Pos(fn.Pos()), "no call that consumes the reader was found")
		return
	}
	// every cycle containing the read block's loop header must contain the read: i.e. the read's
	// block dominates every back edge source of the outermost loop that contains it.
	rb := read.Block()
	// outer loop header: the outermost block h that dominates rb and has a back edge from a block dominated by h
	var header *ssa.BasicBlock
	for d := rb; d != nil; d = d.Idom() {
		for _, pr := range d.Preds {
			if d.Dominates(pr) {
				header = d
			}
		}
	}
	if header == nil {
		c.R.Fail("R10.3", "tokenizeStream: read loop", p.Pos(read.Pos()), "the reader call is not inside a loop")
		return
	}
	ok := true
	for _, pr := range header.Preds {
		if header.Dominates(pr) && !rb.Dominates(pr) {
			ok = false
		}
	}
	c.R.Check(ok, "R10.3", "tokenizeStream: every iteration of the read loop calls the reader", p.Pos(read.Pos()),
		"the reader call dominates every back edge of the outer loop", "a back edge of the outer loop can be taken without consuming from the reader: the loop may spin forever")
	// inner loops (rune loop): progress idx += n with n from DecodeRune (>= 1): the decode call dominates the back edges of its loop
	for _, call := range core.CallsIn(fn) {
		if core.StaticCalleeName(call.Common()) != "unicode/utf8.DecodeRune" {
			continue
		}
		db := call.Block()
		var h2 *ssa.BasicBlock
		for d := db; d != nil && d != header; d = d.Idom() {
			for _, pr := range d.Preds {
				if d.Dominates(pr) {
					h2 = d
				}
			}
		}
		if h2 == nil {
			continue
		}
		ok2 := true
		for _, pr := range h2.Preds {
			if h2.Dominates(pr) && !db.Dominates(pr) {
				ok2 = false
			}
		}
		c.R.Check(ok2, "R10.3", "tokenizeStream: every iteration of the rune loop decodes (and consumes) a rune", p.Pos(call.Pos()),
			"the DecodeRune call dominates every back edge of the inner loop", "an iteration of the rune loop can repeat without decoding")
		// ... and keeps what it consumed: on every way round the loop the scan position ends up behind the decoded rune - or,
		// where the rune is pushed back (the white space that ends a word is looked at again), the word buffer is emptied, so
		// that the same rune takes another branch next time. A way round that leaves both where they were repeats for ever.
		cv, _ := call.(*ssa.Call)
		sl, _ := call.Common().Args[0].(*ssa.Slice)
		if cv == nil || sl == nil || sl.Low == nil {
			continue
		}
		idxPhi, _ := sl.Low.(*ssa.Phi)
		var size ssa.Value
		for _, r := range *cv.Referrers() {
			if ex, isEx := r.(*ssa.Extract); isEx && ex.Index == 1 {
				size = ex
			}
		}
		if idxPhi == nil || idxPhi.Block() != h2 || size == nil {
			continue
		}
		inLoop := func(b *ssa.BasicBlock) bool { return h2.Dominates(b) && reaches(b, h2) }
		// the word buffer: the []byte loop variable that runes are appended to
		var bufPhis []*ssa.Phi
		for _, in := range h2.Instrs {
			if phi, isPhi := in.(*ssa.Phi); isPhi {
				if st, isSl := phi.Type().Underlying().(*types.Slice); isSl {
					if bt, isB := st.Elem().Underlying().(*types.Basic); isB && bt.Kind() == types.Uint8 {
						bufPhis = append(bufPhis, phi)
					}
				}
			}
		}
		nWays, stuck := 0, ""
		for k, pr := range h2.Preds {
			if !inLoop(pr) {
				continue
			}
			paths, okP := eng.EnumPaths(h2, pr, func(b *ssa.BasicBlock) bool { return !inLoop(b) }, 20000)
			if !okP {
				c.R.Undecided("R10.3", "tokenizeStream: progress of the rune loop", p.Pos(call.Pos()), "too many paths through one iteration")
				break
			}
			for _, pa := range paths {
				nWays++
				var resolve func(v ssa.Value, depth int) ssa.Value
				resolve = func(v ssa.Value, depth int) ssa.Value {
					phi, isPhi := v.(*ssa.Phi)
					if !isPhi || depth > 12 || phi.Block() == h2 {
						return v
					}
					for i, b := range pa.Blocks {
						if b == phi.Block() && i > 0 {
							for e, pp := range b.Preds {
								if pp == pa.Blocks[i-1] {
									return resolve(phi.Edges[e], depth+1)
								}
							}
						}
					}
					return v
				}
				var adv func(v ssa.Value, depth int) (int, bool)
				adv = func(v ssa.Value, depth int) (int, bool) {
					v = resolve(v, 0)
					if v == ssa.Value(idxPhi) {
						return 0, true
					}
					if bo, isBo := v.(*ssa.BinOp); isBo && depth < 8 && (bo.Op == token.ADD || bo.Op == token.SUB) && resolve(bo.Y, 0) == size {
						a, okA := adv(bo.X, depth+1)
						if bo.Op == token.ADD {
							return a + 1, okA
						}
						return a - 1, okA
					}
					return 0, false
				}
				a, okA := adv(idxPhi.Edges[k], 0)
				if !okA || a > 0 {
					continue // advanced (or moved in a way this rule does not read: left to the decode rule above)
				}
				// the position did not advance: some word buffer must have been emptied
				emptied := false
				for _, bp := range bufPhis {
					nv := resolve(bp.Edges[k], 0)
					if cst, isC := nv.(*ssa.Const); isC && cst.IsNil() {
						emptied = true
					}
					if s2, isS := nv.(*ssa.Slice); isS {
						if hk, isK := core.ConstInt(s2.High); isK && hk == 0 {
							emptied = true
						}
					}
				}
				if !emptied && stuck == "" {
					var parts []string
					for _, l := range pa.Lits {
						if len(parts) >= 8 {
							break
						}
						pos := p.Pos(l.Cond.Pos())
						if i := strings.LastIndex(pos, ":"); i >= 0 {
							pos = pos[i+1:]
						}
						parts = append(parts, fmt.Sprintf("%s=%v", pos, l.Truth))
					}
					stuck = "branch decisions (line=outcome): " + strings.Join(parts, " ")
				}
			}
		}
		c.R.Check(stuck == "", "R10.3", "tokenizeStream: no way round the rune loop leaves the scan position and the word buffer as they were", p.Pos(call.Pos()),
			fmt.Sprintf("%d ways round the loop: each ends behind the decoded rune, or pushes it back with the word buffer emptied", nWays),
			"a way round the rune loop pushes the decoded rune back (or never steps over it) and leaves the word buffer as it was: the next iteration decodes the same rune in the same state, for ever; "+stuck)
	}
}

// checkIntDivisions: R10.5. An integer division or remainder by a run-time value panics when the divisor is
// zero: each such operation must be dominated by a test that excludes zero (d != 0, d > 0, d >= k>0, len guard).
func checkIntDivisions(c *Ctx, p *core.Prog, fns []*ssa.Function) {
	n := 0
	for _, fn := range fns {
		for _, b := range fn.Blocks {
			for _, in := range b.Instrs {
				bo, ok := in.(*ssa.BinOp)
				if !ok || (bo.Op != token.QUO && bo.Op != token.REM) {
					continue
				}
				bt, ok := bo.Type().Underlying().(*types.Basic)
				if !ok || bt.Info()&types.IsInteger == 0 {
					continue
				}
				if _, isConst := bo.Y.(*ssa.Const); isConst {
					continue
				}
				n++
				nonZero := false
				dAP := core.AP(bo.Y)
				for _, f := range core.FactsAtInstr(bo) {
					cmp, ok := f.AsCmp()
					if !ok {
						continue
					}
					x, y, op := cmp.X, cmp.Y, cmp.Op
					if core.AP(y) == dAP && y != nil {
						// flip so that the divisor is on the left
						x, y = y, x
						switch op {
						case token.LSS:
							op = token.GTR
						case token.GTR:
							op = token.LSS
						case token.LEQ:
							op = token.GEQ
						case token.GEQ:
							op = token.LEQ
						}
					}
					if core.AP(x) != dAP {
						continue
					}
					k, isK := core.ConstInt(y)
					if !isK {
						continue
					}
					switch {
					case op == token.NEQ && k == 0, op == token.GTR && k >= 0, op == token.GEQ && k >= 1:
						nonZero = true
					}
				}
				key := core.ShortFn(fn) + ": integer " + bo.Op.String() + " by " + eng.Describe(bo.Y)
				c.R.Check(nonZero, "R10.5", key+" is guarded against a zero divisor", p.Pos(bo.Pos()), "a dominating test excludes zero", "integer division by a run-time value with no dominating test that it is non-zero: an empty corpus document or input makes the API panic (integer divide by zero)")
			}
		}
	}
	c.R.Count("R10.5:integer divisions by run-time values", n)
	if n == 0 {
		c.R.OK("R10.5", "no integer division by a run-time value in v2 and v2/assets", "-", "nothing to guard")
	}
}

// checkStringAccumulation: R10.6. `s = s + x` (or s += x) carried around a loop copies the accumulated text at every
// iteration, so the loop takes time quadratic in its input: a megabyte-long line turns a call into minutes. The
// library builds its texts with strings.Builder / byte slices; the rule keeps it that way.
func checkStringAccumulation(c *Ctx, p *core.Prog, fns []*ssa.Function) {
	n := 0
	for _, fn := range fns {
		if isTraceFn(fn) {
			continue
		}
		// audited exception (one symbol): diffRange re-assembles the text of ONE corpus document from the pieces of its diff
		// and stops when it is complete; what it accumulates is bounded by the size of that corpus document (and of the
		// equally long candidate range of the input), not by the size of the input
		if fn.Name() == "diffRange" && fn.Parent() == nil {
			continue
		}
		for _, b := range fn.Blocks {
			for _, in := range b.Instrs {
				phi, ok := in.(*ssa.Phi)
				if !ok || !isString(phi.Type()) {
					continue
				}
				n++
				for i, e := range phi.Edges {
					if !b.Dominates(b.Preds[i]) {
						continue // not a back edge
					}
					// e = phi + ... (possibly a chain of concatenations)
					v := e
					found := false
					for d := 0; d < 6; d++ {
						bo, ok := v.(*ssa.BinOp)
						if !ok || bo.Op != token.ADD {
							break
						}
						if bo.X == ssa.Value(phi) || bo.Y == ssa.Value(phi) {
							found = true
							break
						}
						v = bo.X
					}
					if found {
						c.R.Fail("R10.6", core.ShortFn(fn)+": string accumulated by concatenation in a loop", p.Pos(e.Pos()), "each iteration copies the text accumulated so far: the loop is quadratic in the size of its input, and a very long line or document makes the call take minutes")
					}
					// e = strings.ReplaceAll(phi, k, k') with k' a proper prefix (or suffix) of k, repeated while the string
					// still contains k: each pass copies the whole string and can take out as little as one character of a
					// run ("httpsss...s"), so the loop is quadratic in the length of the word
					// e = f(phi) for a whole-string transformation of the standard library that can shorten its input by a fixed
					// amount per pass (html.UnescapeString on "&amp;amp;amp;..."): repeated until nothing changes
					if call, ok := e.(*ssa.Call); ok {
						if n := core.StaticCalleeName(&call.Call); n == "html.UnescapeString" || n == "net/url.QueryUnescape" || n == "net/url.PathUnescape" {
							for _, a := range call.Call.Args {
								if a == ssa.Value(phi) {
									c.R.Fail("R10.6", core.ShortFn(fn)+": a string is rewritten to a fixed point by whole-string passes of "+n, p.Pos(e.Pos()),
										"a word of nested references (\"&amp;amp;amp;...\") loses one level per pass and every pass copies the whole word: quadratic in the length of a word, a megabyte-long word makes Normalize, AddContent and Match take minutes")
								}
							}
						}
					}
					if call, ok := e.(*ssa.Call); ok {
						if n := core.StaticCalleeName(&call.Call); (n == "strings.ReplaceAll" || n == "strings.Replace") && call.Call.Args[0] == ssa.Value(phi) {
							from, ok1 := core.ConstString(call.Call.Args[1])
							to, ok2 := core.ConstString(call.Call.Args[2])
							if ok1 && ok2 && len(to) < len(from) && to != "" && (strings.HasPrefix(from, to) || strings.HasSuffix(from, to)) {
								c.R.Fail("R10.6", core.ShortFn(fn)+": a string is rewritten to a fixed point by whole-string replacement passes", p.Pos(e.Pos()),
									fmt.Sprintf("replacing %q by %q until none is left takes one pass over the whole string per character of a run (%q followed by many %q): quadratic in the length of a word, a megabyte-long word makes the call take minutes", from, to, from, strings.TrimPrefix(from, to)))
							}
						}
					}
				}
			}
		}
	}
	c.R.Count("R10.6:loop-carried string values examined", n)
	c.R.OK("R10.6", "no loop of the library accumulates a string by concatenation", "-", fmt.Sprintf("%d loop-carried string values examined", n))
}

// checkDocumentPartsBuilt: R10.7. A document's frequency table and search set are built by dedicated methods and used
// through pointer fields that are nil before. (a) Each such builder assigns its field on every path (no early return for
// an "empty" document: the users dereference the field unconditionally). (b) In match, the input's search set is
// read inside the loop over the first-pass documents; the call that builds it is unconditional or guarded by exactly
// "the first pass is not empty" - the condition under which that loop runs - and by nothing more.
func checkDocumentPartsBuilt(c *Ctx, p *core.Prog) {
	r := rolesOf(p)
	if !r.ok || r.docType == nil {
		return
	}
	// (a)
	nB := 0
	var builders []*ssa.Function
	for _, fn := range v2Funcs(p) {
		if fn.Signature.Results().Len() != 0 || len(fn.Params) == 0 {
			continue
		}
		pt, ok := fn.Params[0].Type().(*types.Pointer)
		if !ok || !(types.Identical(pt.Elem(), r.docType) || types.Identical(pt, r.docType)) {
			continue
		}
		// stores of a freshly built object (a call result) into a pointer field of the receiver
		var stores []*ssa.Store
		for _, b := range fn.Blocks {
			for _, in := range b.Instrs {
				st, ok := in.(*ssa.Store)
				if !ok {
					continue
				}
				fa, ok := st.Addr.(*ssa.FieldAddr)
				if !ok || fa.X != ssa.Value(fn.Params[0]) {
					continue
				}
				if _, isPtr := st.Val.Type().Underlying().(*types.Pointer); !isPtr {
					continue
				}
				switch st.Val.(type) {
				case *ssa.Call, *ssa.Alloc:
					// a freshly built object: a constructor call or a composite literal
					stores = append(stores, st)
				}
			}
		}
		if len(stores) == 0 {
			continue
		}
		nB++
		builders = append(builders, fn)
		okAll := true
		for _, b := range fn.Blocks {
			if _, isRet := b.Instrs[len(b.Instrs)-1].(*ssa.Return); !isRet {
				continue
			}
			dom := false
			for _, st := range stores {
				if st.Block().Dominates(b) {
					dom = true
				}
			}
			if !dom {
				okAll = false
			}
		}
		c.R.Check(okAll, "R10.7", core.ShortFn(fn)+": the part of the document it builds is assigned on every path", p.Pos(fn.Pos()), "the store into the receiver's field dominates every return",
			"a path returns without building the part (e.g. for a document without tokens): the field stays nil and the functions that use it dereference it unconditionally - adding or matching a wordless document panics")
	}
	c.R.RequireMin("R10.7", "methods that build a part of a document", nB, 2)
	// (c)
	checkSecondPassHasSearchSet(c, p, builders)
	// (b)
	m := p.Func(v2pkg, "(*Classifier).match")
	if m == nil {
		return
	}
	for _, call := range core.CallsIn(m) {
		cal := call.Common().StaticCallee()
		isBuilder := false
		for _, bf := range builders {
			if bf == cal {
				isBuilder = true
			}
		}
		if !isBuilder {
			continue
		}
		// the conditions the call is control dependent on
		tcd := core.NewPostDom(m).TransitiveControlDeps()
		bad := ""
		for db := range tcd[call.Block()] {
			ifi, ok := db.Instrs[len(db.Instrs)-1].(*ssa.If)
			if !ok {
				continue
			}
			// allowed: the tokenizer's error test (returns before), and len(map) > 0 of a map that is ranged over afterwards
			if bo, isBo := ifi.Cond.(*ssa.BinOp); isBo {
				if cst, isNil := bo.Y.(*ssa.Const); isNil && cst.Value == nil && bo.X.Type().String() == "error" {
					continue
				}
				if lc, isCall := bo.X.(*ssa.Call); isCall && bo.Op == token.GTR {
					if bi, isB := lc.Call.Value.(*ssa.Builtin); isB && bi.Name() == "len" {
						if k, isK := core.ConstInt(bo.Y); isK && k == 0 {
							if _, isMap := lc.Call.Args[0].Type().Underlying().(*types.Map); isMap && (rangedOver(m, lc.Call.Args[0]) || rangedOverInCallee(m, lc.Call.Args[0])) {
								continue
							}
						}
					}
				}
			}
			bad = p.Pos(ifi.Cond.Pos())
		}
		c.R.Check(bad == "", "R10.7", "match: the input's "+cal.Name()+" runs whenever the loop that uses its result can run", p.Pos(call.Pos()), "unconditional, or guarded only by `the first pass is not empty`",
			"the builder call also depends on the condition at "+bad+": the loop over the first-pass documents reads the part unconditionally, so on the inputs for which the condition is false (short inputs) it dereferences nil")
	}
}

// checkSecondPassHasSearchSet: R10.7 (c). The second pass of match dereferences the search set of every document the first
// pass admitted. A corpus document without words has the token similarity 0/0 = NaN. Either every document stored in
// the corpus gets its search set built (the builder call dominates or post-dominates the store into the corpus map), or
// the first pass admits a document only behind a comparison that is false for NaN (`sim >= t` taken on its true edge; not
// `sim < t` on its false edge, which NaN passes). With neither, matching against a corpus that holds a wordless document
// dereferences nil.
func checkSecondPassHasSearchSet(c *Ctx, p *core.Prog, builders []*ssa.Function) {
	m := p.Func(v2pkg, "(*Classifier).match")
	if m == nil {
		return
	}
	// (A) every store into Classifier.docs is accompanied by the search-set builder on the stored document
	allBuilt, nStores, whyA := true, 0, ""
	var ssBuilder *ssa.Function
	for _, bf := range builders {
		if strings.Contains(strings.ToLower(bf.Name()), "searchset") {
			ssBuilder = bf
		}
	}
	for _, fn := range v2Funcs(p) {
		var pd *core.PostDom
		for _, b := range fn.Blocks {
			for _, in := range b.Instrs {
				mu, ok := in.(*ssa.MapUpdate)
				if !ok || !isClsField(mu.Map, func(r *v2Roles) string { return r.docs }) {
					continue
				}
				nStores++
				built := false
				for _, call := range core.CallsIn(fn) {
					if ssBuilder == nil || call.Common().StaticCallee() != ssBuilder || core.Unspill(call.Common().Args[0]) != core.Unspill(mu.Value) {
						continue
					}
					if pd == nil {
						pd = core.NewPostDom(fn)
					}
					if call.Block() == b || call.Block().Dominates(b) || pd.PostDominates(call.Block(), b) {
						built = true
					}
				}
				if !built {
					allBuilt, whyA = false, core.ShortFn(fn)+" stores a document in the corpus on a path that does not build its search set ("+p.Pos(mu.Pos())+")"
				}
			}
		}
	}
	// (B) the first pass admits behind a NaN-rejecting comparison
	nanSafe, nAdmit, whyB := true, 0, ""
	for _, fn := range pkgClosure(m, v2pkg) {
		for _, b := range fn.Blocks {
			for _, in := range b.Instrs {
				mu, ok := in.(*ssa.MapUpdate)
				if !ok {
					continue
				}
				if _, isLocal := core.Unspill(mu.Map).(*ssa.MakeMap); !isLocal {
					continue
				}
				r := rolesOf(p)
				if pt, isP := mu.Value.Type().(*types.Pointer); !isP || !(types.Identical(pt.Elem(), r.docType) || types.Identical(pt, r.docType)) {
					continue
				}
				nAdmit++
				positive := false
				for _, f := range core.FactsAt(b) {
					bo, ok := f.Cond.(*ssa.BinOp)
					if !ok || !f.Truth {
						continue
					}
					isSim := func(v ssa.Value) bool {
						call, ok := v.(*ssa.Call)
						return ok && call.Call.StaticCallee() != nil && strings.Contains(strings.ToLower(call.Call.StaticCallee().Name()), "similarity")
					}
					if ((bo.Op == token.GEQ || bo.Op == token.GTR) && isSim(bo.X)) || ((bo.Op == token.LEQ || bo.Op == token.LSS) && isSim(bo.Y)) {
						positive = true
					}
				}
				if !positive {
					nanSafe, whyB = false, core.ShortFn(fn)+" admits a document to the second pass without a comparison that is false for NaN ("+p.Pos(mu.Pos())+")"
				}
			}
		}
	}
	if nStores == 0 || nAdmit == 0 || ssBuilder == nil {
		c.R.Info("R10.7", "second pass: search sets of the admitted documents", p.Pos(m.Pos()), fmt.Sprintf("not decided: %d corpus stores, %d admissions found", nStores, nAdmit))
		return
	}
	c.R.Check(allBuilt || nanSafe, "R10.7", "match: a document that reaches the second pass has a search set", p.Pos(m.Pos()),
		fmt.Sprintf("every corpus store builds the search set: %v; the first pass rejects NaN similarities: %v", allBuilt, nanSafe),
		whyA+"; "+whyB+": a corpus document without words (similarity 0/0 = NaN) reaches the second pass with a nil search set and Match panics")
}

// rangedOverInCallee: the map is handed to a function of the package that ranges over the corresponding parameter.
func rangedOverInCallee(fn *ssa.Function, m ssa.Value) bool {
	for _, call := range core.CallsIn(fn) {
		g := call.Common().StaticCallee()
		if g == nil || core.FuncPkgPath(g) != v2pkg || len(g.Blocks) == 0 {
			continue
		}
		for i, a := range call.Common().Args {
			if a == m && i < len(g.Params) && rangedOver(g, g.Params[i]) {
				return true
			}
		}
	}
	return false
}

// rangedOver: the map value is the operand of a range statement of fn.
func rangedOver(fn *ssa.Function, m ssa.Value) bool {
	for _, b := range fn.Blocks {
		for _, in := range b.Instrs {
			if r, ok := in.(*ssa.Range); ok && r.X == m {
				return true
			}
		}
	}
	return false
}

// checkPairwiseLoops: R10.9. A loop over a list nested in a loop over the same list does a quadratic amount of work in the
// length of the list. That is harmless for lists whose length is set by the corpus; it is not for a list that holds an
// entry per line of the input (the notice pseudo-matches): a megabyte of short notice lines keeps Match busy for minutes.
func checkPairwiseLoops(c *Ctx, p *core.Prog, fns []*ssa.Function) {
	n := 0
	for _, fn := range fns {
		if isTraceFn(fn) {
			continue
		}
		loops := rangeLoopsOf(fn)
		for _, outer := range loops {
			if _, isSl := outer.over.Type().Underlying().(*types.Slice); !isSl {
				continue
			}
			body := naturalLoop(outer.header)
			for _, inner := range loops {
				if inner.header == outer.header || !body[inner.header] {
					continue
				}
				if _, isSl := inner.over.Type().Underlying().(*types.Slice); !isSl {
					continue
				}
				if inner.over != outer.over && !sameSliceBase(inner.over, outer.over) {
					continue
				}
				n++
				// whose length does the input set? a list that is extended by a slice taken from the tokenized input
				perInput := false
				for v := range sliceFamily(outer.over) {
					if call, ok := v.(*ssa.Call); ok {
						if bi, isB := call.Call.Value.(*ssa.Builtin); isB && bi.Name() == "append" && len(call.Call.Args) == 2 {
							arg := call.Call.Args[1]
							for k := 0; k < 3; k++ {
								switch x := arg.(type) {
								case *ssa.ChangeType:
									arg = x.X
								case *ssa.Slice:
									arg = x.X
								case *ssa.Convert:
									arg = x.X
								}
							}
							if ld, isLd := arg.(*ssa.UnOp); isLd {
								if fa, isFA := ld.X.(*ssa.FieldAddr); isFA && strings.HasSuffix(core.TypeName(fa.X.Type()), "/v2.indexedDocument") {
									perInput = true
								}
							}
						}
					}
				}
				key := core.ShortFn(fn) + ": every element of " + core.TypeName(outer.over.Type()) + " is compared with the elements before it"
				if perInput {
					c.R.Fail("R10.9", "a list with one entry per notice line of the input is walked pairwise", p.Pos(inner.header.Instrs[0].Pos()), "the list holds one entry per notice line of the input (it is extended by the input document's own matches), and the loop over it is nested in a loop over it: the work is quadratic in the number of such lines - a megabyte of short notice lines takes minutes")
				} else {
					c.R.OK("R10.9", key, p.Pos(inner.header.Instrs[0].Pos()), "the list's length is not set by the input's lines")
				}
			}
		}
	}
	c.R.Count("R10.9:loops over a list nested in a loop over the same list", n)
	// (no floor: the ideal number of such loops is zero; on the current tree the rule's positive example is known finding D49)
	c.R.OK("R10.9", "v2: loops over a list nested in a loop over the same list were looked for", v2pkg, fmt.Sprintf("%d found", n))
}

// checkBufferCopiedInLoop: R10.10. (*bytes.Buffer).String copies the whole buffer. A loop that writes to a buffer and also
// takes its String on every round (to look at its end, say) copies everything written so far each time: the work is quadratic
// in the size of the input, and Normalize of a megabyte does not come back. Buffers that belong to one round of the loop
// (declared or reset inside it) are exempt.
func checkBufferCopiedInLoop(c *Ctx, p *core.Prog, fns []*ssa.Function) {
	root := func(v ssa.Value) ssa.Value {
		for d := 0; d < 4; d++ {
			switch x := v.(type) {
			case *ssa.FieldAddr:
				v = x.X
			case *ssa.UnOp:
				v = x.X
			default:
				return v
			}
		}
		return v
	}
	nB, bad := 0, ""
	for _, fn := range fns {
		type use struct {
			in   ssa.Instruction
			name string
		}
		byBuf := map[ssa.Value][]use{}
		for _, call := range core.CallsIn(fn) {
			n := core.StaticCalleeName(call.Common())
			if !strings.HasPrefix(n, "(*bytes.Buffer).") || len(call.Common().Args) == 0 {
				continue
			}
			r := root(call.Common().Args[0])
			byBuf[r] = append(byBuf[r], use{call.(ssa.Instruction), strings.TrimPrefix(n, "(*bytes.Buffer).")})
		}
		for buf, uses := range byBuf {
			nB++
			for _, u := range uses {
				if u.name != "String" {
					continue
				}
				// innermost..outermost loops containing the String call
				for h := u.in.Block(); h != nil; h = h.Idom() {
					isHeader := false
					for _, pr := range h.Preds {
						if h.Dominates(pr) {
							isHeader = true
						}
					}
					if !isHeader {
						continue
					}
					loop := naturalLoop(h)
					if !loop[u.in.Block()] {
						continue
					}
					if al, ok := buf.(*ssa.Alloc); ok && loop[al.Block()] {
						continue // one buffer per round
					}
					writes, resets := false, false
					for _, w := range uses {
						if !loop[w.in.Block()] {
							continue
						}
						switch {
						case strings.HasPrefix(w.name, "Write"), w.name == "ReadFrom":
							writes = true
						case w.name == "Reset", w.name == "Truncate":
							resets = true
						}
					}
					if writes && !resets && bad == "" {
						bad = core.ShortFn(fn) + ": " + p.Pos(u.in.Pos())
					}
				}
			}
		}
	}
	c.R.Check(bad == "", "R10.10", "no buffer is copied out on every round of the loop that fills it", v2pkg, fmt.Sprintf("%d byte buffers in the library's functions", nB),
		"(*bytes.Buffer).String is called inside the loop that writes the buffer ("+bad+"): every round copies all that was written so far, so the time grows with the square of the input - a few megabytes do not come back")
}

// checkGrowingListRescanned: R10.11. A loop that, for every element it handles, walks a list to which it adds an entry per
// element does work that grows with the square of the number of elements: the inner loop ranges over a slice (or over the
// slice stored under a map key) that the enclosing loop appends to. With one element per occurrence of a short text - tens
// of thousands on a megabyte-long line - Match takes minutes.
func checkGrowingListRescanned(c *Ctx, p *core.Prog, fns []*ssa.Function) {
	n := 0
	for _, fn := range fns {
		if isTraceFn(fn) {
			continue
		}
		rls := rangeLoopsOf(fn)
		var headers []*ssa.BasicBlock
		for _, h := range fn.Blocks {
			for _, pr := range h.Preds {
				if h.Dominates(pr) {
					headers = append(headers, h)
					break
				}
			}
		}
		reported := map[string]bool{}
		for _, rl := range rls {
			over := core.Unspill(rl.over)
			if _, isSl := over.Type().Underlying().(*types.Slice); !isSl {
				continue
			}
			fam := sliceFamily(over)
			var viaMap ssa.Value
			if lk, ok := over.(*ssa.Lookup); ok {
				viaMap = core.Unspill(lk.X)
			}
			inner := naturalLoop(rl.header)
			for _, h2 := range headers {
				if h2 == rl.header || inner[h2] {
					continue
				}
				outer := naturalLoop(h2)
				if !outer[rl.header] {
					continue
				}
				grows := ""
				for b := range outer {
					for _, in := range b.Instrs {
						switch x := in.(type) {
						case *ssa.Call:
							if bi, ok := x.Call.Value.(*ssa.Builtin); ok && bi.Name() == "append" && fam[x] {
								grows = p.Pos(x.Pos())
							}
						case *ssa.MapUpdate:
							if viaMap != nil && core.Unspill(x.Map) == viaMap {
								if ap, ok := x.Value.(*ssa.Call); ok {
									if bi, ok := ap.Call.Value.(*ssa.Builtin); ok && bi.Name() == "append" {
										grows = p.Pos(x.Pos())
									}
								}
							}
						}
					}
				}
				if grows == "" {
					continue
				}
				what := "a slice variable of " + core.TypeName(over.Type())
				if viaMap != nil {
					what = "the slice stored under a key of a " + core.TypeName(viaMap.Type())
				}
				// keyed by the kind of list, not by the function or variable, so that the finding keeps its identity when the
				// loop is moved into a helper
				key := "v2: the loop over " + what + " does not re-walk a list that the enclosing loop extends"
				if reported[key] {
					continue
				}
				reported[key] = true
				n++
				c.R.Fail("R10.11", key, p.Pos(rl.header.Instrs[0].Pos()),
					"in "+core.ShortFn(fn)+" the enclosing loop appends to the list (at "+grows+") that this loop walks on every round: the work grows with the square of the number of elements - a megabyte-long line with tens of thousands of occurrences of a short corpus text keeps Match busy for minutes")
			}
		}
	}
	if n == 0 {
		c.R.OK("R10.11", "no loop re-walks a list that the enclosing loop extends", v2pkg, "range loops over slices in the library's functions examined")
	}
}

// checkLineKeyedTables: R10.12. A table that is indexed by line numbers is a map, or the index stands behind a test against the
// table's length. Line numbers come from two sources that need not agree - the tokens (the last token's line) and the notice
// pseudo-matches, which leave no token: a slice sized by one of them and indexed by the other is out of range for an input
// whose last word-bearing line is a notice. Decided for index expressions that derive (through phis and +/- constants) from a
// load of a field named ...Line.
func checkLineKeyedTables(c *Ctx, p *core.Prog, fns []*ssa.Function) {
	fromLine := func(v ssa.Value) bool {
		seen := map[ssa.Value]bool{}
		var walk func(v ssa.Value, d int) bool
		walk = func(v ssa.Value, d int) bool {
			v = core.Unspill(v)
			if v == nil || seen[v] || d > 6 {
				return false
			}
			seen[v] = true
			switch x := v.(type) {
			case *ssa.Phi:
				for _, e := range x.Edges {
					if walk(e, d+1) {
						return true
					}
				}
			case *ssa.BinOp:
				if x.Op == token.ADD || x.Op == token.SUB {
					return walk(x.X, d+1) || walk(x.Y, d+1)
				}
			case *ssa.Convert:
				return walk(x.X, d+1)
			case *ssa.UnOp:
				if fa, ok := x.X.(*ssa.FieldAddr); ok && x.Op == token.MUL {
					return strings.HasSuffix(core.FieldName(fa), "Line")
				}
			case *ssa.Field:
				if st := core.StructOf(x.X.Type()); st != nil {
					return strings.HasSuffix(st.Field(x.Field).Name(), "Line")
				}
			}
			return false
		}
		return walk(v, 0)
	}
	n, bad := 0, ""
	for _, fn := range fns {
		if isTraceFn(fn) {
			continue
		}
		for _, b := range fn.Blocks {
			for _, in := range b.Instrs {
				ia, ok := in.(*ssa.IndexAddr)
				if !ok {
					continue
				}
				if _, isSl := ia.X.Type().Underlying().(*types.Slice); !isSl || !fromLine(ia.Index) {
					continue
				}
				n++
				guarded := false
				for _, f := range core.FactsAt(b) {
					cmp, ok := f.AsCmp()
					if !ok {
						continue
					}
					for _, o := range []ssa.Value{cmp.X, cmp.Y} {
						if call, isCall := o.(*ssa.Call); isCall {
							if bi, isB := call.Call.Value.(*ssa.Builtin); isB && bi.Name() == "len" && sameSliceBase(call.Call.Args[0], ia.X) {
								guarded = true
							}
						}
					}
				}
				if !guarded && bad == "" {
					bad = core.ShortFn(fn) + ": " + p.Pos(ia.Pos())
				}
			}
		}
	}
	c.R.Check(bad == "", "R10.12", "a table indexed by line numbers is a map, or the index is tested against its length", v2pkg, fmt.Sprintf("%d slice accesses indexed by a line number", n),
		"a slice is indexed by a line number without a test against its length ("+bad+"): the lines of notice pseudo-matches are not bounded by the line of the last token, so an input whose last word-bearing line is a notice makes Match panic")
}

// checkByteBufferIndex: R10.13. A byte of a buffer is read by index only below a bound that was tested: an access buf[i] into a
// []byte with a computed index i (not a constant, not len(buf)-k, which R10.1 decides) stands behind a test `i < ...`. The read
// window of the tokenizer is full when the input fills it exactly: a look-ahead at the byte behind the current rune without
// such a test reads one past the end for an input whose last byte is the last byte of the window.
func checkByteBufferIndex(c *Ctx, p *core.Prog, fns []*ssa.Function) {
	n, bad := 0, ""
	for _, fn := range fns {
		if isTraceFn(fn) {
			continue
		}
		for _, b := range fn.Blocks {
			for _, in := range b.Instrs {
				ia, ok := in.(*ssa.IndexAddr)
				if !ok {
					continue
				}
				sl, isSl := ia.X.Type().Underlying().(*types.Slice)
				if !isSl {
					continue
				}
				if bt, isB := sl.Elem().Underlying().(*types.Basic); !isB || bt.Kind() != types.Byte {
					continue
				}
				idx := core.Unspill(ia.Index)
				if _, isK := idx.(*ssa.Const); isK {
					continue
				}
				if bo, isBo := idx.(*ssa.BinOp); isBo && bo.Op == token.SUB && strings.HasPrefix(core.AP(bo.X), "len(") {
					continue
				}
				// the index of a range loop over the same slice is in range by construction
				if bo, isBo := idx.(*ssa.BinOp); isBo && bo.Op == token.ADD {
					if ph, isPhi := bo.X.(*ssa.Phi); isPhi {
						fromMinusOne := false
						for _, e := range ph.Edges {
							if k, isK := core.ConstInt(e); isK && k == -1 {
								fromMinusOne = true
							}
						}
						if fromMinusOne {
							continue
						}
					}
				}
				n++
				guarded := false
				for _, f := range core.FactsAt(b) {
					cmp, ok := f.AsCmp()
					if !ok {
						continue
					}
					x, y := core.Unspill(cmp.X), core.Unspill(cmp.Y)
					if (x == idx && (cmp.Op == token.LSS || cmp.Op == token.LEQ)) || (y == idx && (cmp.Op == token.GTR || cmp.Op == token.GEQ)) {
						guarded = true
					}
				}
				if !guarded && bad == "" {
					bad = core.ShortFn(fn) + ": " + p.Pos(ia.Pos())
				}
			}
		}
	}
	c.R.Check(bad == "", "R10.13", "a byte buffer is indexed by a computed position only behind a test of that position", v2pkg, fmt.Sprintf("%d accesses of a []byte at a computed index", n),
		"a []byte is read at a computed index without a dominating `index < bound` test ("+bad+"): when the position is the end of the buffer - an input that fills the read window exactly - the access is out of range and Match/MatchFrom panic")
}

// checkListTableIndex: R10.14. A table of lists that is allocated with a length (make([][]T, n)) and indexed by a position that
// is computed by arithmetic (an offset plus a base) is indexed behind a test of that position: the length and the largest
// position are computed in different places, and an off-by-one between them is an index out of range for the inputs that
// reach the last cell. A map has no such bound.
func checkListTableIndex(c *Ctx, p *core.Prog, fns []*ssa.Function) {
	n, bad := 0, ""
	for _, fn := range fns {
		if isTraceFn(fn) {
			continue
		}
		for _, b := range fn.Blocks {
			for _, in := range b.Instrs {
				ia, ok := in.(*ssa.IndexAddr)
				if !ok {
					continue
				}
				sl, isSl := ia.X.Type().Underlying().(*types.Slice)
				if !isSl {
					continue
				}
				if _, elemSl := sl.Elem().Underlying().(*types.Slice); !elemSl {
					continue
				}
				if _, isMake := core.Unspill(ia.X).(*ssa.MakeSlice); !isMake {
					continue
				}
				idx := core.Unspill(ia.Index)
				bo, isBo := idx.(*ssa.BinOp)
				if !isBo || (bo.Op != token.ADD && bo.Op != token.SUB) {
					continue
				}
				// the index of a range loop (i+1 over a phi from -1) is in range by construction
				if ph, isPhi := bo.X.(*ssa.Phi); isPhi {
					fromMinusOne := false
					for _, e := range ph.Edges {
						if k, isK := core.ConstInt(e); isK && k == -1 {
							fromMinusOne = true
						}
					}
					if fromMinusOne {
						continue
					}
				}
				n++
				guarded := false
				for _, f := range core.FactsAt(b) {
					if cmp, ok := f.AsCmp(); ok {
						if core.Unspill(cmp.X) == idx || core.Unspill(cmp.Y) == idx {
							guarded = true
						}
					}
				}
				if !guarded && bad == "" {
					bad = core.ShortFn(fn) + ": " + p.Pos(ia.Pos())
				}
			}
		}
	}
	c.R.Check(bad == "", "R10.14", "a table of lists with a fixed length is indexed by a computed position only behind a test of it", v2pkg, fmt.Sprintf("%d such accesses", n),
		"a table allocated with make is indexed by a computed position without a test of that position ("+bad+"): where the length and the largest position disagree by one, the inputs that reach the last cell make Match panic")
}
