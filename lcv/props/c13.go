package props

import (
	"fmt"
	"go/token"
	"go/types"
	"regexp"
	"sort"
	"strings"

	"golang.org/x/tools/go/ssa"

	"lcv/core"
	"lcv/eng"
)

func init() {
	register(&Check{
		ID:      "C13",
		Modules: []string{""},
		Explanation: "Static rules on the v1 string classifier: (R13.1) regexp.MustCompile* is applied only to compile-time constants anywhere in the root module, so registering a value can never panic in the regexp compiler, and a value that is compiled is first passed through regexp.QuoteMeta; " +
			"(R13.2) every Match pushed on a result queue has a Confidence that is the constant 1.0 or is dominated by a `> 0` test; (R13.3) the length pre-filter admits a candidate whose ratio equals the threshold (inclusive comparison), so exact copies are not dropped at threshold 1.0; (R13.7) duplicate removal compares a match's offset strictly with the (exclusive) end of an accepted range; (R13.6) result lists are sorted by a comparator that is a strict order on exact comparisons with Confidence as primary descending key (a tolerance makes equality intransitive); (R13.5) an entry point that normalises its text argument uses the raw text for nothing else; (R13.4) an exact occurrence found by the regular expression is reported with its byte range, never by way of token indices (an occurrence need not begin and end with a token). " +
			"Necessary conditions only: exact Offset/Extent of the occurrence shortcut and the <= 1 bound are numeric behaviour and are not decided.",
		Run: runC13,
	})
	register(&Check{
		ID:      "C16",
		Modules: []string{""},
		Explanation: "Dominance rule on License.MultipleMatch: every match appended to its result is dominated by the true edge of WithinConfidenceThreshold(v.Confidence), and the body of that predicate is `conf > Threshold` or |conf - Threshold| below a tiny epsilon (<= 1e-9); (R16.2) the common-license-words gate is case-insensitive wherever it is applied to raw text (table rule). " +
			"Decides for all inputs that no match below the classifier's threshold is returned; that each corpus text is recognised is behavioural and not decided.",
		Run: runC16,
	})
}

func runC13(c *Ctx) {
	p := c.Prog("")
	if p == nil {
		return
	}
	// shared with C14: MultipleMatch collects its matches from goroutines through one queue; unless every operation on it
	// holds the queue's mutex, pushes are lost and a verbatim copy goes unreported (R14.4)
	{
		qfns := pkgFuncs(p, scPkg)
		flows := map[*ssa.Function]*eng.LockFlow{}
		for _, f := range qfns {
			flows[f] = eng.NewLockFlow(f)
		}
		checkQueueMutex(c, p, qfns, flows)
	}
	// shared with C17: every Offset/Extent lies inside the unknown string - the byte range of a candidate ends with the
	// last token of the range, not with the token behind it (R17.4)
	borrowRules(c, []string{"R17.4", "R17.1"}, runC17)
	// shared with C14: a verbatim copy is reported only if the search does not crash - the known values are read under the lock
	// (R14.1) and a value is complete when it becomes visible (R14.6)
	if c.R.Filter == nil {
		borrowRules(c, []string{"R14.1", "R14.6"}, runC14)
	}
	// shared with C14: NearestMatch/MultipleMatch keep no result or scratch state between calls (R14.5)
	checkV1SharedWrites(c, p)
	total, _ := checkMustCompile(c, p, "R13.1", core.RootMod)
	c.R.RequireMin("R13.1", "regexp.MustCompile call sites in the root module", total, 25)
	checkRegisteredValueQuoted(c, p)

	// R13.2
	fns := pkgFuncs(p, scPkg)
	n := 0
	for _, lit := range structLits(fns, "stringclassifier.Match") {
		conf := lit.fields["Confidence"]
		if conf == nil {
			continue
		}
		n++
		key := core.ShortFn(lit.fn) + ": Match literal"
		if f, ok := core.ConstFloat(conf); ok {
			c.R.Check(f == 1.0, "R13.2", key+" with constant Confidence", p.Pos(lit.alloc.Pos()), "constant 1.0", fmt.Sprintf("constant confidence %v outside (0,1]", f))
			continue
		}
		ok := false
		for _, fct := range core.FactsAtInstr(lit.alloc) {
			cmp, isCmp := fct.AsCmp()
			if !isCmp {
				continue
			}
			if z, isZ := core.ConstFloat(cmp.Y); isZ && z == 0 && cmp.Op == token.GTR && cmp.X == conf {
				ok = true
			}
		}
		c.R.Check(ok, "R13.2", key+": Confidence was tested > 0 on every path", p.Pos(lit.alloc.Pos()), "dominating conf > 0.0", "a match whose confidence may be 0 (or negative) is queued: reported confidences must lie in (0,1]")
	}
	c.R.RequireMin("R13.2", "Match literals with a Confidence", n, 2)

	// R13.4 the exact-occurrence shortcut tests the start token also as the end token
	checkOccurrenceShortcut(c, p)

	// R13.6 the order in which duplicates are removed: Matches.Less is decided by exact comparisons, Confidence first
	{
		oa := eng.NewOrderAnalysis(p, pkgFuncs(p, scPkg))
		oa.FindSorts()
		n6 := 0
		for _, site := range oa.Sorts {
			if site.Value == nil || !strings.HasSuffix(core.TypeName(site.Value.Type()), "stringclassifier.Matches") {
				continue
			}
			n6++
			cmp := site.Cmp
			ok := cmp != nil && cmp.Undecided == "" && cmp.Bad == 0 && cmp.FirstKey == "Confidence" && cmp.FirstDir == "desc"
			why := "exact comparisons; a greater Confidence alone decides Less"
			if !ok {
				why = "Matches.Less is not a strict order with Confidence as its primary descending key (" + firstKeyDesc(cmp) + ")"
				if cmp != nil && cmp.Undecided == "" && cmp.Bad > 0 {
					why = "Matches.Less is not a strict order: " + cmp.FirstBad
				}
				why += ": with a tolerance (|a-b| < eps) equality is not transitive, so which of two overlapping matches sorts first - and survives the removal of duplicates - depends on their names instead of their confidence; a verbatim copy at 1.0 can lose to a near miss"
			}
			c.R.Check(ok, "R13.6", core.ShortFn(site.Fn)+": the matches are sorted by a strict order with Confidence as primary key", p.Pos(site.Call.Pos()), why, why)
		}
		c.R.RequireMin("R13.6", "sorts of stringclassifier.Matches", n6, 1)
	}

	// R13.7 duplicate removal treats the range of a match as half open: Offset is compared strictly with Offset+Extent
	if uq := p.Func(scPkg, "(Matches).uniquify"); c.R.Anchor(uq != nil, "stringclassifier.(Matches).uniquify") {
		n7 := 0
		var uqBlocks []*ssa.BasicBlock
		for _, f := range pkgClosure(uq, scPkg) {
			uqBlocks = append(uqBlocks, f.Blocks...)
		}
		for _, b := range uqBlocks {
			for _, in := range b.Instrs {
				bo, ok := in.(*ssa.BinOp)
				if !ok {
					continue
				}
				// X op (a + b)  or  (a + b) op X  with a, b fields of one element
				sum, other, mirrored := bo.Y, bo.X, false
				if _, isAdd := sum.(*ssa.BinOp); !isAdd {
					sum, other, mirrored = bo.X, bo.Y, true
				}
				// ... or X op r.end, where the record keeps the (exclusive) end of the range in a field of its own
				endField := func(v ssa.Value) bool {
					switch x := v.(type) {
					case *ssa.Field:
						if st, ok := x.X.Type().Underlying().(*types.Struct); ok {
							return strings.EqualFold(st.Field(x.Field).Name(), "end")
						}
					case *ssa.UnOp:
						if fa, ok := x.X.(*ssa.FieldAddr); ok {
							return strings.EqualFold(core.FieldName(fa), "end")
						}
					}
					return false
				}
				if endField(bo.Y) || endField(bo.X) {
					op := bo.Op
					if endField(bo.X) && !endField(bo.Y) {
						switch op {
						case token.GTR:
							op = token.LSS
						case token.GEQ:
							op = token.LEQ
						case token.LSS:
							op = token.GTR
						case token.LEQ:
							op = token.GEQ
						}
					}
					if op == token.LSS || op == token.LEQ || op == token.GTR || op == token.GEQ {
						n7++
						c.R.Check(op == token.LSS || op == token.GEQ, "R13.7", "uniquify: a match is contained in an accepted one only if it starts before that one's end (exclusive)", p.Pos(bo.Pos()),
							"Offset is compared strictly with the recorded end", "the comparison with the recorded end is not strict: the end is exclusive, so a verbatim copy that starts exactly where another reported match ends is removed as if it were contained in it")
					}
					continue
				}
				add, isAdd := sum.(*ssa.BinOp)
				if !isAdd || add.Op != token.ADD || other == nil {
					continue
				}
				// the sum of two fields of one element (start + length of an accepted range)
				fieldBase := func(v ssa.Value) ssa.Value {
					switch x := v.(type) {
					case *ssa.Field:
						return x.X
					case *ssa.UnOp:
						if fa, ok := x.X.(*ssa.FieldAddr); ok {
							return fa.X
						}
					}
					return nil
				}
				if b1, b2 := fieldBase(add.X), fieldBase(add.Y); b1 == nil || b2 == nil || !sameExpr(b1, b2, 0) {
					continue
				}
				op := bo.Op
				if mirrored {
					switch op {
					case token.GTR:
						op = token.LSS
					case token.GEQ:
						op = token.LEQ
					case token.LSS:
						op = token.GTR
					case token.LEQ:
						op = token.GEQ
					}
				}
				if op != token.LSS && op != token.LEQ && op != token.GTR && op != token.GEQ {
					continue
				}
				n7++
				c.R.Check(op == token.LSS || op == token.GEQ, "R13.7", "uniquify: a match is contained in an accepted one only if it starts before that one's end (exclusive)", p.Pos(bo.Pos()),
					"Offset is compared strictly with offset+extent", "the comparison with offset+extent is not strict: the extent is exclusive, so a verbatim copy that starts exactly where another reported match ends is removed as if it were contained in it")
			}
		}
		c.R.RequireMin("R13.7", "comparisons with the end of an accepted range", n7, 1)
	}

	// R13.8 the classifier owns its normaliser list: New copies the caller's slice (a variadic argument is the caller's
	// array when called with fns...), so a later change of that array cannot change how registered and unknown texts are
	// normalised
	if nw := p.Func(scPkg, "New"); c.R.Anchor(nw != nil, "stringclassifier.New") {
		e := eng.NewExplorer(p, core.RootMod)
		ps := make([]eng.Prov, len(nw.Params))
		for i, prm := range nw.Params {
			if eng.PointerLike(prm.Type()) {
				ps[i] = eng.Input
			}
		}
		e.Run(nw, ps)
		aliased := eng.Prov(0)
		if clsT := p.Named(scPkg, "Classifier"); clsT != nil {
			if st, ok := clsT.Underlying().(*types.Struct); ok {
				for f := 0; f < st.NumFields(); f++ {
					if _, isSl := st.Field(f).Type().Underlying().(*types.Slice); isSl {
						aliased |= e.HeapOf(fmt.Sprintf("%s.#%d", types.TypeString(clsT, nil), f)) &^ eng.Fresh
					}
				}
			}
		}
		c.R.Check(aliased == 0, "R13.8", "New keeps a private copy of the normaliser list", p.Pos(nw.Pos()), "every slice stored into the new classifier is allocated by New",
			"a slice field of the new classifier has provenance "+aliased.String()+": it is the caller's array, so overwriting an element of the slice that was passed (to build a second classifier, say) changes how this classifier normalises - registered values no longer equal the normalised unknown text and verbatim copies are not found")
	}

	// R13.5 the raw unknown text is only ever normalised: every comparison, length and diff works on the normalised text
	norm := p.Func(scPkg, "(*Classifier).normalize")
	if c.R.Anchor(norm != nil, "stringclassifier.(*Classifier).normalize") {
		n5 := 0
		for _, fn := range pkgFuncs(p, scPkg) {
			if fn.Parent() != nil || fn == norm {
				continue
			}
			for _, call := range core.CallsIn(fn) {
				if call.Common().StaticCallee() != norm || len(call.Common().Args) < 2 {
					continue
				}
				prm, ok := call.Common().Args[1].(*ssa.Parameter)
				if !ok {
					continue // a spilled or computed argument: not this rule's shape
				}
				n5++
				other := ""
				for _, r := range *prm.Referrers() {
					if r == ssa.Instruction(call.(ssa.Instruction)) {
						continue
					}
					if _, isDbg := r.(*ssa.DebugRef); isDbg {
						continue
					}
					other = r.String()
				}
				c.R.Check(other == "", "R13.5", core.ShortFn(fn)+": the raw text is used only as the argument of normalize", p.Pos(call.Pos()), "every other use works on the normalised text",
					"the raw (un-normalised) text is also used in `"+other+"`: lengths and comparisons against normalised known values are made on text with different whitespace/punctuation, so an exact copy can be filtered out")
			}
		}
		c.R.RequireMin("R13.5", "entry points that normalise their argument", n5, 2)
	}

	checkV1KeysAndPaths(c, p, norm)

	// R13.3
	if fn := p.Func(scPkg, "(*matcher).withinConfidenceThreshold"); c.R.Anchor(fn != nil, "stringclassifier.(*matcher).withinConfidenceThreshold") {
		ok, why := false, "no return of a comparison"
		for _, b := range fn.Blocks {
			for _, in := range b.Instrs {
				ret, isRet := in.(*ssa.Return)
				if !isRet || len(ret.Results) != 1 {
					continue
				}
				v := ret.Results[0]
				neg := false
				if u, isU := v.(*ssa.UnOp); isU && u.Op == token.NOT {
					v, neg = u.X, true
				}
				bo, isBo := v.(*ssa.BinOp)
				if !isBo {
					why = "returns " + v.String()
					continue
				}
				thrRight := strings.HasSuffix(core.AP(bo.Y), ".threshold")
				thrLeft := strings.HasSuffix(core.AP(bo.X), ".threshold")
				op := bo.Op
				if neg {
					switch op {
					case token.LSS:
						op = token.GEQ
					case token.GTR:
						op = token.LEQ
					}
				}
				switch {
				case thrRight && op == token.GEQ, thrLeft && op == token.LEQ:
					ok, why = true, "ratio >= threshold (inclusive)"
				case thrRight || thrLeft:
					why = "the pre-filter compares with " + bo.Op.String() + ": a candidate whose ratio equals the threshold (every exact copy at threshold 1.0) is dropped"
				}
			}
		}
		c.R.Check(ok, "R13.3", "withinConfidenceThreshold admits ratio == threshold", p.Pos(fn.Pos()), why, why)
	}
	// R13.3 (second half): the length pre-filter of nearestMatch skips a known value only when its length ratio is strictly
	// below MinDiffRatio: with MinDiffRatio = 1.0 a string equal to a known value has ratio 1.0 and must get through
	{
		nF, bad := 0, ""
		for _, fn := range pkgFuncs(p, scPkg) {
			for _, b := range fn.Blocks {
				for _, in := range b.Instrs {
					bo, ok := in.(*ssa.BinOp)
					if !ok {
						continue
					}
					right := strings.HasSuffix(core.AP(bo.Y), ".MinDiffRatio")
					left := strings.HasSuffix(core.AP(bo.X), ".MinDiffRatio")
					if !right && !left {
						continue
					}
					nF++
					op := bo.Op
					if left { // normalise to `ratio OP bound`
						switch op {
						case token.LSS:
							op = token.GTR
						case token.GTR:
							op = token.LSS
						case token.LEQ:
							op = token.GEQ
						case token.GEQ:
							op = token.LEQ
						}
					}
					// ratio < bound (skip when true) and ratio >= bound (keep when true) put equality on the keeping side
					if op != token.LSS && op != token.GEQ {
						bad = core.ShortFn(fn) + ": ratio " + op.String() + " MinDiffRatio (" + p.Pos(bo.Pos()) + ")"
					}
				}
			}
		}
		c.R.Check(bad == "", "R13.3", "the length pre-filter keeps a known value whose length ratio equals MinDiffRatio", scPkg, fmt.Sprintf("%d comparisons with MinDiffRatio, each `ratio < bound` or `ratio >= bound`", nF),
			bad+": a known value whose length ratio equals the bound is skipped - with MinDiffRatio = 1.0 that is every string equal to a known value, and NearestMatch returns nothing for it")
		c.R.RequireMin("R13.3", "comparisons with MinDiffRatio", nF, 1)
	}
	// R13.13: a precomputed value is registered as it is given: its search set was computed from exactly this text, so the
	// text is not normalised (again) on the way in
	if apv := p.Func(scPkg, "(*Classifier).AddPrecomputedValue"); c.R.Anchor(apv != nil, "stringclassifier.(*Classifier).AddPrecomputedValue") {
		norm := p.Func(scPkg, "(*Classifier).normalize")
		bad := ""
		for _, f := range pkgClosure(apv, scPkg) {
			if f == norm {
				bad = p.Pos(apv.Pos())
			}
		}
		c.R.Check(bad == "", "R13.13", "AddPrecomputedValue registers the text it is given without normalising it", p.Pos(apv.Pos()), "normalize is not reachable from it",
			"AddPrecomputedValue runs the normalisers over a text that is normalised already: with a normaliser that is not idempotent the registered text differs from the one its search set was computed from and from the normalised unknown text, so a verbatim copy is not found exactly")
	}
	checkConfidenceExact(c, p)
	// R13.17: a hit of the regular expression is a verbatim copy only if its bytes are the value's bytes. Go's regexp decodes
	// every invalid UTF-8 byte of the searched text as U+FFFD, so a value that contains U+FFFD "occurs" wherever the text has
	// an invalid byte in that place: the function that reports the hits compares text[a:b] with the value (or locates the
	// copies by byte comparison in the first place).
	for _, fn := range pkgFuncs(p, scPkg) {
		var find ssa.CallInstruction
		for _, call := range core.CallsIn(fn) {
			if n := core.StaticCalleeName(call.Common()); n == "(*regexp.Regexp).FindAllStringIndex" || n == "(*regexp.Regexp).FindStringIndex" {
				find = call
			}
		}
		if find == nil {
			continue
		}
		verified := false
		for _, b := range fn.Blocks {
			for _, in := range b.Instrs {
				bo, ok := in.(*ssa.BinOp)
				if !ok || (bo.Op != token.EQL && bo.Op != token.NEQ) || !isString(bo.X.Type()) {
					continue
				}
				for _, o := range []ssa.Value{bo.X, bo.Y} {
					if sl, isSl := o.(*ssa.Slice); isSl && isString(sl.X.Type()) {
						verified = true
					}
				}
			}
		}
		// keyed without the function's name, so that the finding keeps its identity when the shortcut is moved into a helper
		c.R.Check(verified, "R13.17", "stringclassifier: a hit of the regular expression is reported only if its bytes equal the known value", p.Pos(find.Pos()),
			"the bytes the expression delimits are compared with the value", "the ranges found by the regular expression are reported unchecked: regexp matches U+FFFD in the value against any invalid byte of the text, so a range that is no copy gets confidence 1.0 and displaces the real verbatim copy")
	}
}

// checkConfidenceExact: R13.14, R13.15, R13.16.
func checkConfidenceExact(c *Ctx, p *core.Prog) {
	fns := pkgFuncs(p, scPkg)
	// R13.14: Confidence 1.0 means "verbatim": the confidence of a near match is 1 - distance/length, strictly below 1.0. No
	// function of the package rounds a floating-point number (math.Round/Floor/Ceil/Trunc, a conversion to an integer): a
	// rounded confidence makes a near match tie with the verbatim copy, which then loses the name tie-break or is filtered
	// as "contained"
	{
		bad := ""
		nF := 0
		for _, fn := range fns {
			hasFloat := false
			for _, b := range fn.Blocks {
				for _, in := range b.Instrs {
					if v, ok := in.(ssa.Value); ok {
						if bt, ok := v.Type().Underlying().(*types.Basic); ok && bt.Info()&types.IsFloat != 0 {
							hasFloat = true
						}
					}
					switch x := in.(type) {
					case *ssa.Call:
						switch core.StaticCalleeName(x.Common()) {
						case "math.Round", "math.RoundToEven", "math.Floor", "math.Ceil", "math.Trunc":
							if bad == "" {
								bad = core.ShortFn(fn) + " calls " + core.StaticCalleeName(x.Common()) + " at " + p.Pos(x.Pos())
							}
						}
					case *ssa.Convert:
						from, ok1 := x.X.Type().Underlying().(*types.Basic)
						to, ok2 := x.Type().Underlying().(*types.Basic)
						if ok1 && ok2 && from.Info()&types.IsFloat != 0 && to.Info()&types.IsInteger != 0 {
							if _, isConst := x.X.(*ssa.Const); !isConst && bad == "" {
								bad = core.ShortFn(fn) + " converts a floating-point value to an integer at " + p.Pos(x.Pos())
							}
						}
					}
				}
			}
			if hasFloat {
				nF++
			}
		}
		c.R.Check(bad == "", "R13.14", "no confidence or ratio is rounded", scPkg, fmt.Sprintf("%d functions that compute with floating-point numbers: no math.Round/Floor/Ceil/Trunc, no float-to-integer conversion", nF),
			bad+": a rounded confidence is 1.0 for near matches as well (0.995 and above with two decimals) - a near match then ties with the verbatim copy of another value, wins the name tie-break, and the verbatim copy is dropped as contained in it")
		c.R.RequireMin("R13.14", "functions that compute with floating-point numbers", nF, 3)
	}
	// R13.15: a match whose confidence equals the threshold is reported: every comparison with the classifier's threshold
	// puts equality on the accepting side (`v < threshold` rejects, `v >= threshold` accepts). With threshold 1.0 the
	// verbatim copies are exactly the matches with confidence == threshold.
	{
		bad := ""
		nC := 0
		for _, fn := range fns {
			for _, b := range fn.Blocks {
				for _, in := range b.Instrs {
					bo, ok := in.(*ssa.BinOp)
					if !ok {
						continue
					}
					right := strings.HasSuffix(core.AP(bo.Y), ".threshold")
					left := strings.HasSuffix(core.AP(bo.X), ".threshold")
					if right == left {
						continue
					}
					op := bo.Op
					if left {
						switch op {
						case token.LSS:
							op = token.GTR
						case token.GTR:
							op = token.LSS
						case token.LEQ:
							op = token.GEQ
						case token.GEQ:
							op = token.LEQ
						}
					}
					switch op {
					case token.LSS, token.GEQ:
						nC++
					case token.LEQ, token.GTR:
						nC++
						if bad == "" {
							bad = core.ShortFn(fn) + ": value " + op.String() + " threshold at " + p.Pos(bo.Pos())
						}
					}
				}
			}
		}
		c.R.Check(bad == "", "R13.15", "a confidence equal to the threshold is accepted", scPkg, fmt.Sprintf("%d comparisons with the threshold, each `v < threshold` or `v >= threshold`", nC),
			bad+": a match whose confidence equals the threshold falls on the rejecting side - with threshold 1.0 that is every verbatim copy")
		c.R.RequireMin("R13.15", "comparisons with the threshold", nC, 1)
	}
	// R13.16: the classifier normalises with the functions it was given - New does not substitute another list for the
	// caller's (an empty list means "compare the texts as they are"; Offset/Extent then refer to the unknown text itself)
	if nw := p.Func(scPkg, "New"); nw != nil && nw.Signature.Variadic() {
		va := nw.Params[len(nw.Params)-1]
		bad := ""
		for _, b := range nw.Blocks {
			for _, in := range b.Instrs {
				ph, ok := in.(*ssa.Phi)
				if !ok || !types.Identical(ph.Type(), va.Type()) {
					continue
				}
				hasParam, other := false, ""
				for _, e := range ph.Edges {
					if core.Unspill(e) == ssa.Value(va) {
						hasParam = true
					} else {
						other = eng.Describe(e)
					}
				}
				if hasParam && other != "" {
					bad = "the list of normalisers is " + other + " on some path (" + p.Pos(ph.Pos()) + ")"
				}
			}
		}
		// a spilled parameter that is stored to
		for _, b := range nw.Blocks {
			for _, in := range b.Instrs {
				if st, ok := in.(*ssa.Store); ok {
					if al, ok := st.Addr.(*ssa.Alloc); ok && !al.Heap && types.Identical(st.Val.Type(), va.Type()) && st.Val != ssa.Value(va) && strings.Contains(al.Comment, va.Name()) {
						bad = "the parameter is assigned " + eng.Describe(st.Val) + " (" + p.Pos(st.Pos()) + ")"
					}
				}
			}
		}
		c.R.Check(bad == "", "R13.16", "New uses the normalisers it is given, also when there are none", p.Pos(nw.Pos()), "the variadic parameter is never merged with another list",
			bad+": a classifier created without normalisers compares other text than the caller's - Offset and Extent no longer delimit the copy in the unknown string as given")
	}
}

// behindStringEquality: block b is only reached when a comparison of two strings for equality held.
func behindStringEquality(b *ssa.BasicBlock) bool {
	for _, f := range core.FactsAt(b) {
		if bo, ok := f.Cond.(*ssa.BinOp); ok && isString(bo.X.Type()) && isString(bo.Y.Type()) {
			if (bo.Op == token.EQL && f.Truth) || (bo.Op == token.NEQ && !f.Truth) {
				return true
			}
		}
	}
	return false
}

// checkRegisteredValueQuoted: R13.1 (second half). A value registered by AddValue/AddPrecomputedValue is quoted before it is
// compiled for the exact-occurrence shortcut, and the compile error is not dropped.
func checkRegisteredValueQuoted(c *Ctx, p *core.Prog) {
	// values registered by AddValue/AddPrecomputedValue are quoted before compilation
	nCompile := 0
	for _, name := range []string{"(*Classifier).AddValue", "(*Classifier).AddPrecomputedValue"} {
		fn := p.Func(scPkg, name)
		if !c.R.Anchor(fn != nil, "stringclassifier."+name) {
			continue
		}
		// the registration function and the helpers of the package it hands the value to
		var sites []ssa.CallInstruction
		siteFn := map[ssa.CallInstruction]*ssa.Function{}
		for _, g := range pkgClosure(fn, scPkg) {
			for _, call := range core.CallsIn(g) {
				sites = append(sites, call)
				siteFn[call] = g
			}
		}
		for _, call := range sites {
			n := core.StaticCalleeName(call.Common())
			if n != "regexp.Compile" && n != "regexp.MustCompile" {
				continue
			}
			nCompile++
			fn := siteFn[call]
			arg := call.Common().Args[0]
			quoted := isCallTo(arg, "regexp.QuoteMeta")
			c.R.Check(quoted, "R13.1", core.ShortFn(fn)+": the registered value is quoted before it is compiled", p.Pos(call.Pos()),
				"regexp.Compile(regexp.QuoteMeta(value))", "a known value is compiled as a regular expression without quoting: metacharacters in it change what the exact-occurrence shortcut matches (and may not compile)")
			// the error of Compile must be returned, not dropped
			if n == "regexp.Compile" {
				cv, _ := call.(*ssa.Call)
				used := false
				if cv != nil {
					for _, r := range *cv.Referrers() {
						if ex, ok := r.(*ssa.Extract); ok && ex.Index == 1 && len(*ex.Referrers()) > 0 {
							used = true
						}
					}
				}
				c.R.Check(used, "R13.1", core.ShortFn(fn)+": the compile error is checked", p.Pos(call.Pos()), "error result is used", "the error of regexp.Compile is discarded")
			}
		}
	}
	c.R.RequireMin("R13.1", "compile sites for registered values", nCompile, 2)
	// R13.18: the expression a value is searched with is compiled from that value, in the call that registers it: the regexp
	// stored into a knownValue is the result of a Compile in the same function (or of a helper of the package that compiles its
	// string parameter) - not something loaded from a cache or a package-level table, which is keyed by less than the text (two
	// classifiers that register different texts under one key then search for each other's text).
	{
		nR, bad := 0, ""
		for _, lit := range structLits(pkgFuncs(p, scPkg), "stringclassifier.knownValue") {
			for fname, v := range lit.fields {
				if v == nil || !strings.Contains(v.Type().String(), "regexp.Regexp") {
					continue
				}
				nR++
				var walk func(v ssa.Value, d int) string
				walk = func(v ssa.Value, d int) string {
					v = core.Unspill(v)
					if d > 5 {
						return "a value that could not be traced"
					}
					switch x := v.(type) {
					case *ssa.Extract:
						return walk(x.Tuple, d+1)
					case *ssa.Call:
						n := core.StaticCalleeName(x.Common())
						if n == "regexp.Compile" || n == "regexp.MustCompile" {
							return ""
						}
						if g := x.Call.StaticCallee(); g != nil && core.FuncPkgPath(g) == scPkg {
							for _, call := range core.CallsIn(g) {
								if n2 := core.StaticCalleeName(call.Common()); n2 == "regexp.Compile" || n2 == "regexp.MustCompile" {
									return ""
								}
							}
						}
						return eng.Describe(x)
					case *ssa.Phi:
						for _, e := range x.Edges {
							if w := walk(e, d+1); w != "" {
								return w
							}
						}
						return ""
					case *ssa.Parameter:
						return "" // a helper that is handed the compiled expression by the registering function
					}
					return eng.Describe(v)
				}
				if w := walk(v, 0); w != "" && bad == "" {
					bad = "field " + fname + " at " + p.Pos(lit.alloc.Pos()) + " is " + w
				}
			}
		}
		c.R.Check(bad == "", "R13.18", "the expression stored with a known value is compiled from it in the registering call", scPkg, fmt.Sprintf("%d regexp fields in knownValue literals, each the result of regexp.Compile", nR),
			bad+": the expression comes from somewhere else than a Compile of this value (a cache keyed by the value's key, say) - a classifier that registers another text under a key seen before searches for the other text, reports 1.0 where its own value does not occur and misses its verbatim copies")
		c.R.RequireMin("R13.18", "regexp fields in knownValue literals", nR, 1)
	}
	checkLoopVarCapture(c, p, append(pkgFuncs(p, scPkg), pkgFuncs(p, core.RootMod)...), "R13.19")
}

// checkLoopVarCapture: the module declares a Go version before 1.22, so a range or for variable is ONE variable for the whole
// loop. A function literal that is created inside the loop and kept (stored, appended, started) after the iteration ends
// must not use such a variable: every literal then sees the value of the last iteration. Decided on the SSA form: a
// MakeClosure inside a loop binds an Alloc that lies outside the loop and is stored to inside it.
func checkLoopVarCapture(c *Ctx, p *core.Prog, fns []*ssa.Function, rule string) {
	nC, bad := 0, ""
	for _, fn := range fns {
		for _, b := range fn.Blocks {
			for _, in := range b.Instrs {
				mc, ok := in.(*ssa.MakeClosure)
				if !ok {
					continue
				}
				nC++
				// loops that contain the closure
				for h := b; h != nil; h = h.Idom() {
					isHeader := false
					for _, pr := range h.Preds {
						if h.Dominates(pr) {
							isHeader = true
						}
					}
					if !isHeader {
						continue
					}
					loop := naturalLoop(h)
					if !loop[b] {
						continue
					}
					for _, bd := range mc.Bindings {
						al, isAl := bd.(*ssa.Alloc)
						if !isAl || loop[al.Block()] {
							continue
						}
						storedInLoop := false
						for _, r := range *al.Referrers() {
							if st, isSt := r.(*ssa.Store); isSt && st.Addr == ssa.Value(al) && loop[st.Block()] {
								storedInLoop = true
							}
						}
						if !storedInLoop {
							continue
						}
						// kept beyond the iteration? (anything but an immediate call or a deferred/go call with the loop waiting)
						kept := false
						for _, r := range *mc.Referrers() {
							switch u := r.(type) {
							case *ssa.Call:
								if u.Call.Value != ssa.Value(mc) {
									kept = true // passed as an argument (append, a registration)
								}
							case *ssa.Go, *ssa.Defer:
								// covered by the concurrency rules (R14.14)
							case *ssa.DebugRef:
							default:
								kept = true
							}
						}
						if kept && bad == "" {
							bad = core.ShortFn(fn) + ": the function literal at " + p.Pos(mc.Pos()) + " uses the loop variable " + al.Comment + " and is kept beyond the iteration"
						}
					}
				}
			}
		}
	}
	c.R.Check(bad == "", rule, "no function literal that outlives its iteration uses the loop's variable", core.RootMod, fmt.Sprintf("%d function literals examined (the module's Go version gives one variable per loop)", nC),
		bad+": every literal created by the loop sees the variable's last value - a list of wrapped normalisers applies the last normaliser N times, so registered and unknown texts are normalised differently from what the caller asked for")
}

func runC16(c *Ctx) {
	p := c.Prog("")
	if p == nil {
		return
	}
	// R16.3 every known value that passes the length pre-filter is scored: the list the scoring loop ranges over is the list
	// the pre-filter built, not a prefix of it
	if nm := p.Func(scPkg, "(*Classifier).nearestMatch"); c.R.Anchor(nm != nil, "stringclassifier.(*Classifier).nearestMatch") {
		nL := 0
		for _, f := range pkgClosure(nm, scPkg) {
			for _, rl := range rangeLoopsOf(f) {
				// the loop that starts the scoring tasks
				starts := false
				for _, b := range f.Blocks {
					if !rl.header.Dominates(b) {
						continue
					}
					for _, in := range b.Instrs {
						if _, isGo := in.(*ssa.Go); isGo {
							starts = true
						}
					}
				}
				if !starts {
					continue
				}
				nL++
				cut := ""
				seen := map[ssa.Value]bool{}
				var walk func(v ssa.Value)
				walk = func(v ssa.Value) {
					if seen[v] {
						return
					}
					seen[v] = true
					switch x := v.(type) {
					case *ssa.Phi:
						for _, e := range x.Edges {
							walk(e)
						}
					case *ssa.Slice:
						if x.High != nil || x.Low != nil {
							cut = p.Pos(x.Pos())
						}
						walk(x.X)
					case *ssa.Call:
						if bi, ok := x.Call.Value.(*ssa.Builtin); ok && bi.Name() == "append" {
							walk(x.Call.Args[0])
						}
					}
				}
				walk(core.Unspill(rl.over))
				c.R.Check(cut == "", "R16.3", core.ShortFn(f)+": every candidate that passed the pre-filter is scored", p.Pos(rl.header.Instrs[0].Pos()),
					"the scoring loop ranges over the list the pre-filter appended to", "the candidate list is cut at "+cut+" before it is scored: with a large corpus the right license may not be among the candidates that are kept")
			}
		}
		c.R.RequireMin("R16.3", "scoring loops of nearestMatch", nL, 1)
	}
	// R16.4 the shortcut of nearestMatch that answers "this is the known value itself" (a Match with the constant
	// confidence 1.0, built outside the scoring goroutines) stands behind an equality of the two texts - not behind a
	// search of one in the other (a license that contains another license's text would be reported as that one)
	if nm := p.Func(scPkg, "(*Classifier).nearestMatch"); nm != nil {
		nS := 0
		// the shortcut may live in a helper of nearestMatch
		scope := []*ssa.Function{nm}
		inScope := map[*ssa.Function]bool{nm: true}
		for k := 0; k < len(scope) && k < 16; k++ {
			for _, call := range core.CallsIn(scope[k]) {
				if cal := call.Common().StaticCallee(); cal != nil && !inScope[cal] && core.FuncPkgPath(cal) == scPkg && len(cal.Blocks) > 0 {
					inScope[cal] = true
					scope = append(scope, cal)
				}
			}
		}
		for _, lit := range structLits(scope, "stringclassifier.Match") {
			conf, ok := lit.fields["Confidence"].(*ssa.Const)
			if !ok || conf.Value == nil || conf.Value.ExactString() != "1" {
				continue
			}
			nS++
			eq := behindStringEquality(lit.alloc.Block())
			how := "guarded by `unknown == known`"
			if !eq {
				// the deferred form: the value found equal is remembered in a variable that is nil otherwise, and the
				// shortcut is taken after the loop when it is not nil - every assignment of a value to it stands behind
				// the equality
				for _, f := range core.FactsAt(lit.alloc.Block()) {
					bo, ok := f.Cond.(*ssa.BinOp)
					if !ok || !((bo.Op == token.NEQ && f.Truth) || (bo.Op == token.EQL && !f.Truth)) {
						continue
					}
					v := bo.X
					if cx, isC := bo.X.(*ssa.Const); isC && cx.IsNil() {
						v = bo.Y
					} else if cy, isC := bo.Y.(*ssa.Const); !isC || !cy.IsNil() {
						continue
					}
					if _, isPtr := v.Type().Underlying().(*types.Pointer); !isPtr {
						continue
					}
					all, n := true, 0
					seen := map[ssa.Value]bool{}
					var walk func(v ssa.Value, from *ssa.BasicBlock)
					walk = func(v ssa.Value, from *ssa.BasicBlock) {
						if seen[v] {
							return
						}
						switch x := v.(type) {
						case *ssa.Phi:
							seen[x] = true
							for i, e := range x.Edges {
								walk(e, x.Block().Preds[i])
							}
							return
						case *ssa.Const:
							if !x.IsNil() {
								all = false
							}
							return
						case *ssa.UnOp:
							// a variable that was not lifted to a register (a named result of a function that defers):
							// what it holds is what was stored in it
							if al, isAl := x.X.(*ssa.Alloc); isAl && x.Op == token.MUL && al.Referrers() != nil {
								seen[x] = true
								for _, r := range *al.Referrers() {
									switch rr := r.(type) {
									case *ssa.Store:
										if rr.Addr != al {
											all = false
										} else if ld, isLd := rr.Val.(*ssa.UnOp); isLd && ld.Op == token.MUL && ld.X == al {
											// the variable copied to itself (the return sequence)
										} else {
											walk(rr.Val, rr.Block())
										}
									case *ssa.UnOp, *ssa.DebugRef:
									default:
										all = false
									}
								}
								return
							}
						case *ssa.Extract:
							if call, isCall := x.Tuple.(*ssa.Call); isCall {
								if cal := call.Call.StaticCallee(); cal != nil && core.InRepo(cal) && len(cal.Blocks) > 0 {
									seen[x] = true
									for _, b := range cal.Blocks {
										if ret, isRet := b.Instrs[len(b.Instrs)-1].(*ssa.Return); isRet && b != cal.Recover && x.Index < len(ret.Results) {
											walk(ret.Results[x.Index], b)
										}
									}
									return
								}
							}
						case *ssa.Call:
							if cal := x.Call.StaticCallee(); cal != nil && core.InRepo(cal) && len(cal.Blocks) > 0 {
								seen[x] = true
								for _, b := range cal.Blocks {
									if ret, isRet := b.Instrs[len(b.Instrs)-1].(*ssa.Return); isRet && b != cal.Recover && len(ret.Results) == 1 {
										walk(ret.Results[0], b)
									}
								}
								return
							}
						}
						n++
						if from == nil || !behindStringEquality(from) {
							all = false
						}
					}
					walk(v, nil)
					if all && n > 0 {
						eq = true
						how = fmt.Sprintf("taken when %s is not nil, which is assigned at %d place(s), each behind `unknown == known`", core.AP(v), n)
					}
				}
			}
			c.R.Check(eq, "R16.4", "nearestMatch: the exact-match shortcut stands behind an equality of the unknown text and the known value", p.Pos(lit.alloc.Pos()),
				how, "the shortcut that reports confidence 1.0 is not guarded by an equality of the two texts: a text that merely contains (or is found by a pattern of) a known value is reported as that value")
		}
		c.R.Count("R16.4:exact-match shortcuts in nearestMatch", nS)
	}
	// R16.5 the ".header" of a name is taken off as a suffix: no strings.Trim/TrimLeft/TrimRight in the root module is given a
	// constant that looks like a suffix or an extension (those functions take a *set of characters*: "Beerware" would lose
	// its "are", "BSD-2-Clause" its "e")
	{
		nT, bad := 0, ""
		for _, f := range p.SrcFuncs(core.RootMod) {
			if !strings.HasPrefix(core.FuncPkgPath(f), core.RootMod) || strings.Contains(core.FuncPkgPath(f), "/v2") {
				continue
			}
			for _, call := range core.CallsIn(f) {
				n := core.StaticCalleeName(call.Common())
				if n != "strings.Trim" && n != "strings.TrimLeft" && n != "strings.TrimRight" {
					continue
				}
				nT++
				if sv, ok := core.ConstString(call.Common().Args[1]); ok && len(sv) >= 3 && sv[0] == '.' && lettersLower(sv[1:]) {
					bad = fmt.Sprintf("%s(%q) in %s (%s)", n, sv, core.ShortFn(f), p.Pos(call.Pos()))
				}
			}
		}
		c.R.Check(bad == "", "R16.5", "no character-set trim is given a suffix", core.RootMod, fmt.Sprintf("%d calls of strings.Trim/TrimLeft/TrimRight, none with an extension-like constant", nT),
			bad+": the constant is treated as a set of characters, so names that end in any of them lose more than the suffix")
	}
	// shared with C14: NearestMatch/MultipleMatch keep no scratch state between calls (R14.5); shared with C15: every
	// archived text is read completely and paired with its own search set when the corpus is loaded (R15.2, R15.4)
	checkV1SharedWrites(c, p)
	borrowRules(c, []string{"R15.2", "R15.3", "R15.4", "R15.8", "R15.9", "R15.17", "R15.21"}, runC15)
	// shared with C13: the classifier keeps its own copy of the normaliser list (R13.8) - the exported Normalizers slice it is
	// built from can be assigned to afterwards
	if c.R.Filter == nil {
		borrowRules(c, []string{"R13.8", "R13.5"}, runC13)
	}
	mm := p.Func(core.RootMod, "(*License).MultipleMatch")
	wct := p.Func(core.RootMod, "(*License).WithinConfidenceThreshold")
	if !c.R.Anchor(mm != nil, "(*License).MultipleMatch") || !c.R.Anchor(wct != nil, "(*License).WithinConfidenceThreshold") {
		return
	}
	// the function that builds the list: MultipleMatch itself, or the helper of the package whose result it returns
	hasAppend := func(f *ssa.Function) bool {
		for _, call := range core.CallsIn(f) {
			if b, ok := call.Common().Value.(*ssa.Builtin); ok && b.Name() == "append" && strings.HasSuffix(core.TypeName(call.Common().Args[0].Type()), "stringclassifier.Matches") {
				return true
			}
		}
		return false
	}
	if !hasAppend(mm) {
		for _, b := range mm.Blocks {
			if ret, ok := b.Instrs[len(b.Instrs)-1].(*ssa.Return); ok && len(ret.Results) == 1 {
				if cl, isCall := core.Unspill(ret.Results[0]).(*ssa.Call); isCall {
					if h := cl.Call.StaticCallee(); h != nil && core.FuncPkgPath(h) == core.RootMod && hasAppend(h) {
						mm = h
					}
				}
			}
		}
	}
	// a helper that answers true only where WithinConfidenceThreshold(v.Confidence) held for its parameter v
	acceptsOnlyWithin := func(g *ssa.Function, argIdx int) bool {
		if g == nil || len(g.Blocks) == 0 || argIdx >= len(g.Params) {
			return false
		}
		prm := g.Params[argIdx]
		nTrue := 0
		for _, b := range g.Blocks {
			ret, ok := b.Instrs[len(b.Instrs)-1].(*ssa.Return)
			if !ok || len(ret.Results) != 1 {
				continue
			}
			k, isK := ret.Results[0].(*ssa.Const)
			if !isK {
				return false
			}
			if k.Value == nil || k.Value.ExactString() != "true" {
				continue
			}
			nTrue++
			okT := false
			for _, fct := range core.FactsAt(b) {
				cl, isCall := fct.Cond.(*ssa.Call)
				if !isCall || !fct.Truth || cl.Call.StaticCallee() != wct {
					continue
				}
				if ld, isLd := cl.Call.Args[1].(*ssa.UnOp); isLd {
					if fa, isFA := ld.X.(*ssa.FieldAddr); isFA && core.FieldName(fa) == "Confidence" && core.Unspill(fa.X) == ssa.Value(prm) {
						okT = true
					}
				}
			}
			if !okT {
				return false
			}
		}
		return nTrue > 0
	}
	// every append to the returned slice is dominated by WithinConfidenceThreshold(v.Confidence) == true
	n := 0
	for _, call := range core.CallsIn(mm) {
		b, ok := call.Common().Value.(*ssa.Builtin)
		if !ok || b.Name() != "append" {
			continue
		}
		if !strings.HasSuffix(core.TypeName(call.Common().Args[0].Type()), "stringclassifier.Matches") {
			continue
		}
		el := singleVarargElem(call.Common().Args[1])
		if el == nil {
			c.R.Undecided("R16.1", "License.MultipleMatch: append of several matches", p.Pos(call.Pos()), "cannot identify the appended element")
			continue
		}
		n++
		ok = false
		for _, fct := range core.FactsAtInstr(call) {
			cl, isCall := fct.Cond.(*ssa.Call)
			if isCall && fct.Truth && cl.Call.StaticCallee() != wct {
				// a helper of the package that accepts the element only within the threshold
				if g := cl.Call.StaticCallee(); g != nil && core.FuncPkgPath(g) == core.RootMod {
					for k, a := range cl.Call.Args {
						if core.Unspill(a) == core.Unspill(el) && acceptsOnlyWithin(g, k) {
							ok = true
						}
					}
				}
			}
			if !isCall || !fct.Truth || cl.Call.StaticCallee() != wct {
				continue
			}
			// argument must be the Confidence of the appended element
			arg := cl.Call.Args[1]
			if ld, isLd := arg.(*ssa.UnOp); isLd {
				if fa, isFA := ld.X.(*ssa.FieldAddr); isFA && core.FieldName(fa) == "Confidence" && fa.X == el {
					ok = true
				}
			}
		}
		c.R.Check(ok, "R16.1", "License.MultipleMatch: a match is returned only if WithinConfidenceThreshold(its Confidence) held", p.Pos(call.Pos()),
			"append is dominated by the true edge of WithinConfidenceThreshold(v.Confidence) for the appended v", "a match can be appended without passing the threshold test on its own confidence")
	}
	c.R.RequireMin("R16.1", "appends to the result of License.MultipleMatch", n, 1)
	// ... and what is returned is that list (or nothing): built by this call from nil through the guarded appends
	nRet := 0
	for _, b := range mm.Blocks {
		ret, ok := b.Instrs[len(b.Instrs)-1].(*ssa.Return)
		if !ok || len(ret.Results) != 1 {
			continue
		}
		nRet++
		bad := ""
		for v := range sliceFamily(ret.Results[0]) {
			switch x := v.(type) {
			case *ssa.Phi:
			case *ssa.Const:
				if x.Value != nil {
					bad = "a constant"
				}
			case *ssa.Call:
				if bi, isB := x.Call.Value.(*ssa.Builtin); !isB || bi.Name() != "append" {
					bad = "the result of " + core.StaticCalleeName(&x.Call)
				}
			default:
				bad = eng.Describe(v)
			}
		}
		c.R.Check(bad == "", "R16.1", "License.MultipleMatch returns the list it filtered in this call (or nil)", p.Pos(ret.Pos()), "the result is built from nil by the guarded appends only",
			"the returned matches come from "+bad+", not from the list this call filtered against the current Threshold (a cached or shared result): matches below the threshold in force can be returned")
	}
	c.R.RequireMin("R16.1", "return statements of License.MultipleMatch", nRet, 1)
	// shape of the predicate: conf > T  ||  |conf - T| < eps
	gt, eq := false, false
	for _, b := range wct.Blocks {
		for _, in := range b.Instrs {
			bo, ok := in.(*ssa.BinOp)
			if !ok {
				continue
			}
			if bo.Op == token.GTR && bo.X == wct.Params[1] && strings.HasSuffix(core.AP(bo.Y), ".Threshold") {
				gt = true
			}
			if bo.Op == token.GEQ && bo.X == wct.Params[1] && strings.HasSuffix(core.AP(bo.Y), ".Threshold") {
				gt, eq = true, true
			}
			if bo.Op == token.LSS {
				if call, ok := bo.X.(*ssa.Call); ok && core.StaticCalleeName(&call.Call) == "math.Abs" {
					if eps, ok := core.ConstFloat(bo.Y); ok && eps > 0 && eps <= 1e-9 {
						if sub, ok := call.Call.Args[0].(*ssa.BinOp); ok && sub.Op == token.SUB && sub.X == wct.Params[1] && strings.HasSuffix(core.AP(sub.Y), ".Threshold") {
							eq = true
						}
					}
				}
			}
		}
	}
	// no other comparison may make the predicate true: every `return true`/phi true edge comes from those two tests
	other := false
	for _, b := range wct.Blocks {
		for _, in := range b.Instrs {
			if bo, ok := in.(*ssa.BinOp); ok {
				switch bo.Op {
				case token.GTR, token.GEQ, token.LSS, token.LEQ, token.EQL, token.NEQ:
					if !(bo.X == wct.Params[1] && strings.HasSuffix(core.AP(bo.Y), ".Threshold")) {
						if call, ok := bo.X.(*ssa.Call); !ok || core.StaticCalleeName(&call.Call) != "math.Abs" {
							other = true
						}
					}
				}
			}
		}
	}
	checkCommonWordsGate(c, p)
	checkV1RegistrationSiblings(c, p)
	c.R.Check(gt && eq && !other, "R16.1", "WithinConfidenceThreshold is conf > Threshold or |conf - Threshold| < epsilon", p.Pos(wct.Pos()),
		"predicate body is the disjunction of conf > Threshold and a tiny-epsilon equality", "the threshold predicate accepts confidences below the threshold (or has an unrecognised shape)")
}

// checkCommonWordsGate: R16.2. The common-license-words gate is applied to raw text by NearestMatch
// and to normalised (lower-cased) text by MultipleMatch; it must therefore be case-insensitive,
// otherwise an upper-cased license text is rejected before it is classified.
func checkCommonWordsGate(c *Ctx, p *core.Prog) {
	gate := p.Func(core.RootMod, "(*License).hasCommonLicenseWords")
	if !c.R.Anchor(gate != nil, "(*License).hasCommonLicenseWords") {
		return
	}
	// R16.6: License.NearestMatch answers nil only where the common-words gate rejected the text (or the classifier itself
	// found nothing): no other test - on the name that was found, on phrases in the raw text - turns a found license into
	// "no match". Such a test sees the text as it was presented (re-flowed, decorated), not as it is compared.
	if nm := p.Func(core.RootMod, "(*License).NearestMatch"); nm != nil && len(nm.Blocks) > 0 {
		cd := core.NewPostDom(nm).TransitiveControlDeps()
		bad := ""
		nNil := 0
		okCond := func(v ssa.Value) bool {
			if u, ok := v.(*ssa.UnOp); ok && u.Op == token.NOT {
				v = u.X
			}
			if cl, ok := v.(*ssa.Call); ok && cl.Call.StaticCallee() == gate {
				return true
			}
			if bo, ok := v.(*ssa.BinOp); ok && (bo.Op == token.EQL || bo.Op == token.NEQ) {
				if k, isK := bo.Y.(*ssa.Const); isK && k.IsNil() {
					if cl, isCall := core.Unspill(bo.X).(*ssa.Call); isCall && strings.HasSuffix(core.StaticCalleeName(cl.Common()), ".NearestMatch") {
						return true
					}
				}
			}
			return false
		}
		nilFrom := func(b *ssa.BasicBlock) {
			nNil++
			for d := range cd[b] {
				if ifi, ok := d.Instrs[len(d.Instrs)-1].(*ssa.If); ok && !okCond(ifi.Cond) && bad == "" {
					bad = "the test at " + p.Pos(ifi.Cond.Pos()) + " (" + eng.Describe(ifi.Cond) + ")"
				}
			}
		}
		for _, b := range nm.Blocks {
			ret, ok := b.Instrs[len(b.Instrs)-1].(*ssa.Return)
			if !ok || len(ret.Results) != 1 {
				continue
			}
			switch x := ret.Results[0].(type) {
			case *ssa.Const:
				if x.IsNil() {
					nilFrom(b)
				}
			case *ssa.Phi:
				for i, e := range x.Edges {
					if k, isK := e.(*ssa.Const); isK && k.IsNil() {
						nilFrom(x.Block().Preds[i])
					}
				}
			}
		}
		c.R.Check(bad == "", "R16.6", "License.NearestMatch returns nil only where the common-words gate (or the classifier) found nothing", p.Pos(nm.Pos()), fmt.Sprintf("%d nil result(s), each controlled by the gate only", nNil),
			"a nil result depends on "+bad+": a license of the corpus that the classifier identified is reported as no match when its text is presented differently (re-flowed, decorated)")
	}
	// R16.10: one common license word is enough: the gate answers true as soon as one of the patterns matches - where it counts
	// the matches, it compares the count with "at least one". Three texts of the corpus (0BSD, ISC, Beerware) contain exactly
	// one of the words.
	{
		bad := ""
		nRet := 0
		for _, b := range gate.Blocks {
			ret, ok := b.Instrs[len(b.Instrs)-1].(*ssa.Return)
			if !ok || len(ret.Results) != 1 {
				continue
			}
			nRet++
			if bo, isBo := core.Unspill(ret.Results[0]).(*ssa.BinOp); isBo {
				k, isK := core.ConstInt(bo.Y)
				okCmp := isK && ((bo.Op == token.GTR && k == 0) || (bo.Op == token.GEQ && k == 1) || (bo.Op == token.NEQ && k == 0))
				if !okCmp && bad == "" {
					bad = "the number of matching patterns is compared with `" + bo.Op.String() + " " + fmt.Sprint(k) + "` (" + p.Pos(bo.Pos()) + ")"
				}
			}
		}
		if nRet > 0 {
			c.R.Check(bad == "", "R16.10", "the common-words gate lets a text with one common word pass", p.Pos(gate.Pos()), "a constant verdict per pattern, or a count compared with at least one",
				bad+": a license text with a single common word (0BSD, ISC, Beerware) is rejected before it is classified, and NearestMatch returns nil for a text of the corpus")
		}
	}
	rawCallers := 0
	nCalls := 0
	for _, f := range pkgFuncs(p, core.RootMod) {
		for _, call := range core.CallsIn(f) {
			if call.Common().StaticCallee() != gate {
				continue
			}
			nCalls++
			arg := call.Common().Args[1]
			if cl, ok := arg.(*ssa.Call); ok && p.IsFn(cl.Call.StaticCallee(), core.RootMod, "normalizeText") {
				continue
			}
			rawCallers++
		}
	}
	pats, ok := globalRegexTable(p, core.RootMod, "commonLicenseWords")
	if !ok || len(pats) == 0 {
		c.R.Undecided("R16.2", "commonLicenseWords table", "-", "cannot read the table of common-word patterns from the package initialiser")
		return
	}
	c.R.Count("R16.2:patterns", len(pats))
	c.R.Count("R16.2:gate call sites", nCalls)
	bad := 0
	for _, pat := range pats {
		if rawCallers > 0 && !strings.HasPrefix(pat, "(?i)") {
			bad++
			c.R.Fail("R16.2", "commonLicenseWords pattern "+pat+" is case-sensitive but the gate is applied to raw text", "classifier.go", fmt.Sprintf("%d caller(s) pass un-normalised text to hasCommonLicenseWords; an upper-cased license is rejected by this pattern before classification", rawCallers))
		}
	}
	if bad == 0 {
		c.R.OK("R16.2", "the common-words gate is case-insensitive wherever it sees raw text", "classifier.go", fmt.Sprintf("%d patterns, %d call sites (%d on raw text)", len(pats), nCalls, rawCallers))
	}
	c.R.RequireMin("R16.2", "common-word patterns", len(pats), 2)
}

// checkOccurrenceShortcut: R13.4. findMatches finds verbatim occurrences of the known value with a regular expression,
// which delimits them in bytes. An occurrence is reported with exactly that byte range (Offset = a[0],
// Extent = a[last] - a[0]) and never by way of token indices: an occurrence need not begin and end with a token (a value
// that begins or ends with white space, an occurrence inside a word), and mapping it to tokens then gives a wrong or an
// inverted range (D16, D30).
func checkOccurrenceShortcut(c *Ctx, p *core.Prog) {
	fm := p.Func(scPkg, "(*matcher).findMatches")
	if !c.R.Anchor(fm != nil, "stringclassifier.(*matcher).findMatches") {
		return
	}
	var occ *ssa.Call
	for _, f := range core.WithAnon(fm) {
		for _, call := range core.CallsIn(f) {
			if n := core.StaticCalleeName(call.Common()); n == "(*regexp.Regexp).FindAllStringIndex" || n == "(*regexp.Regexp).FindAllIndex" {
				occ, _ = call.(*ssa.Call)
			}
		}
	}
	if occ == nil {
		c.R.Info("R13.4", "findMatches: exact occurrences", p.Pos(fm.Pos()), "no regular-expression occurrence search in findMatches")
		return
	}
	// R13.9: the scan for exact occurrences runs for every known value that can occur in the text - also for one that is as
	// long as the text (the text *is* the value): a length test in front of it is inclusive, never strict
	{
		strict := ""
		for db := range core.NewPostDom(occ.Parent()).TransitiveControlDeps()[occ.Block()] {
			ifi, isIf := db.Instrs[len(db.Instrs)-1].(*ssa.If)
			if !isIf {
				continue
			}
			bo, isBo := ifi.Cond.(*ssa.BinOp)
			if !isBo || (bo.Op != token.LSS && bo.Op != token.GTR) {
				continue
			}
			isLen := func(v ssa.Value) bool {
				call, ok := v.(*ssa.Call)
				if !ok {
					return false
				}
				bi, ok := call.Call.Value.(*ssa.Builtin)
				return ok && bi.Name() == "len"
			}
			if isLen(bo.X) && isLen(bo.Y) {
				strict = p.Pos(bo.Pos())
			}
		}
		c.R.Check(strict == "", "R13.9", "findMatches: the scan for exact occurrences is not skipped for a value as long as the text", p.Pos(occ.Pos()),
			"no strict length comparison stands in front of the scan", "the scan depends on a strict comparison of two lengths ("+strict+"): a text that equals a known value is not found verbatim, its confidence and range come from the approximate path")
	}
	// (a) no token range is built from loop-carried token indices (the old shape)
	nTok := 0
	for _, f := range core.WithAnon(fm) {
		for _, lit := range structLits([]*ssa.Function{f}, "searchset.MatchRange") {
			ts, te := lit.fields["TargetStart"], lit.fields["TargetEnd"]
			if ts == nil || te == nil {
				continue
			}
			var endV ssa.Value = te
			if bo, ok := te.(*ssa.BinOp); ok && bo.Op == token.ADD {
				endV = bo.X
			}
			_, ok1 := ts.(*ssa.Phi)
			_, ok2 := endV.(*ssa.Phi)
			if ok1 || ok2 {
				nTok++
				c.R.Fail("R13.4", "findMatches: an exact occurrence is reported with the byte range the regular expression delimits", p.Pos(lit.alloc.Pos()),
					"the occurrence is mapped to token indices found by comparing token offsets with its byte bounds: an occurrence that does not begin and end with a token (a known value with leading or trailing white space, an occurrence inside a word, a one-token value) leaves an index at its initial value, so the reported range is wrong or inverted (slice bounds panic in a goroutine)")
			}
		}
	}
	// (b) a Match with Offset = a[0] and Extent = a[last] - a[0], a an element of the occurrence list
	isBound := func(v ssa.Value) (ssa.Value, bool) { // v == a[k]  ->  a
		ld, ok := v.(*ssa.UnOp)
		if !ok {
			return nil, false
		}
		ia, ok := ld.X.(*ssa.IndexAddr)
		if !ok {
			return nil, false
		}
		return ia.X, true
	}
	okB := false
	for _, f := range core.WithAnon(fm) {
		for _, lit := range structLits([]*ssa.Function{f}, "stringclassifier.Match") {
			off, ext := lit.fields["Offset"], lit.fields["Extent"]
			a0, ok := isBound(off)
			if !ok {
				continue
			}
			sub, isSub := ext.(*ssa.BinOp)
			if !isSub || sub.Op != token.SUB {
				continue
			}
			a1, ok1 := isBound(sub.X)
			a2, ok2 := isBound(sub.Y)
			if ok1 && ok2 && a1 == a0 && a2 == a0 && sameExpr(sub.Y, off, 0) {
				okB = true
			}
		}
	}
	// (c) every reported occurrence is a Match of its own: the value pushed on the queue is allocated in the iteration
	// that pushes it (one variable hoisted out of the loop makes all entries alias the last occurrence)
	for _, f := range core.WithAnon(fm) {
		for _, lit := range structLits([]*ssa.Function{f}, "stringclassifier.Match") {
			if _, ok := isBound(lit.fields["Offset"]); !ok {
				continue
			}
			// the loop over the occurrences: innermost loop containing a store into the literal
			var useBlock *ssa.BasicBlock
			for _, r := range *lit.alloc.Referrers() {
				if fa, ok := r.(*ssa.FieldAddr); ok {
					useBlock = fa.Block()
				}
			}
			if useBlock == nil {
				continue
			}
			okAlloc := true
			for h := useBlock; h != nil; h = h.Idom() {
				isHeader := false
				for _, pr := range h.Preds {
					if h.Dominates(pr) {
						isHeader = true
					}
				}
				if !isHeader || !reaches(useBlock, h) {
					continue
				}
				if !(h.Dominates(lit.alloc.Block()) && reaches(lit.alloc.Block(), h)) {
					okAlloc = false
				}
			}
			c.R.Check(okAlloc, "R13.4", "findMatches: every exact occurrence is reported as a Match of its own", p.Pos(lit.alloc.Pos()), "the Match is allocated in the iteration that fills it",
				"one Match variable is declared outside the loop over the occurrences and its address is queued every time: all queued entries are the same object and show the last occurrence, so the other verbatim copies are not reported")
		}
	}
	if nTok == 0 {
		c.R.Check(okB, "R13.4", "findMatches: an exact occurrence is reported with the byte range the regular expression delimits", p.Pos(occ.Pos()),
			"Match{Offset: a[0], Extent: a[last]-a[0]} for every occurrence a", "no match is built from the byte bounds of the occurrence")
	}
}

// assignBlocks: the blocks whose outgoing edge carries a fresh (non-phi, non-constant) value into the phi web.
func assignBlocks(phi *ssa.Phi) []*ssa.BasicBlock {
	var out []*ssa.BasicBlock
	seen := map[*ssa.Phi]bool{}
	var walk func(p *ssa.Phi)
	walk = func(p *ssa.Phi) {
		if seen[p] {
			return
		}
		seen[p] = true
		for i, e := range p.Edges {
			switch x := e.(type) {
			case *ssa.Phi:
				walk(x)
			case *ssa.Const:
			default:
				// the value is produced in (or before) the predecessor: the assignment happens on that edge
				out = append(out, p.Block().Preds[i])
			}
		}
	}
	walk(phi)
	return out
}

// reachesForward: b2 is reachable from b1 without taking a back edge (within one loop iteration).
func reachesForward(b1, b2 *ssa.BasicBlock) bool {
	seen := map[*ssa.BasicBlock]bool{}
	var dfs func(b *ssa.BasicBlock) bool
	dfs = func(b *ssa.BasicBlock) bool {
		if b == b2 {
			return true
		}
		if seen[b] {
			return false
		}
		seen[b] = true
		for _, s := range b.Succs {
			if s.Dominates(b) {
				continue // back edge
			}
			if dfs(s) {
				return true
			}
		}
		return false
	}
	return dfs(b1)
}

// checkV1KeysAndPaths: three rules on the v1 string classifier.
// R13.10 a string built from several run-time parts to serve as a map key keeps the parts apart: a format with two verbs
// next to one another (or a concatenation of two run-time strings without a constant between them) gives the same key
// for different parts ("lic1"+"150" and "lic11"+"50"), so a map that removes duplicates drops a match that is not one.
// R13.11 where the exact scan found occurrences of a known value and reported them with confidence 1.0, the token search
// for that value is not run as well: its ranges around an exact copy score 1.0 too, sort first and make the duplicate
// removal drop the exact ones.
// R13.12 the normalised text is handed on as it is: offsets and extents are positions in it, so a substring or a trimmed
// copy of it must not take its place.
func checkV1KeysAndPaths(c *Ctx, p *core.Prog, norm *ssa.Function) {
	fns := pkgFuncs(p, scPkg)
	// ---- R13.10 -----------------------------------------------------------------
	nKeys, nBuilt := 0, 0
	for _, fn := range fns {
		for _, b := range fn.Blocks {
			for _, in := range b.Instrs {
				var key ssa.Value
				switch x := in.(type) {
				case *ssa.MapUpdate:
					key = x.Key
				case *ssa.Lookup:
					if _, isMap := x.X.Type().Underlying().(*types.Map); isMap {
						key = x.Index
					}
				}
				if key == nil {
					continue
				}
				nKeys++
				if !isString(key.Type()) {
					continue
				}
				if why := ambiguousStringBuild(key); why != "" {
					nBuilt++
					c.R.Fail("R13.10", core.ShortFn(fn)+": map key built from parts that run together", p.Pos(in.Pos()),
						why+": different parts give the same key, so entries that differ are treated as one")
				}
			}
		}
	}
	if nBuilt == 0 {
		c.R.OK("R13.10", "stringclassifier: no map key is built from parts that run together", scPkg, fmt.Sprintf("%d map accesses examined", nKeys))
	}
	c.R.RequireMin("R13.10", "map accesses in stringclassifier", nKeys, 3)

	// ---- R13.11 -----------------------------------------------------------------
	// the token search (FindPotentialMatches, directly or in a helper) runs only where the exact scan (FindAllStringIndex,
	// directly or in a helper) is known to have found nothing: a dominating test says its result is nil / empty
	directly := func(f *ssa.Function, name string) bool {
		if f == nil {
			return false
		}
		for _, call := range core.CallsIn(f) {
			if core.StaticCalleeName(call.Common()) == name {
				return true
			}
		}
		return false
	}
	const fuzzyName, exactName = ssPkg + ".FindPotentialMatches", "(*regexp.Regexp).FindAllStringIndex"
	nExact := 0
	for _, fn := range fns {
		var fuzzy []ssa.CallInstruction
		exactVals := map[ssa.Value]bool{}
		for _, call := range core.CallsIn(fn) {
			n := core.StaticCalleeName(call.Common())
			cal := call.Common().StaticCallee()
			inPkg := cal != nil && core.FuncPkgPath(cal) == scPkg
			if n == fuzzyName || (inPkg && directly(cal, fuzzyName)) {
				fuzzy = append(fuzzy, call)
			}
			if n == exactName || (inPkg && directly(cal, exactName)) {
				if v, ok := call.(ssa.Value); ok {
					exactVals[v] = true
				}
			}
		}
		if len(fuzzy) == 0 || len(exactVals) == 0 {
			continue
		}
		for _, fz := range fuzzy {
			if v, ok := fz.(ssa.Value); ok && exactVals[v] {
				continue // one helper does both: it is examined itself
			}
			nExact++
			guarded := false
			for _, f := range core.FactsAtInstr(fz) {
				// `found, ok := m.exactMatches(known); if !ok { ...token search... }`: the helper's boolean result is false
				// only where its own scan found nothing
				if ex, isEx := f.Cond.(*ssa.Extract); isEx && !f.Truth && exactVals[ex.Tuple] && isBool(ex.Type()) {
					if call, isCall := ex.Tuple.(*ssa.Call); isCall && falseOnlyWhenScanEmpty(call.Call.StaticCallee(), ex.Index, exactName) {
						guarded = true
					}
				}
				// `if m.findExactMatches(known) { return }`: a helper with one boolean result
				if call, isCall := f.Cond.(*ssa.Call); isCall && !f.Truth && exactVals[call] && isBool(call.Type()) && falseOnlyWhenScanEmpty(call.Call.StaticCallee(), 0, exactName) {
					guarded = true
				}
				cmp, ok := f.AsCmp()
				if !ok {
					continue
				}
				x, y := cmp.X, cmp.Y
				if _, isC := x.(*ssa.Const); isC {
					x, y = y, x
				}
				cst, isC := y.(*ssa.Const)
				if !isC {
					continue
				}
				// v == nil, or len(v) == 0 / len(v) < 1 / len(v) <= 0
				if exactVals[x] && cst.IsNil() && cmp.Op == token.EQL {
					guarded = true
				}
				if call, isCall := x.(*ssa.Call); isCall {
					if bi, isB := call.Call.Value.(*ssa.Builtin); isB && bi.Name() == "len" && exactVals[call.Call.Args[0]] {
						if k, okK := core.ConstInt(cst); okK && ((cmp.Op == token.EQL && k == 0) || (cmp.Op == token.LSS && k == 1) || (cmp.Op == token.LEQ && k == 0)) {
							guarded = true
						}
					}
				}
			}
			c.R.Check(guarded, "R13.11", core.ShortFn(fn)+": a value found verbatim is not searched for by token hashes as well", p.Pos(fz.Pos()),
				"the token search stands behind `the exact scan found nothing`",
				"the token search runs although the exact scan may have found (and reported, with confidence 1.0) occurrences of the same value: its wider ranges around a copy also score 1.0, sort first, and the duplicate removal then drops the exact occurrences")
		}
	}
	c.R.RequireMin("R13.11", "token searches next to an exact scan", nExact, 1)

	// ---- R13.12 -----------------------------------------------------------------
	if norm == nil {
		return
	}
	nN := 0
	for _, fn := range fns {
		if fn == norm {
			continue
		}
		for _, call := range core.CallsIn(fn) {
			if call.Common().StaticCallee() != norm {
				continue
			}
			v, ok := call.(ssa.Value)
			if !ok || v.Referrers() == nil {
				continue
			}
			nN++
			bad := ""
			seen := map[ssa.Value]bool{}
			var walk func(v ssa.Value)
			walk = func(v ssa.Value) {
				if seen[v] || v.Referrers() == nil {
					return
				}
				seen[v] = true
				for _, r := range *v.Referrers() {
					switch x := r.(type) {
					case *ssa.Phi:
						walk(x)
					case *ssa.Slice:
						if x.X == v {
							bad = "a substring of it is taken at " + p.Pos(x.Pos())
						}
					case *ssa.Call:
						cal := x.Call.StaticCallee()
						if cal != nil && cal.Pkg != nil && cal.Pkg.Pkg.Path() == "strings" && isString(x.Type()) {
							bad = "it is passed through " + core.StaticCalleeName(&x.Call) + " at " + p.Pos(x.Pos())
						}
					}
				}
			}
			walk(v)
			c.R.Check(bad == "", "R13.12", core.ShortFn(fn)+": the normalised text is handed on as it is", p.Pos(call.Pos()), "no substring of it is taken and it is passed through no function of package strings",
				"the result of normalize is transformed again ("+bad+"): offsets and extents are then positions in another string than the normalised unknown text")
		}
	}
	c.R.RequireMin("R13.12", "calls of normalize outside normalize", nN, 2)
}

// ambiguousStringBuild: why a string value is an ambiguous encoding of its parts ("" if it is not, or not known to be).
func ambiguousStringBuild(v ssa.Value) string {
	switch x := v.(type) {
	case *ssa.Call:
		if core.StaticCalleeName(&x.Call) == "fmt.Sprintf" && len(x.Call.Args) > 0 {
			if f, ok := core.ConstString(x.Call.Args[0]); ok {
				prevVerb := false
				for i := 0; i < len(f); i++ {
					if f[i] != '%' {
						prevVerb = false
						continue
					}
					if i+1 < len(f) && f[i+1] == '%' {
						i++
						prevVerb = false
						continue
					}
					j := i + 1
					for j < len(f) && strings.ContainsRune("+-# 0123456789.[]*", rune(f[j])) {
						j++
					}
					if prevVerb {
						return fmt.Sprintf("fmt.Sprintf(%q) has two verbs with nothing between them", f)
					}
					prevVerb = true
					i = j
				}
			}
		}
	case *ssa.BinOp:
		if x.Op == token.ADD && isString(x.Type()) {
			var parts []ssa.Value
			var flat func(v ssa.Value)
			flat = func(v ssa.Value) {
				if b, ok := v.(*ssa.BinOp); ok && b.Op == token.ADD {
					flat(b.X)
					flat(b.Y)
					return
				}
				parts = append(parts, v)
			}
			flat(x)
			for i := 1; i < len(parts); i++ {
				_, c1 := parts[i-1].(*ssa.Const)
				_, c2 := parts[i].(*ssa.Const)
				if !c1 && !c2 {
					return "two run-time strings are concatenated with nothing between them"
				}
			}
		}
	}
	return ""
}

// emptyScanFact: block b is reached only when a result of the named scan function (called in the same function) was found
// nil or empty.
func emptyScanFact(b *ssa.BasicBlock, scanName string) bool {
	for _, f := range core.FactsAt(b) {
		cmp, ok := f.AsCmp()
		if !ok {
			continue
		}
		x, y := cmp.X, cmp.Y
		if _, isC := x.(*ssa.Const); isC {
			x, y = y, x
		}
		cst, isC := y.(*ssa.Const)
		if !isC {
			continue
		}
		isScan := func(v ssa.Value) bool {
			call, ok := v.(*ssa.Call)
			return ok && core.StaticCalleeName(&call.Call) == scanName
		}
		if isScan(x) && cst.IsNil() && cmp.Op == token.EQL {
			return true
		}
		if call, isCall := x.(*ssa.Call); isCall {
			if bi, isB := call.Call.Value.(*ssa.Builtin); isB && bi.Name() == "len" && isScan(call.Call.Args[0]) {
				if k, okK := core.ConstInt(cst); okK && ((cmp.Op == token.EQL && k == 0) || (cmp.Op == token.LSS && k == 1) || (cmp.Op == token.LEQ && k == 0)) {
					return true
				}
			}
		}
	}
	return false
}

// falseOnlyWhenScanEmpty: every return of g gives the constant false as result idx only where the scan found nothing, and
// a constant otherwise.
func falseOnlyWhenScanEmpty(g *ssa.Function, idx int, scanName string) bool {
	if g == nil || len(g.Blocks) == 0 {
		return false
	}
	n := 0
	for _, b := range g.Blocks {
		ret, ok := b.Instrs[len(b.Instrs)-1].(*ssa.Return)
		if !ok || b == g.Recover {
			continue
		}
		if idx >= len(ret.Results) {
			return false
		}
		cst, isC := ret.Results[idx].(*ssa.Const)
		if !isC || cst.Value == nil {
			return false
		}
		n++
		if cst.Value.ExactString() == "false" && !emptyScanFact(b, scanName) {
			return false
		}
	}
	return n > 0
}

// checkV1RegistrationSiblings: R16.7, R16.8, R16.9.
func checkV1RegistrationSiblings(c *Ctx, p *core.Prog) {
	// R16.7: the two ways to register a value fill a knownValue alike: every field that AddValue sets is set by
	// AddPrecomputedValue too (which adds the precomputed search set). The License classifier registers its whole corpus through
	// AddPrecomputedValue - a field only AddValue fills (a cached length, say) is zero for every license of the archive.
	{
		fieldsOf := func(name string) (map[string]bool, *ssa.Function) {
			fn := p.Func(scPkg, name)
			if fn == nil {
				return nil, nil
			}
			out := map[string]bool{}
			for _, lit := range structLits(pkgClosure(fn, scPkg), "stringclassifier.knownValue") {
				for f := range lit.fields {
					out[f] = true
				}
			}
			return out, fn
		}
		av, f1 := fieldsOf("(*Classifier).AddValue")
		ap, f2 := fieldsOf("(*Classifier).AddPrecomputedValue")
		if f1 != nil && f2 != nil && len(av) > 0 && len(ap) > 0 {
			var missing []string
			for f := range av {
				if !ap[f] {
					missing = append(missing, f)
				}
			}
			sort.Strings(missing)
			c.R.Check(len(missing) == 0, "R16.7", "AddPrecomputedValue fills every field of a known value that AddValue fills", p.Pos(f2.Pos()), fmt.Sprintf("AddValue sets %d fields, AddPrecomputedValue %d", len(av), len(ap)),
				"AddValue sets "+strings.Join(missing, ", ")+" and AddPrecomputedValue does not: for every license loaded from the archive the field is zero, so whatever is computed from it (a confidence from a cached length) is wrong for the whole corpus while the tests, which use AddValue, pass")
		}
	}
	// R16.8: version numbers tell licenses of one family apart (AFL 1.1 ... 3.0, APSL 1.0/1.1): the expression RemoveNonWords
	// deletes with matches neither a letter nor a digit. Read from the package initialiser and tried on sample characters.
	singlePattern := func(name string) ([]string, bool) {
		g := p.Global(core.RootMod, name)
		sp := p.SSAPkgs[core.RootMod]
		if g == nil || sp == nil || sp.Func("init") == nil {
			return nil, false
		}
		for _, b := range sp.Func("init").Blocks {
			for _, in := range b.Instrs {
				st, ok := in.(*ssa.Store)
				if !ok || st.Addr != ssa.Value(g) {
					continue
				}
				if call, isCall := st.Val.(*ssa.Call); isCall && strings.HasPrefix(core.StaticCalleeName(call.Common()), "regexp.") && len(call.Call.Args) == 1 {
					if pat, isS := core.ConstString(call.Call.Args[0]); isS {
						return []string{pat}, true
					}
				}
			}
		}
		return nil, false
	}
	if pats, ok := singlePattern("nonWords"); ok && len(pats) == 1 {
		re, err := regexp.Compile(pats[0])
		if err != nil {
			c.R.Undecided("R16.8", "nonWords pattern", "classifier.go", "the pattern does not compile in the checker: "+err.Error())
		} else {
			bad := ""
			for _, ch := range []string{"0", "1", "7", "9", "a", "Z", "é"} {
				if re.MatchString(ch) {
					bad += ch + " "
				}
			}
			c.R.Check(bad == "", "R16.8", "RemoveNonWords keeps letters and digits", "classifier.go", "pattern "+pats[0]+" matches no letter and no digit",
				"the pattern "+pats[0]+" also deletes "+strings.TrimSpace(bad)+": texts that differ in their version numbers only (the AFL and APSL headers) normalise to the same text, and every one of them is reported under the name that sorts first")
		}
	} else {
		c.R.Info("R16.8", "nonWords pattern", "classifier.go", "not decided: the pattern could not be read from the package initialiser")
	}
	// R16.9: every candidate that was scored stays in the queue until the caller takes the best one: inside nearestMatch (and
	// the tasks it starts) the queue is only pushed to. The queue hands out the best match first, so a Pop that is meant to
	// cap its size throws the best candidate away.
	if nm := p.Func(scPkg, "(*Classifier).nearestMatch"); nm != nil {
		bad := ""
		nPush := 0
		for _, f := range core.WithAnon(nm) {
			for _, call := range core.CallsIn(f) {
				n := core.StaticCalleeName(call.Common())
				if strings.HasSuffix(n, "pq.Queue).Push") {
					nPush++
				}
				if (strings.HasSuffix(n, "pq.Queue).Pop") || strings.HasSuffix(n, "pq.Queue).Remove")) && bad == "" {
					bad = p.Pos(call.Pos())
				}
			}
		}
		c.R.Check(bad == "", "R16.9", "nearestMatch only adds to its queue of candidates", p.Pos(nm.Pos()), fmt.Sprintf("%d pushes, no Pop or Remove", nPush),
			"nearestMatch takes an element out of its queue at "+bad+": the queue yields the best match first, so what is removed is the best candidate found so far - the text of a license of the corpus is reported under another license's name")
	}
}
