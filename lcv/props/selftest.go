package props

import (
	"bufio"
	"fmt"
	"os"
	"os/exec"
	"path/filepath"
	"sort"
	"strings"
	"sync"
)

// selfTest (thorough tier): every committed mutant that the catch matrix lists as detected by this
// property's check (reverse-fix patches and seeded changes) is applied to a scratch copy of the
// CURRENT tree and the quick check is run against the copy in a sub-process. A patch that no longer
// applies is skipped. Results are recorded in the evidence and printed; they never change the verdict
// on the real tree.
func selfTest(c *Ctx, ch *Check) {
	matrix := filepath.Join(c.VerifDir, "seeded", "MATRIX.txt")
	f, err := os.Open(matrix)
	if err != nil {
		c.R.Note("self-test: no catch matrix (%v)", err)
		return
	}
	defer f.Close()
	var patches []string
	sc := bufio.NewScanner(f)
	for sc.Scan() {
		l := sc.Text()
		i := strings.Index(l, "detected by:")
		if i < 0 {
			continue
		}
		name := strings.TrimSpace(l[:i])
		ids := strings.Fields(strings.SplitN(l[i+len("detected by:"):], "ERRORS", 2)[0])
		for _, id := range ids {
			if id == ch.ID {
				p := filepath.Join(c.VerifDir, "seeded", name)
				if strings.HasPrefix(name, "mutants/") {
					p = filepath.Join(c.VerifDir, name)
				}
				patches = append(patches, p)
			}
		}
	}
	sort.Strings(patches)
	exe, err := os.Executable()
	if err != nil || len(patches) == 0 {
		return
	}
	type res struct{ patch, verdict, first string }
	out := make([]res, len(patches))
	sem := make(chan bool, 6)
	var wg sync.WaitGroup
	for i, pt := range patches {
		wg.Add(1)
		go func(i int, pt string) {
			defer wg.Done()
			sem <- true
			defer func() { <-sem }()
			out[i] = res{patch: pt}
			tmp, err := os.MkdirTemp("", "lcv-self-")
			if err != nil {
				out[i].verdict = "error"
				return
			}
			defer os.RemoveAll(tmp)
			dst := filepath.Join(tmp, "repo")
			if b, err := exec.Command("rsync", "-a", "--exclude", ".git", c.Repo+"/", dst+"/").CombinedOutput(); err != nil {
				out[i].verdict, out[i].first = "error", string(b)
				return
			}
			ap := exec.Command("patch", "-p1", "-s", "--no-backup-if-mismatch", "-i", pt)
			ap.Dir = dst
			if err := ap.Run(); err != nil {
				out[i].verdict = "skipped (patch does not apply to the current tree)"
				return
			}
			cmd := exec.Command(exe, "check", ch.ID, "quick")
			cmd.Env = append(os.Environ(), "LCV_REPO="+dst, "LCV_OUT="+tmp, "LCV_VERIF="+c.VerifDir)
			b, _ := cmd.CombinedOutput()
			code := cmd.ProcessState.ExitCode()
			if code == 1 && strings.Contains(string(b), "VIOLATION property="+ch.ID) {
				out[i].verdict = "detected"
				for _, l := range strings.Split(string(b), "\n") {
					if strings.Contains(l, "VIOLATION [") || strings.Contains(l, "UNDECIDED [") {
						out[i].first = strings.TrimSpace(l)
						if len(out[i].first) > 200 {
							out[i].first = out[i].first[:200]
						}
						break
					}
				}
			} else {
				out[i].verdict = fmt.Sprintf("MISSED (exit %d)", code)
			}
		}(i, pt)
	}
	wg.Wait()
	det, skip, miss := 0, 0, 0
	var samples []string
	for _, r := range out {
		name := strings.TrimPrefix(r.patch, c.VerifDir+"/")
		switch {
		case r.verdict == "detected":
			det++
		case strings.HasPrefix(r.verdict, "skipped"):
			skip++
		default:
			miss++
			fmt.Printf("SELFTEST-MISS property=%s patch=%s %s\n", ch.ID, name, r.verdict)
		}
		samples = append(samples, name+": "+r.verdict)
	}
	c.R.Count("selftest:mutants", len(out))
	c.R.Count("selftest:detected", det)
	c.R.Count("selftest:skipped", skip)
	c.R.Count("selftest:missed", miss)
	c.R.Note("self-test on scratch copies of the current tree: %d mutants, %d detected, %d skipped, %d missed: %s", len(out), det, skip, miss, strings.Join(samples, "; "))
	fmt.Printf("self-test: %d mutants of %s applied to scratch copies: %d detected, %d skipped, %d missed\n", len(out), ch.ID, det, skip, miss)
}
