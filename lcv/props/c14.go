package props

import (
	"fmt"
	"go/token"
	"go/types"
	"sort"
	"strings"

	"golang.org/x/tools/go/ssa"

	"lcv/core"
	"lcv/eng"
)

const scPkg = core.RootMod + "/stringclassifier"

var v1Scope = []string{core.RootMod, "github.com/sergi/go-diff"}

func init() {
	register(&Check{
		ID:      "C14",
		Modules: []string{""},
		Explanation: "Lock-set analysis (must-hold dataflow over the SSA CFG of every function of stringclassifier, closures included) against a guarded-by table confirmed by reading: " +
			"every access to Classifier.values (field load, lookup, update, range, len) holds muValues in the required mode; a write that is control-dependent on a read of the same guarded location shares the lock acquisition with it (check-then-act atomicity); " +
			"knownValue.set is written once under the write lock behind a nil test in the same critical section, and read only under the lock or in functions whose every call site is dominated by that critical section on the same object; " +
			"priority-queue operations that can run in spawned goroutines hold the queue's mutex; a known value is stored into the shared map only after all its (afterwards immutable) fields were written. In addition the effect analysis E1 enumerates every write to shared memory reachable from the v1 entry points (through goroutines and container/heap callbacks); any write outside the table is a violation. " +
			"Decides race freedom of these accesses on every interleaving; does not decide that concurrent results equal sequential ones (NearestMatch ties are documented as undefined).",
		Run: runC14,
	})
}

type guardedAccess struct {
	in    ssa.Instruction
	write bool
	what  string
}

func pkgFuncs(p *core.Prog, pkg string) []*ssa.Function {
	var out []*ssa.Function
	for _, f := range p.SrcFuncs(pkg) {
		if core.FuncPkgPath(f) == pkg {
			out = append(out, f)
		}
	}
	return out
}

// isFreshBase: the struct whose field is written is a local allocation (composite literal).
func isFreshBase(v ssa.Value) bool {
	switch x := v.(type) {
	case *ssa.Alloc:
		return true
	case *ssa.FieldAddr:
		return isFreshBase(x.X)
	}
	return false
}

func runC14(c *Ctx) {
	p := c.Prog("")
	if p == nil {
		return
	}
	// shared with C13: what MultipleMatch returns does not depend on the order in which its goroutines delivered - the
	// matches are sorted before the duplicates are removed (R13.6)
	if c.R.Filter == nil {
		borrowRules(c, []string{"R13.6"}, runC13)
	}
	c.R.Assume("guarded-by table (confirmed by reading): Classifier.values -> muValues; knownValue.set -> muValues (write-once lazy init); matcher.queue -> matcher.mu; nearestMatch's pq -> its local mu")
	c.R.Assume("sync.Mutex/RWMutex/WaitGroup provide the documented happens-before edges; fields written only in composite literals before publication are immutable afterwards")
	fns := pkgFuncs(p, scPkg)
	if len(fns) == 0 {
		c.R.Fail("anchor", "anchor:"+scPkg, "-", "package not found")
		return
	}
	c.R.Count("R14:functions", len(fns))
	checkV1DiffDeadline(c, p, fns)
	flows := map[*ssa.Function]*eng.LockFlow{}
	acqs := 0
	for _, f := range fns {
		flows[f] = eng.NewLockFlow(f)
		acqs += flows[f].Acqs
	}
	c.R.RequireMin("R14.1", "lock acquisitions in stringclassifier", acqs, 3)
	// R14.15: a lock that a function takes is given back on every way out of it: behind each Lock/RLock every path to a
	// return passes the matching Unlock/RUnlock (or the function defers it). A read lock that stays held after an early
	// return blocks the next AddValue for ever, and with a writer waiting every later reader as well.
	{
		nA, bad := 0, ""
		for _, f := range append(append([]*ssa.Function{}, fns...), pkgFuncs(p, core.RootMod)...) {
			deferred := map[string]bool{}
			for _, b := range f.Blocks {
				for _, in := range b.Instrs {
					if d, ok := in.(*ssa.Defer); ok {
						if op, k := eng.MutexOp(f, &d.Call); op == "Unlock" || op == "RUnlock" {
							deferred[op+" "+k] = true
						}
					}
				}
			}
			for _, b := range f.Blocks {
				for i, in := range b.Instrs {
					call, ok := in.(*ssa.Call)
					if !ok {
						continue
					}
					op, k := eng.MutexOp(f, &call.Call)
					if op != "Lock" && op != "RLock" {
						continue
					}
					nA++
					rel := "Unlock"
					if op == "RLock" {
						rel = "RUnlock"
					}
					if deferred[rel+" "+k] {
						continue
					}
					releases := func(x ssa.Instruction) bool {
						c2, ok := x.(*ssa.Call)
						if !ok {
							return false
						}
						o2, k2 := eng.MutexOp(f, &c2.Call)
						return o2 == rel && k2 == k
					}
					// forward search for a return that is reached without the release
					leak := ""
					seen := map[*ssa.BasicBlock]bool{}
					var scan func(bb *ssa.BasicBlock, from int)
					scan = func(bb *ssa.BasicBlock, from int) {
						for _, x := range bb.Instrs[from:] {
							if releases(x) {
								return
							}
							if r, isRet := x.(*ssa.Return); isRet {
								leak = p.Pos(r.Pos())
								return
							}
						}
						for _, s := range bb.Succs {
							if !seen[s] && leak == "" {
								seen[s] = true
								scan(s, 0)
							}
						}
					}
					scan(b, i+1)
					if leak != "" && bad == "" {
						bad = core.ShortFn(f) + ": " + op + " of " + k + " at " + p.Pos(call.Pos()) + " is still held at the return at " + leak
					}
				}
			}
		}
		c.R.Check(bad == "", "R14.15", "a lock that a function takes is released on every way out of it", scPkg, fmt.Sprintf("%d acquisitions: each is followed by its release on every path to a return, or the release is deferred", nA),
			bad+": the call returns with the lock held - the next AddValue waits for ever, and once a writer waits every later MultipleMatch/NearestMatch blocks behind it")
	}
	// R14.16: a lock that is held while caller-supplied code runs (a call of a function value: the normalisers) is released
	// by a deferred call: an explicit Unlock behind the call is skipped when that code panics, and a caller that recovers has a
	// classifier that blocks every other goroutine for ever.
	{
		dyn := map[*ssa.Function]int{}
		var hasDyn func(f *ssa.Function, d int) bool
		hasDyn = func(f *ssa.Function, d int) bool {
			if f == nil || len(f.Blocks) == 0 || d > 4 {
				return false
			}
			if v, ok := dyn[f]; ok {
				return v == 1
			}
			dyn[f] = 0
			for _, call := range core.CallsIn(f) {
				cc := call.Common()
				if cc.IsInvoke() {
					continue
				}
				if _, isB := cc.Value.(*ssa.Builtin); isB {
					continue
				}
				if g := cc.StaticCallee(); g != nil {
					if core.InRepo(g) && hasDyn(g, d+1) {
						dyn[f] = 1
						return true
					}
					continue
				}
				if _, isMC := cc.Value.(*ssa.MakeClosure); isMC {
					continue
				}
				dyn[f] = 1
				return true
			}
			return false
		}
		nA, bad := 0, ""
		for _, f := range append(append([]*ssa.Function{}, fns...), pkgFuncs(p, core.RootMod)...) {
			deferred := map[string]bool{}
			for _, b := range f.Blocks {
				for _, in := range b.Instrs {
					if d, ok := in.(*ssa.Defer); ok {
						if op, k := eng.MutexOp(f, &d.Call); op == "Unlock" || op == "RUnlock" {
							deferred[op+" "+k] = true
						}
					}
				}
			}
			for _, b := range f.Blocks {
				for i, in := range b.Instrs {
					call, ok := in.(*ssa.Call)
					if !ok {
						continue
					}
					op, k := eng.MutexOp(f, &call.Call)
					if op != "Lock" && op != "RLock" {
						continue
					}
					rel := "Unlock"
					if op == "RLock" {
						rel = "RUnlock"
					}
					if deferred[rel+" "+k] {
						continue
					}
					nA++
					seen := map[*ssa.BasicBlock]bool{}
					var scan func(bb *ssa.BasicBlock, from int)
					scan = func(bb *ssa.BasicBlock, from int) {
						for _, x := range bb.Instrs[from:] {
							if c2, isCall := x.(*ssa.Call); isCall {
								if o2, k2 := eng.MutexOp(f, &c2.Call); o2 == rel && k2 == k {
									return
								}
								risky := false
								if g := c2.Call.StaticCallee(); g != nil {
									risky = core.InRepo(g) && hasDyn(g, 0)
								} else if _, isB := c2.Call.Value.(*ssa.Builtin); !isB && !c2.Call.IsInvoke() {
									if _, isMC := c2.Call.Value.(*ssa.MakeClosure); !isMC {
										risky = true
									}
								}
								if risky && bad == "" {
									bad = core.ShortFn(f) + ": " + k + " is taken at " + p.Pos(call.Pos()) + " and still held, without a deferred release, at the call at " + p.Pos(c2.Pos()) + " that runs a function value"
								}
							}
						}
						for _, sc := range bb.Succs {
							if !seen[sc] {
								seen[sc] = true
								scan(sc, 0)
							}
						}
					}
					scan(b, i+1)
				}
			}
		}
		c.R.Check(bad == "", "R14.16", "a lock held while caller-supplied code runs is released by a deferred call", scPkg, fmt.Sprintf("%d acquisitions with an explicit release: none spans a call of a function value", nA),
			bad+": when that function panics the explicit release is skipped - a caller that recovers is left with a classifier whose every other call blocks")
	}
	// R14.17: nothing is initialised on first use without synchronisation: outside package initialisation no function of the
	// two packages assigns a package-level variable, unless it holds a mutex there (or runs under sync.Once). Two first calls
	// from different goroutines - the normalisers run inside every MultipleMatch/NearestMatch - race on the variable.
	{
		nS, bad := 0, ""
		for _, f := range append(append([]*ssa.Function{}, fns...), pkgFuncs(p, core.RootMod)...) {
			if f.Name() == "init" || strings.HasPrefix(f.Name(), "init#") || f.Synthetic != "" {
				continue
			}
			if f.Parent() != nil && (f.Parent().Name() == "init" || strings.HasPrefix(f.Parent().Name(), "init#")) {
				continue
			}
			lf := flows[f]
			if lf == nil {
				lf = eng.NewLockFlow(f)
			}
			for _, b := range f.Blocks {
				for _, in := range b.Instrs {
					st, ok := in.(*ssa.Store)
					if !ok {
						continue
					}
					g, isG := st.Addr.(*ssa.Global)
					if !isG || g.Pkg == nil || !(g.Pkg.Pkg.Path() == scPkg || g.Pkg.Pkg.Path() == core.RootMod) {
						continue
					}
					nS++
					if len(lf.Before[in]) > 0 {
						continue // under a lock
					}
					if onceOnly(f) {
						continue
					}
					if bad == "" {
						bad = core.ShortFn(f) + " assigns " + g.Name() + " at " + p.Pos(st.Pos())
					}
				}
			}
		}
		c.R.Check(bad == "", "R14.17", "no package-level variable is assigned outside initialisation without a lock", scPkg, fmt.Sprintf("%d assignments of package-level variables outside init functions, each under a lock or sync.Once", nS),
			bad+" without holding a lock: a value computed on first use and kept in a package-level variable is written by the first calls of several goroutines at once - a data race on state every classifier shares")
	}
	// R14.8: no mutex is acquired again while it is already held by the same call chain. sync.RWMutex is not reentrant: a
	// second RLock blocks behind a writer that is waiting for the first one to be released, and that writer never gets
	// the lock - both calls hang.
	{
		acquires := map[*ssa.Function]map[string]bool{}
		var acqOf func(f *ssa.Function, depth int) map[string]bool
		acqOf = func(f *ssa.Function, depth int) map[string]bool {
			if m, ok := acquires[f]; ok {
				return m
			}
			m := map[string]bool{}
			acquires[f] = m
			if depth > 3 {
				return m
			}
			for _, call := range core.CallsIn(f) {
				if op, key := eng.MutexOp(f, call.Common()); (op == "Lock" || op == "RLock") && strings.Contains(key, ".") && !strings.HasPrefix(key, "local ") {
					m[key] = true
				}
				if _, isGo := call.(*ssa.Go); isGo {
					continue
				}
				if g := call.Common().StaticCallee(); g != nil && core.FuncPkgPath(g) == scPkg && g != f {
					for k := range acqOf(g, depth+1) {
						m[k] = true
					}
				}
			}
			return m
		}
		n8, bad := 0, 0
		for _, f := range fns {
			for _, call := range core.CallsIn(f) {
				if _, isGo := call.(*ssa.Go); isGo {
					continue
				}
				g := call.Common().StaticCallee()
				if g == nil || core.FuncPkgPath(g) != scPkg || g == f {
					continue
				}
				for key := range acqOf(g, 0) {
					n8++
					if h := flows[f].Held(call, key); h.Mode != 0 {
						bad++
						c.R.Fail("R14.8", core.ShortFn(f)+" calls "+g.Name()+" while holding "+key+", which "+g.Name()+" acquires again", p.Pos(call.Pos()),
							"the mutex is not reentrant: if a writer asks for the lock between the two acquisitions, the second one waits behind the writer and the writer waits for the first to be released - the call never returns")
					}
				}
			}
		}
		if bad == 0 {
			c.R.OK("R14.8", "no mutex of the classifier is acquired again by a callee while the caller holds it", "-", fmt.Sprintf("%d (call site, mutex acquired by the callee) pairs examined", n8))
		}
	}
	// roles: the guarded map is the only map field of Classifier, its guard the only (RW)Mutex field, the
	// lazily initialised field the only *searchset.SearchSet field of the map's element type
	clsT := p.Named(scPkg, "Classifier")
	if !c.R.Anchor(clsT != nil, "stringclassifier.Classifier") {
		return
	}
	valuesField, ok1 := core.UniqueField(clsT, func(t types.Type) bool { _, isMap := t.Underlying().(*types.Map); return isMap })
	muField, ok2 := core.UniqueField(clsT, func(t types.Type) bool {
		return core.IsNamedType(t, "sync", "RWMutex") || core.IsNamedType(t, "sync", "Mutex")
	})
	if !c.R.Anchor(ok1 && ok2, "stringclassifier.Classifier: one map field guarded by one mutex field") {
		return
	}
	var kvT types.Type
	for i := 0; i < core.StructOf(clsT).NumFields(); i++ {
		if f := core.StructOf(clsT).Field(i); f.Name() == valuesField {
			kvT = f.Type().Underlying().(*types.Map).Elem()
		}
	}
	setField, ok3 := core.UniqueField(kvT, func(t types.Type) bool { return core.IsNamedType(t, ssPkg, "SearchSet") })
	if !c.R.Anchor(ok3, "the known-value type has one *searchset.SearchSet field") {
		return
	}
	kvName := core.TypeName(kvT)
	muValues := "stringclassifier.Classifier." + muField
	lazySetField, guardedMapField = setField, valuesField

	// ---- R14.1: Classifier.values ---------------------------------------------------
	nAcc := 0
	type acc struct {
		fn    *ssa.Function
		in    ssa.Instruction
		write bool
		what  string
		val   ssa.Value // value produced by a read (for control-dependence)
	}
	var valueAccs []acc
	for _, f := range fns {
		for _, b := range f.Blocks {
			for _, in := range b.Instrs {
				fa, ok := in.(*ssa.FieldAddr)
				if !ok || core.FieldName(fa) != valuesField || !strings.HasSuffix(core.TypeName(fa.X.Type()), "stringclassifier.Classifier") {
					continue
				}
				if isFreshBase(fa.X) {
					continue // composite literal in the constructor
				}
				for _, u := range *fa.Referrers() {
					switch x := u.(type) {
					case *ssa.Store:
						valueAccs = append(valueAccs, acc{f, x, true, "assignment to the map field", nil})
					case *ssa.UnOp:
						valueAccs = append(valueAccs, acc{f, x, false, "load of the map field", x})
						for _, uu := range *x.Referrers() {
							switch y := uu.(type) {
							case *ssa.Lookup:
								valueAccs = append(valueAccs, acc{f, y, false, "lookup", y})
							case *ssa.MapUpdate:
								valueAccs = append(valueAccs, acc{f, y, true, "map update", nil})
							case *ssa.Range:
								valueAccs = append(valueAccs, acc{f, y, false, "range", nil})
								for _, n := range *y.Referrers() {
									if nx, ok := n.(*ssa.Next); ok {
										valueAccs = append(valueAccs, acc{f, nx, false, "range iteration", nil})
									}
								}
							case *ssa.Call:
								if bi, ok := y.Call.Value.(*ssa.Builtin); ok {
									switch bi.Name() {
									case "len":
										valueAccs = append(valueAccs, acc{f, y, false, "len", y})
									case "delete":
										valueAccs = append(valueAccs, acc{f, y, true, "delete", nil})
									default:
										c.R.Undecided("R14.1", core.ShortFn(f)+": Classifier.values passed to builtin "+bi.Name(), p.Pos(y.Pos()), "unrecognised use of the guarded map")
									}
								} else {
									c.R.Undecided("R14.1", core.ShortFn(f)+": Classifier.values escapes to "+core.StaticCalleeName(&y.Call), p.Pos(y.Pos()), "the guarded map is handed to another function; its accesses there are not tracked")
								}
							case *ssa.DebugRef:
							default:
								c.R.Undecided("R14.1", core.ShortFn(f)+": Classifier.values used by "+fmt.Sprintf("%T", uu), p.Pos(uu.Pos()), "unrecognised use of the guarded map: "+uu.String())
							}
						}
					}
				}
			}
		}
	}
	for _, a := range valueAccs {
		nAcc++
		h := flows[a.fn].Held(a.in, muValues)
		need := eng.LockR
		mode := "read"
		if a.write {
			need = eng.LockW
			mode = "write"
		}
		key := core.ShortFn(a.fn) + ": " + a.what + " of Classifier.values (" + mode + ")"
		if h.Mode < need && callersHold(flows, a.fn, muValues, need, 0) {
			// a helper that is documented to be called with the lock held: every call site in the package holds it
			c.R.OK("R14.1", key+" holds muValues", p.Pos(a.in.Pos()), "the lock is held at every call site of "+a.fn.Name())
			continue
		}
		if h.Mode >= need {
			c.R.OK("R14.1", key+" holds muValues", p.Pos(a.in.Pos()), "locks held on every path: "+flows[a.fn].Before[a.in].String())
		} else {
			c.R.Fail("R14.1", key+" without muValues", p.Pos(a.in.Pos()), fmt.Sprintf("needs muValues in %s mode on every path; held: %s", mode, flows[a.fn].Before[a.in].String()))
		}
	}
	c.R.RequireMin("R14.1", "accesses to Classifier.values", nAcc, 4)

	// ---- R14.2: check-then-act atomicity on Classifier.values --------------------------
	for _, w := range valueAccs {
		if !w.write {
			continue
		}
		for _, r := range valueAccs {
			if r.write || r.fn != w.fn || r.val == nil {
				continue
			}
			if controlledBy(w.in, r.val) {
				hw, hr := flows[w.fn].Held(w.in, muValues), flows[w.fn].Held(r.in, muValues)
				key := core.ShortFn(w.fn) + ": " + w.what + " of Classifier.values decided by an earlier " + r.what
				if hw.Acq != nil && hw.Acq == hr.Acq {
					c.R.OK("R14.2", key+" in the same critical section", p.Pos(w.in.Pos()), "check and act share one lock acquisition")
				} else {
					c.R.Fail("R14.2", key+" in a different critical section", p.Pos(w.in.Pos()), "the check and the write it decides do not share one acquisition of muValues: another goroutine can change the map in between (check-then-act)")
				}
			}
		}
	}

	// ---- R14.3: knownValue.set --------------------------------------------------------
	checkLazySet(c, p, fns, flows, muValues, setField, kvName)

	// ---- R14.4: queues in goroutines --------------------------------------------------
	checkQueueMutex(c, p, fns, flows)

	// ---- R14.9: no lock is copied -----------------------------------------------------
	// a method with a value receiver (or a parameter passed by value) of a type that contains a mutex works on a copy of
	// the lock: what it locks protects nothing, and a copy taken while a writer holds the lock can never be locked again
	{
		var hasLock func(t types.Type, depth int) bool
		hasLock = func(t types.Type, depth int) bool {
			if depth > 4 {
				return false
			}
			if core.IsNamedType(t, "sync", "Mutex") || core.IsNamedType(t, "sync", "RWMutex") || core.IsNamedType(t, "sync", "WaitGroup") {
				return true
			}
			if st, ok := t.Underlying().(*types.Struct); ok {
				for i := 0; i < st.NumFields(); i++ {
					if hasLock(st.Field(i).Type(), depth+1) {
						return true
					}
				}
			}
			return false
		}
		nSig, bad := 0, ""
		for _, f := range fns {
			for _, prm := range f.Params {
				nSig++
				if _, isPtr := prm.Type().Underlying().(*types.Pointer); !isPtr && hasLock(prm.Type(), 0) {
					bad = core.ShortFn(f) + " takes " + prm.Name() + " (" + core.TypeName(prm.Type()) + ") by value"
				}
			}
			// a whole-struct load of a lock-bearing value
			for _, b := range f.Blocks {
				for _, in := range b.Instrs {
					if ld, ok := in.(*ssa.UnOp); ok && ld.Op == token.MUL && hasLock(ld.Type(), 0) {
						if _, isLockItself := ld.Type().Underlying().(*types.Struct); isLockItself && !(core.IsNamedType(ld.Type(), "sync", "Mutex") || core.IsNamedType(ld.Type(), "sync", "RWMutex") || core.IsNamedType(ld.Type(), "sync", "WaitGroup")) {
							bad = core.ShortFn(f) + " copies a " + core.TypeName(ld.Type()) + " (" + p.Pos(ld.Pos()) + ")"
						}
					}
				}
			}
		}
		c.R.Check(bad == "", "R14.9", "stringclassifier: no value that contains a mutex is copied", scPkg, fmt.Sprintf("%d parameters and receivers examined", nSig),
			bad+": the copy's lock is not the classifier's lock - readers that take it race with AddValue, and a copy made while the lock is held is locked forever")
	}

	// ---- R14.10: what a call answers does not depend on arrival or iteration order ---
	checkArrivalOrder(c, p, fns)

	// ---- R14.11: no goroutine of a call waits for something that belongs to all calls ----
	// a channel that is a package-level variable (a pool of slots, a limiter) outlives the call: a goroutine that takes a slot
	// and then waits for goroutines of its own that need slots as well never finishes once enough calls overlap
	{
		region := eng.ConcurrentRegion(fns)
		nOps, bad := 0, ""
		var fromGlobal func(v ssa.Value, d int) bool
		fromGlobal = func(v ssa.Value, d int) bool {
			if d > 4 {
				return false
			}
			switch x := v.(type) {
			case *ssa.Global:
				return true
			case *ssa.UnOp:
				return fromGlobal(x.X, d+1)
			case *ssa.FieldAddr:
				return fromGlobal(x.X, d+1)
			case *ssa.Phi:
				for _, e := range x.Edges {
					if fromGlobal(e, d+1) {
						return true
					}
				}
			}
			return false
		}
		for f := range region {
			for _, b := range f.Blocks {
				for _, in := range b.Instrs {
					var ch ssa.Value
					switch x := in.(type) {
					case *ssa.Send:
						ch = x.Chan
					case *ssa.UnOp:
						if x.Op == token.ARROW {
							ch = x.X
						}
					case *ssa.Select:
						for _, st := range x.States {
							if fromGlobal(st.Chan, 0) {
								ch = st.Chan
							}
						}
					}
					if ch == nil {
						continue
					}
					nOps++
					if fromGlobal(ch, 0) {
						bad = core.ShortFn(f) + " (" + p.Pos(in.Pos()) + ")"
					}
				}
			}
		}
		c.R.Check(bad == "", "R14.11", "stringclassifier: no spawned goroutine sends to or receives from a package-level channel", scPkg,
			fmt.Sprintf("%d functions can run in spawned goroutines, %d channel operations in them, none on a package-level channel", len(region), nOps),
			"a goroutine of a call blocks on a channel that is shared by all calls in "+bad+": goroutines that hold a slot while they wait for others that need one stop for ever when calls overlap")
	}

	// ---- R14.13: a field that is written under the struct's own mutex is never touched without it ----
	// (the contradiction rule: one place takes the lock to write the field, another reads or writes it bare - one of the two
	// is wrong, and the bare one races with the locked writer)
	{
		nF := 0
		for _, tn := range []string{"matcher", "Classifier"} {
			T := p.Named(scPkg, tn)
			if T == nil || core.StructOf(T) == nil {
				continue
			}
			st := core.StructOf(T)
			muKey := ""
			for i := 0; i < st.NumFields(); i++ {
				if core.IsNamedType(st.Field(i).Type(), "sync", "Mutex") || core.IsNamedType(st.Field(i).Type(), "sync", "RWMutex") {
					muKey = "stringclassifier." + tn + "." + st.Field(i).Name()
				}
			}
			if muKey == "" {
				continue
			}
			type acc struct {
				f     *ssa.Function
				in    ssa.Instruction
				write bool
			}
			byField := map[string][]acc{}
			for _, f := range fns {
				for _, b := range f.Blocks {
					for _, in := range b.Instrs {
						var fa *ssa.FieldAddr
						write := false
						switch x := in.(type) {
						case *ssa.Store:
							fa, _ = x.Addr.(*ssa.FieldAddr)
							write = true
						case *ssa.UnOp:
							if x.Op == token.MUL {
								fa, _ = x.X.(*ssa.FieldAddr)
							}
						}
						if fa == nil || isFreshBase(fa.X) || core.TypeName(fa.X.Type()) != "*"+scPkg+"."+tn && !strings.HasSuffix(core.TypeName(fa.X.Type()), "stringclassifier."+tn) {
							continue
						}
						ft := st.Field(fa.Field).Type()
						if strings.HasPrefix(ft.String(), "sync.") {
							continue
						}
						byField[st.Field(fa.Field).Name()] = append(byField[st.Field(fa.Field).Name()], acc{f, in, write})
					}
				}
			}
			for name, accs := range byField {
				lockedWrite := false
				for _, a := range accs {
					if a.write && flows[a.f].Held(a.in, muKey).Mode == eng.LockW {
						lockedWrite = true
					}
				}
				if !lockedWrite {
					continue
				}
				nF++
				for _, a := range accs {
					h := flows[a.f].Held(a.in, muKey)
					okA := h.Mode == eng.LockW || (!a.write && h.Mode != 0)
					what := "read"
					if a.write {
						what = "write"
					}
					c.R.Check(okA, "R14.13", fmt.Sprintf("%s: %s of %s.%s holds %s", core.ShortFn(a.f), what, tn, name, muKey), p.Pos(a.in.Pos()), "held: "+flows[a.f].Before[a.in].String(),
						fmt.Sprintf("%s.%s is written under %s elsewhere, but this %s does not hold it (held: %s): it races with the locked writer, and what it sees depends on the schedule", tn, name, muKey, what, flows[a.f].Before[a.in].String()))
				}
			}
		}
		c.R.Count("R14.13:fields written under their struct's mutex", nF)
	}

	// ---- R14.14: no spawned goroutine decides by a variable that its siblings write ----------------------
	// a goroutine may add its result to shared state under the lock; what it computes - and whether it reports it - must not
	// depend on what the other goroutines have put there so far, or the answer depends on which of them was faster
	{
		region := eng.ConcurrentRegion(fns)
		written := map[*ssa.FreeVar]bool{}
		for f := range region {
			for _, b := range f.Blocks {
				for _, in := range b.Instrs {
					if stv, ok := in.(*ssa.Store); ok {
						if fv, isFV := stv.Addr.(*ssa.FreeVar); isFV {
							written[fv] = true
						}
					}
				}
			}
		}
		nIf, bad := 0, ""
		for f := range region {
			for _, b := range f.Blocks {
				ifi, ok := b.Instrs[len(b.Instrs)-1].(*ssa.If)
				if !ok {
					continue
				}
				nIf++
				seen := map[ssa.Value]bool{}
				var walk func(v ssa.Value) bool
				walk = func(v ssa.Value) bool {
					if v == nil || seen[v] {
						return false
					}
					seen[v] = true
					if ld, isLd := v.(*ssa.UnOp); isLd && ld.Op == token.MUL {
						if fv, isFV := ld.X.(*ssa.FreeVar); isFV && written[fv] {
							return true
						}
					}
					if vi, ok := v.(ssa.Instruction); ok {
						for _, op := range vi.Operands(nil) {
							if walk(*op) {
								return true
							}
						}
					}
					return false
				}
				if walk(ifi.Cond) {
					bad = core.ShortFn(f) + " (" + p.Pos(ifi.Cond.Pos()) + ")"
				}
			}
		}
		c.R.Check(bad == "", "R14.14", "stringclassifier: no goroutine branches on a captured variable that goroutines write", scPkg, fmt.Sprintf("%d branches in functions that can run in spawned goroutines", nIf),
			"a branch in "+bad+" tests a captured variable that the goroutines of the same call also assign: what this goroutine does depends on how far the others have got, so equal calls give different answers")
	}

	// ---- R14.12: results of goroutines are not collected in completion order ------------
	checkCompletionOrder(c, p)

	// ---- R14.6: a known value is complete before it is published ----------------------
	checkPublishAfterInit(c, p, fns, kvName, setField)

	// ---- R14.5: every other shared write reachable from the v1 entry points -----------
	checkV1SharedWrites(c, p)
}

// checkQueueMutex: R14.4. The operations on a priority queue that can run in spawned goroutines all hold one mutex that
// lives at least as long as the queue.
func checkQueueMutex(c *Ctx, p *core.Prog, fns []*ssa.Function, flows map[*ssa.Function]*eng.LockFlow) {
	region := eng.ConcurrentRegion(fns)
	c.R.Count("R14.4:functions that can run in spawned goroutines", len(region))
	type qop struct {
		fn   *ssa.Function
		in   ssa.Instruction
		q    string
		held eng.LockState
	}
	var qops []qop
	for f := range region {
		for _, call := range core.CallsIn(f) {
			n := core.StaticCalleeName(call.Common())
			if !strings.HasPrefix(n, "(*"+scPkg+"/internal/pq.Queue).") {
				continue
			}
			recv := call.Common().Args[0]
			qops = append(qops, qop{f, call, queueKey(f, recv), flows[f].Before[call]})
		}
	}
	sort.Slice(qops, func(i, j int) bool { return qops[i].in.Pos() < qops[j].in.Pos() })
	byQ := map[string][]qop{}
	for _, q := range qops {
		byQ[q.q] = append(byQ[q.q], q)
	}
	for q, ops := range byQ {
		// common W lock over all operations
		var common map[string]bool
		for _, o := range ops {
			cur := map[string]bool{}
			for k, v := range o.held {
				if v.Mode == eng.LockW {
					cur[k] = true
				}
			}
			if common == nil {
				common = cur
			} else {
				for k := range common {
					if !cur[k] {
						delete(common, k)
					}
				}
			}
		}
		// a mutex that is a local variable of function F exists once per invocation of F: it can only
		// protect a queue that is local to the same invocation
		for k := range common {
			if strings.HasPrefix(k, "local ") {
				owner := strings.SplitN(strings.TrimPrefix(k, "local "), ".", 2)[0]
				if !strings.HasPrefix(q, "local ") || queueOwner(ops[0].fn) != owner {
					delete(common, k)
				}
			}
		}
		for _, o := range ops {
			key := core.ShortFn(o.fn) + ": " + strings.TrimPrefix(core.StaticCalleeName(o.in.(ssa.CallInstruction).Common()), "(*"+scPkg+"/internal/pq.Queue).") + " on " + q + " in a goroutine"
			if len(common) > 0 {
				c.R.OK("R14.4", key+" holds the queue's mutex", p.Pos(o.in.Pos()), "held: "+o.held.String())
			} else {
				c.R.Fail("R14.4", key+" without a common mutex", p.Pos(o.in.Pos()), "queue operations that can run concurrently must all hold one mutex that lives at least as long as the queue (a mutex local to one call cannot protect a queue shared between calls); held here: "+o.held.String())
			}
		}
	}
	// (no floor on the number of queue operations: a design in which the goroutines hand their results over by other means -
	// result slots, a channel - has none in the concurrent region, and the rule then holds trivially; the count of functions
	// that can run in spawned goroutines above shows that the region itself was found)
	c.R.Count("R14.4:queue operations in goroutines", len(qops))

}

// checkArrivalOrder: R14.10. Spawned goroutines push their matches into a priority queue in the order in which they
// finish, and the known values live in a map: a call answers the same as the sequential call only if neither order
// reaches the answer. (a) The order function of a queue that goroutines push into separates two matches of equal
// confidence by the other thing a caller sees of the first match - its name; (b) no loop over a map in the package is
// left before all entries were seen with something else than a constant verdict.
func checkArrivalOrder(c *Ctx, p *core.Prog, fns []*ssa.Function) {
	region := eng.ConcurrentRegion(fns)
	pushInRegion := false
	for f := range region {
		for _, call := range core.CallsIn(f) {
			if core.StaticCalleeName(call.Common()) == "(*"+scPkg+"/internal/pq.Queue).Push" {
				pushInRegion = true
			}
		}
	}
	nQ := 0
	for _, f := range fns {
		for _, call := range core.CallsIn(f) {
			if core.StaticCalleeName(call.Common()) != scPkg+"/internal/pq.NewQueue" || len(call.Common().Args) == 0 {
				continue
			}
			nQ++
			key := "order of the queue made in " + core.ShortFn(f)
			var less *ssa.Function
			switch a := call.Common().Args[0].(type) {
			case *ssa.Function:
				less = a
			case *ssa.MakeClosure:
				less, _ = a.Fn.(*ssa.Function)
			}
			if less == nil {
				c.R.Undecided("R14.10", key, p.Pos(call.Pos()), "the order function is not a function literal or a named function")
				continue
			}
			cmp := comparedFields(less, 2)
			d := fmt.Sprintf("%s compares the fields %v", core.ShortFn(less), sortedKeys(cmp))
			if !pushInRegion {
				c.R.OK("R14.10", key, p.Pos(call.Pos()), d+"; no goroutine pushes into a queue")
				continue
			}
			c.R.Check(cmp["Confidence"] && cmp["Name"], "R14.10", key, p.Pos(call.Pos()), d,
				d+": two matches of equal confidence are ordered by whichever goroutine pushed first, so the match a call reports changes from call to call")
		}
	}
	c.R.RequireMin("R14.10", "queues made in stringclassifier", nQ, 1)
	nLoops := 0
	for _, f := range fns {
		for _, rl := range rangeLoopsOf(f) {
			if _, isMap := rl.over.Type().Underlying().(*types.Map); !isMap {
				continue
			}
			nLoops++
			bad := mapRangeLeftEarly(p, f, rl)
			c.R.Check(bad == "", "R14.10", "map range in "+core.ShortFn(f)+" over "+core.TypeName(rl.over.Type())+" sees every entry or ends in a constant verdict", p.Pos(rl.header.Instrs[0].Pos()), "",
				"the loop over the map can be left before all entries were seen (at "+bad+") with something else than a constant verdict: which entry ends it depends on the iteration order, which changes from call to call")
		}
	}
	c.R.RequireMin("R14.10", "map ranges in stringclassifier", nLoops, 1)
}

// mapRangeLeftEarly: the position of an exit from the natural loop of a map range, other than through its header, that
// does not end in a return of constants ("" if there is none).
func mapRangeLeftEarly(p *core.Prog, fn *ssa.Function, rl rangeLoop) string {
	loop := naturalLoop(rl.header)
	bad := ""
	for _, b := range fn.Blocks {
		if !loop[b] || b == rl.header {
			continue
		}
		last := b.Instrs[len(b.Instrs)-1]
		for _, sc := range b.Succs {
			if loop[sc] || returnsConstOnly(sc) {
				continue
			}
			bad = p.Pos(last.Pos())
			if bad == "-" {
				bad = p.Pos(sc.Instrs[0].Pos())
			}
		}
	}
	return bad
}

// comparedFields: the names of the struct fields whose values are operands of a comparison in f (or in a repository
// function it calls, to the given depth).
func comparedFields(f *ssa.Function, depth int) map[string]bool {
	out := map[string]bool{}
	var fieldOf func(v ssa.Value, d int) string
	fieldOf = func(v ssa.Value, d int) string {
		if d > 4 {
			return ""
		}
		switch x := v.(type) {
		case *ssa.UnOp:
			if x.Op == token.MUL {
				if fa, ok := x.X.(*ssa.FieldAddr); ok {
					return core.FieldName(fa)
				}
			}
		case *ssa.Field:
			if st, ok := x.X.Type().Underlying().(*types.Struct); ok {
				return st.Field(x.Field).Name()
			}
		case *ssa.Convert:
			return fieldOf(x.X, d+1)
		case *ssa.ChangeType:
			return fieldOf(x.X, d+1)
		}
		return ""
	}
	var walk func(f *ssa.Function, d int)
	seen := map[*ssa.Function]bool{}
	walk = func(f *ssa.Function, d int) {
		if f == nil || seen[f] || len(f.Blocks) == 0 {
			return
		}
		seen[f] = true
		for _, b := range f.Blocks {
			for _, in := range b.Instrs {
				switch x := in.(type) {
				case *ssa.BinOp:
					switch x.Op {
					case token.LSS, token.GTR, token.LEQ, token.GEQ, token.EQL, token.NEQ:
						for _, o := range []ssa.Value{x.X, x.Y} {
							if n := fieldOf(o, 0); n != "" {
								out[n] = true
							}
						}
					}
				case *ssa.Call:
					if n := core.StaticCalleeName(&x.Call); n == "strings.Compare" || n == "cmp.Compare" {
						for _, o := range x.Call.Args {
							if fn := fieldOf(o, 0); fn != "" {
								out[fn] = true
							}
						}
					} else if cal := x.Call.StaticCallee(); cal != nil && core.InRepo(cal) && d > 0 {
						walk(cal, d-1)
					}
				}
			}
		}
	}
	walk(f, depth)
	return out
}

// queueOwner: the outermost function in which a local queue variable lives.
func queueOwner(f *ssa.Function) string {
	for f.Parent() != nil {
		f = f.Parent()
	}
	return f.Name()
}

func queueKey(f *ssa.Function, v ssa.Value) string {
	switch x := v.(type) {
	case *ssa.UnOp:
		if x.Op == token.MUL {
			if fa, ok := x.X.(*ssa.FieldAddr); ok {
				return strings.TrimPrefix(core.TypeName(fa.X.Type()), core.RootMod+"/") + "." + core.FieldName(fa)
			}
			return queueKey(f, x.X)
		}
	case *ssa.FreeVar:
		return "local " + x.Name()
	case *ssa.Alloc:
		return "local " + x.Comment
	case *ssa.Call:
		return "result of " + core.StaticCalleeName(&x.Call)
	}
	return core.AP(v)
}

// controlledBy: the block of `in` is control-dependent on a branch whose condition is
// computed from value r.
func controlledBy(in ssa.Instruction, r ssa.Value) bool {
	fn := in.Parent()
	pd := core.NewPostDom(fn)
	tcd := pd.TransitiveControlDeps()
	for d := range tcd[in.Block()] {
		ifi, ok := d.Instrs[len(d.Instrs)-1].(*ssa.If)
		if !ok {
			continue
		}
		if dependsOn(ifi.Cond, r, 0) {
			return true
		}
	}
	return false
}

func dependsOn(v, r ssa.Value, depth int) bool {
	if v == r {
		return true
	}
	if depth > 8 {
		return false
	}
	in, ok := v.(ssa.Instruction)
	if !ok {
		return false
	}
	if _, isPhi := v.(*ssa.Phi); isPhi {
		return false
	}
	for _, op := range in.Operands(nil) {
		if *op != nil && dependsOn(*op, r, depth+1) {
			return true
		}
	}
	return false
}

// checkLazySet: R14.3.
func checkLazySet(c *Ctx, p *core.Prog, fns []*ssa.Function, flows map[*ssa.Function]*eng.LockFlow, mu string, setField, kvName string) {
	isSetAddr := func(v ssa.Value) (*ssa.FieldAddr, bool) {
		fa, ok := v.(*ssa.FieldAddr)
		if !ok || core.FieldName(fa) != setField || core.TypeName(fa.X.Type()) != kvName {
			return nil, false
		}
		return fa, true
	}
	var inits []initSite
	nReads, nWrites := 0, 0
	// writes
	for _, f := range fns {
		for _, b := range f.Blocks {
			for _, in := range b.Instrs {
				st, ok := in.(*ssa.Store)
				if !ok {
					continue
				}
				fa, ok := isSetAddr(st.Addr)
				if !ok || isFreshBase(fa.X) {
					continue
				}
				nWrites++
				key := core.ShortFn(f) + ": write of knownValue.set"
				h := flows[f].Held(st, mu)
				if h.Mode != eng.LockW {
					c.R.Fail("R14.3", key+" without muValues held for writing", p.Pos(st.Pos()), "held: "+flows[f].Before[st].String())
					continue
				}
				// find a nil test of the same field of the same object, in the same acquisition, that controls the store
				found := false
				pd := core.NewPostDom(f)
				tcd := pd.TransitiveControlDeps()
				for d := range tcd[st.Block()] {
					ifi, ok := d.Instrs[len(d.Instrs)-1].(*ssa.If)
					if !ok {
						continue
					}
					bo, ok := ifi.Cond.(*ssa.BinOp)
					if !ok || (bo.Op != token.EQL && bo.Op != token.NEQ) {
						continue
					}
					var ld *ssa.UnOp
					for _, side := range []ssa.Value{bo.X, bo.Y} {
						if u, ok := side.(*ssa.UnOp); ok && u.Op == token.MUL {
							if fa2, ok := isSetAddr(u.X); ok && core.AP(fa2.X) == core.AP(fa.X) {
								ld = u
							}
						}
					}
					if ld == nil {
						continue
					}
					hr := flows[f].Held(ld, mu)
					if hr.Acq != nil && hr.Acq == h.Acq {
						found = true
						inits = append(inits, initSite{f, d, core.AP(fa.X), st})
					}
				}
				if found {
					c.R.OK("R14.3", key+" is a write-once initialisation: nil test and assignment in one critical section", p.Pos(st.Pos()), "held: "+flows[f].Before[st].String())
				} else {
					c.R.Fail("R14.3", key+" is not decided by a nil test made in the same critical section", p.Pos(st.Pos()), "lazy initialisation must test and assign under one acquisition of muValues, otherwise two goroutines both initialise and a reader can observe the field while it is written")
				}
			}
		}
	}
	// reads
	for _, f := range fns {
		for _, b := range f.Blocks {
			for _, in := range b.Instrs {
				u, ok := in.(*ssa.UnOp)
				if !ok || u.Op != token.MUL {
					continue
				}
				fa, ok := isSetAddr(u.X)
				if !ok || isFreshBase(fa.X) {
					continue
				}
				nReads++
				key := core.ShortFn(f) + ": read of knownValue.set"
				if flows[f].Held(u, mu).Mode >= eng.LockR {
					c.R.OK("R14.3", key+" under muValues", p.Pos(u.Pos()), "held: "+flows[f].Before[u].String())
					continue
				}
				// the read must be behind the initialising critical section: in this function, or at every call site
				root := rootParam(fa.X)
				ok2, why := behindInit(p, f, u, root, inits, fns, 0)
				if ok2 {
					c.R.OK("R14.3", key+" happens after the initialising critical section on every path", p.Pos(u.Pos()), why)
				} else {
					c.R.Fail("R14.3", key+" outside the lock and not behind the initialising critical section", p.Pos(u.Pos()), why)
				}
			}
		}
	}
	c.R.RequireMin("R14.3", "writes of knownValue.set outside composite literals", nWrites, 1)
	c.R.RequireMin("R14.3", "reads of knownValue.set", nReads, 1)
}

func rootParam(v ssa.Value) *ssa.Parameter {
	for i := 0; i < 10; i++ {
		v = core.Unspill(v)
		switch x := v.(type) {
		case *ssa.Parameter:
			return x
		case *ssa.FieldAddr:
			v = x.X
		case *ssa.UnOp:
			v = x.X
		default:
			return nil
		}
	}
	return nil
}

type initSite struct {
	fn    *ssa.Function
	test  *ssa.BasicBlock // block whose If tests set == nil
	base  string          // access path of the object
	store *ssa.Store
}

// behindInit: the instruction (in fn) is dominated by an initialising critical section on the
// same object, either in fn itself or (when the object is a parameter) at every call site of fn.
// initCallBefore: the instruction `at` of g comes after a call of a helper that is itself an initialising critical section
// on its parameter (it locks, tests the field for nil, assigns it), handed the object with access path base.
func initCallBefore(g *ssa.Function, at ssa.Instruction, base string, inits []initSite) bool {
	for _, call := range core.CallsIn(g) {
		h := eng.ResolveCallee(call.Common().Value)
		if h == nil || !instrBeforeI(call, at) || call == at {
			continue
		}
		for _, it := range inits {
			if it.fn != h {
				continue
			}
			for k, q := range h.Params {
				if core.AP(q) == it.base && k < len(call.Common().Args) && core.AP(call.Common().Args[k]) == base {
					return true
				}
			}
		}
	}
	return false
}

func behindInit(p *core.Prog, fn *ssa.Function, at ssa.Instruction, prm *ssa.Parameter, inits []initSite, fns []*ssa.Function, depth int) (bool, string) {
	base := ""
	if prm != nil {
		base = core.AP(prm)
	}
	for _, it := range inits {
		if it.fn == fn && it.test != at.Block() && it.test.Dominates(at.Block()) && (base == "" || it.base == base) {
			return true, "dominated by the nil-test/assignment critical section at " + p.Pos(it.store.Pos())
		}
	}
	if base != "" && initCallBefore(fn, at, base, inits) {
		return true, "behind a call of the helper that holds the nil-test/assignment critical section"
	}
	if prm == nil {
		return false, "the object read is not a parameter and no initialising critical section dominates the read"
	}
	if depth > 3 {
		return false, "call chain too deep"
	}
	idx := -1
	for i, q := range fn.Params {
		if q == prm {
			idx = i
		}
	}
	n := 0
	for _, g := range fns {
		for _, call := range core.CallsIn(g) {
			if eng.ResolveCallee(call.Common().Value) != fn {
				continue
			}
			n++
			args := call.Common().Args
			if idx >= len(args) {
				return false, "cannot match arguments at " + p.Pos(call.Pos())
			}
			arg := args[idx]
			ok := false
			for _, it := range inits {
				if it.fn == g && it.base == core.AP(arg) && it.test != call.Block() && it.test.Dominates(call.Block()) {
					ok = true
				}
			}
			if !ok && initCallBefore(g, call, core.AP(arg), inits) {
				ok = true
			}
			if !ok {
				if ap := rootParam(arg); ap != nil && ap == core.Unspill(arg) {
					if r, _ := behindInit(p, g, call, ap, inits, fns, depth+1); r {
						ok = true
					}
				}
			}
			if !ok {
				return false, "call site " + p.Pos(call.Pos()) + " in " + core.ShortFn(g) + " is not dominated by an initialising critical section on the same object"
			}
		}
	}
	if n == 0 {
		return false, "function has no call sites in the package and the read is not under the lock"
	}
	return true, fmt.Sprintf("all %d call sites of %s are dominated by the nil-test/assignment critical section on the object passed", n, core.ShortFn(fn))
}

// checkV1SharedWrites: R14.5. E1 over the v1 entry points with goroutines followed.
var lazySetField, guardedMapField string

func checkV1SharedWrites(c *Ctx, p *core.Prog) {
	type root struct {
		pkg, name string
		params    []eng.Prov
	}
	roots := []root{
		{scPkg, "(*Classifier).MultipleMatch", []eng.Prov{eng.Shared}},
		{scPkg, "(*Classifier).NearestMatch", []eng.Prov{eng.Shared}},
		{scPkg, "(*Classifier).AddValue", []eng.Prov{eng.Shared}},
		{core.RootMod, "(*License).MultipleMatch", []eng.Prov{eng.Shared}},
		{core.RootMod, "(*License).NearestMatch", []eng.Prov{eng.Shared}},
	}
	// the roles of the guarded map and of the lazily built field (also when this rule group runs inside another check)
	if clsT := p.Named(scPkg, "Classifier"); clsT != nil {
		if vf, ok := core.UniqueField(clsT, func(t types.Type) bool { _, isMap := t.Underlying().(*types.Map); return isMap }); ok {
			guardedMapField = vf
			for i := 0; i < core.StructOf(clsT).NumFields(); i++ {
				if f := core.StructOf(clsT).Field(i); f.Name() == vf {
					if sf, ok := core.UniqueField(f.Type().Underlying().(*types.Map).Elem(), func(t types.Type) bool { return core.IsNamedType(t, ssPkg, "SearchSet") }); ok {
						lazySetField = sf
					}
				}
			}
		}
	}
	if !c.R.Anchor(lazySetField != "" && guardedMapField != "", "stringclassifier.Classifier: guarded map and lazily built search set fields") {
		return
	}
	allowed := func(v *eng.EffViolation) bool {
		// guarded writes validated by R14.1..R14.3
		if v.Kind == "store" && strings.HasSuffix(v.Construct, "."+lazySetField) && strings.Contains(v.Construct, "store field stringclassifier.") {
			return true
		}
		if v.Kind == "mapupdate" && strings.Contains(v.Construct, "AddValue: mapupdate field stringclassifier.Classifier."+guardedMapField) {
			return true
		}
		return false
	}
	total := 0
	for _, r := range roots {
		fn := p.Func(r.pkg, r.name)
		short := strings.TrimPrefix(r.pkg, core.RootMod) + "." + r.name
		if !c.R.Anchor(fn != nil, short) {
			continue
		}
		e := runEffects(c, p, "R14.5", effectRoot{fn: fn, name: strings.TrimPrefix(short, "/"), params: provParams(fn, r.params...), allowed: allowed}, v1Scope, true)
		total += len(e.Explored())
	}
	c.R.RequireMin("R14.5", "functions explored from the v1 entry points", total, 25)
}

var _ = types.Typ

// checkPublishAfterInit: R14.6. Matchers read the fields of a known value without holding the lock,
// which is sound only because they are immutable after construction. Every store to a field of a
// locally allocated known value must therefore precede the instruction that publishes it (stores it
// into the shared map); the lazily built search set is the one audited exception (R14.3).
func checkPublishAfterInit(c *Ctx, p *core.Prog, fns []*ssa.Function, kvName, lazyField string) {
	n := 0
	for _, f := range fns {
		for _, b := range f.Blocks {
			for _, in := range b.Instrs {
				var al ssa.Value
				switch x := in.(type) {
				case *ssa.Alloc:
					if core.TypeName(x.Type()) == kvName && core.StructOf(x.Type()) != nil {
						al = x
					}
				case *ssa.Extract:
					// the first result of a constructor of the package that hands out a value it allocated itself
					if call, isCall := x.Tuple.(*ssa.Call); isCall && x.Index == 0 && core.TypeName(x.Type()) == kvName && freshConstructor(call.Call.StaticCallee(), kvName) {
						al = x
					}
				case *ssa.Call:
					if core.TypeName(x.Type()) == kvName && freshConstructor(x.Call.StaticCallee(), kvName) {
						al = x
					}
				}
				if al == nil || al.Referrers() == nil {
					continue
				}
				var publish []ssa.Instruction
				var stores []*ssa.Store
				for _, r := range *al.Referrers() {
					switch x := r.(type) {
					case *ssa.MapUpdate:
						if x.Value == al {
							publish = append(publish, x)
						}
					case *ssa.Store:
						if x.Val == al {
							if _, isLocal := x.Addr.(*ssa.Alloc); !isLocal {
								publish = append(publish, x)
							}
						}
					case *ssa.FieldAddr:
						for _, u := range *x.Referrers() {
							if st, ok := u.(*ssa.Store); ok && st.Addr == ssa.Value(x) && core.FieldName(x) != lazyField {
								stores = append(stores, st)
							}
						}
					}
				}
				if len(publish) == 0 {
					continue
				}
				n++
				bad := false
				for _, st := range stores {
					for _, pb := range publish {
						if !instrBeforeI(st, pb) {
							bad = true
							c.R.Fail("R14.6", core.ShortFn(f)+": a field of a known value is written after the value was published", p.Pos(st.Pos()), "the value is already reachable from the shared map when its field "+core.FieldName(st.Addr)+" is assigned: matchers read these fields without the lock (they rely on immutability after construction), so they can see a half-initialised value")
						}
					}
				}
				if !bad {
					c.R.OK("R14.6", core.ShortFn(f)+": the known value is complete before it is stored into the shared map", p.Pos(al.Pos()), fmt.Sprintf("%d field stores, all before the publication", len(stores)))
				}
			}
		}
	}
	c.R.RequireMin("R14.6", "known values constructed and published", n, 1)
}

// checkV1DiffDeadline: R14.7. "Concurrent calls return what the same calls return one after the other" also rules out a
// dependence on how long a call takes. go-diff gives up on a diff when a wall-clock deadline (DiffTimeout, one second
// unless it is changed) passes and returns a coarser result; under CPU contention every call takes longer, so results
// change with the number of concurrent callers. Every DiffMain call of the v1 classifier must therefore run with the
// deadline switched off (a DiffTimeout <= 0 stored into the differ it uses).
func checkV1DiffDeadline(c *Ctx, p *core.Prog, fns []*ssa.Function) {
	n := 0
	for _, fn := range fns {
		for _, call := range core.CallsIn(fn) {
			name := core.StaticCalleeName(call.Common())
			if !strings.HasPrefix(name, "(*"+core.DiffPkg+".DiffMatchPatch).DiffMain") {
				continue
			}
			n++
			recv := call.Common().Args[0]
			off := false
			// the differ: a package-level variable (or a local) whose DiffTimeout field is stored a constant <= 0
			var base ssa.Value = recv
			if ld, ok := recv.(*ssa.UnOp); ok {
				base = ld.X
			}
			for _, f2 := range append(pkgFuncs(p, scPkg), initOf(p, scPkg)...) {
				for _, b := range f2.Blocks {
					for _, in := range b.Instrs {
						st, ok := in.(*ssa.Store)
						if !ok {
							continue
						}
						fa, ok := st.Addr.(*ssa.FieldAddr)
						if !ok || core.FieldName(fa) != "DiffTimeout" {
							continue
						}
						b2 := fa.X
						if ld, ok := b2.(*ssa.UnOp); ok {
							b2 = ld.X
						}
						if b2 != base && fa.X != recv {
							continue
						}
						if k, isK := core.ConstInt(st.Val); isK && k <= 0 {
							off = true
						}
					}
				}
			}
			c.R.Check(off, "R14.7", "v1: the text diff (DiffMain) runs without go-diff's wall-clock deadline", p.Pos(call.Pos()), "DiffTimeout <= 0 is stored into the differ",
				"the differ is used with go-diff's default DiffTimeout (one second of wall-clock time): when a diff takes longer - which it does when many calls run at once - go-diff gives up on it and returns a coarser result, so the confidence drops or the match disappears depending on the load")
		}
	}
	c.R.RequireMin("R14.7", "DiffMain call sites in stringclassifier", n, 1)
}

// initOf returns the package initialiser of pkg (as a one-element list, or nothing).
func initOf(p *core.Prog, pkg string) []*ssa.Function {
	if sp := p.SSAPkgs[pkg]; sp != nil {
		if f := sp.Func("init"); f != nil {
			return []*ssa.Function{f}
		}
	}
	return nil
}

func sortedKeys(m map[string]bool) []string {
	var ks []string
	for k := range m {
		ks = append(ks, k)
	}
	sort.Strings(ks)
	return ks
}

// checkCompletionOrder: R14.12. What spawned goroutines hand back through a channel arrives in the order in which they finish.
// A value received from such a channel may go into something that has an order of its own - the priority queue, a slice
// that is sorted afterwards - but not into a result slot chosen by the order of arrival (`out[i] = <-done`, an append to a
// list that is returned as it is): the answer then differs from call to call. Signals (errors, booleans, empty structs)
// carry no result and are exempt. Examined: the v1 string classifier and its search set package.
func checkCompletionOrder(c *Ctx, p *core.Prog) {
	var fns []*ssa.Function
	for _, pk := range []string{scPkg, ssPkg} {
		fns = append(fns, pkgFuncs(p, pk)...)
	}
	region := eng.ConcurrentRegion(fns)
	// channel types that goroutines send results on
	sent := map[string]bool{}
	for f := range region {
		for _, b := range f.Blocks {
			for _, in := range b.Instrs {
				if sd, ok := in.(*ssa.Send); ok {
					sent[types.TypeString(sd.Chan.Type().Underlying().(*types.Chan).Elem(), nil)] = true
				}
			}
		}
	}
	isSignal := func(t types.Type) bool {
		if t.String() == "error" || isBool(t) {
			return true
		}
		if st, ok := t.Underlying().(*types.Struct); ok && st.NumFields() == 0 {
			return true
		}
		return false
	}
	nRecv := 0
	for _, f := range fns {
		var sorted []ssa.Value // slices handed to a sort in this function
		for _, call := range core.CallsIn(f) {
			n := core.StaticCalleeName(call.Common())
			if n == "sort.Sort" || n == "sort.Stable" || n == "sort.Slice" || n == "sort.SliceStable" {
				a := call.Common().Args[0]
				if mi, ok := a.(*ssa.MakeInterface); ok {
					a = mi.X
				}
				sorted = append(sorted, a)
			}
		}
		for _, b := range f.Blocks {
			for _, in := range b.Instrs {
				var got ssa.Value
				switch x := in.(type) {
				case *ssa.UnOp:
					if x.Op == token.ARROW {
						got = x
					}
				case *ssa.Next:
					if rg, ok := x.Iter.(*ssa.Range); ok {
						if _, isCh := rg.X.Type().Underlying().(*types.Chan); isCh {
							got = x
						}
					}
				}
				if got == nil {
					continue
				}
				var et types.Type
				switch x := got.(type) {
				case *ssa.UnOp:
					et = x.X.Type().Underlying().(*types.Chan).Elem()
					if x.CommaOk {
						et = x.Type().(*types.Tuple).At(0).Type()
					}
				case *ssa.Next:
					et = x.Iter.(*ssa.Range).X.Type().Underlying().(*types.Chan).Elem()
				}
				if isSignal(et) || !sent[types.TypeString(et, nil)] {
					continue
				}
				nRecv++
				// where does the received value go?
				bad := ""
				seen := map[ssa.Value]bool{}
				var walk func(v ssa.Value)
				walk = func(v ssa.Value) {
					if seen[v] || v.Referrers() == nil {
						return
					}
					seen[v] = true
					for _, r := range *v.Referrers() {
						switch u := r.(type) {
						case *ssa.Extract:
							walk(u)
						case *ssa.Phi:
							walk(u)
						case *ssa.ChangeType:
							walk(u)
						case *ssa.MakeInterface:
							walk(u)
						case *ssa.Store:
							if u.Val == v {
								if _, isIdx := u.Addr.(*ssa.IndexAddr); isIdx {
									bad = "it is stored into a slot of a slice (" + p.Pos(u.Pos()) + ")"
								}
							}
						case *ssa.Call:
							if bi, ok := u.Call.Value.(*ssa.Builtin); ok && bi.Name() == "append" {
								fam := sliceFamily(u)
								okSorted := false
								for _, sv := range sorted {
									if fam[sv] {
										okSorted = true
									}
								}
								if !okSorted {
									bad = "it is appended to a list that is not sorted afterwards (" + p.Pos(u.Pos()) + ")"
								}
							}
						}
					}
				}
				walk(got)
				c.R.Check(bad == "", "R14.12", core.ShortFn(f)+": what goroutines send back is not kept in the order of arrival", p.Pos(in.Pos()),
					"the received value goes into the queue or a list that is sorted", "a value received from a channel that goroutines send their results on keeps its place in the order of arrival: "+bad+"; goroutines finish in a different order from call to call, and so does the result")
			}
		}
	}
	c.R.Count("R14.12:receives of goroutine results", nRecv)
	c.R.OK("R14.12", "v1: receives of goroutine results were looked for", scPkg, fmt.Sprintf("%d found", nRecv))
}

// callersHold: fn is an unexported function of the package whose every static call site (there is at least one, and the
// function is not used as a value) holds the lock in at least the given mode - directly or, for a helper of a helper, at its
// own call sites.
func callersHold(flows map[*ssa.Function]*eng.LockFlow, fn *ssa.Function, key string, need int, depth int) bool {
	if fn == nil || depth > 2 || fn.Object() == nil || fn.Object().Exported() {
		return false
	}
	sites, escapes := eng.CallSitesOf(fn)
	if escapes || len(sites) == 0 {
		return false
	}
	for _, cs := range sites {
		if _, isGo := cs.(*ssa.Go); isGo {
			return false
		}
		lf := flows[cs.Parent()]
		if lf == nil {
			return false
		}
		if lf.Held(cs, key).Mode >= need {
			continue
		}
		if !callersHold(flows, cs.Parent(), key, need, depth+1) {
			return false
		}
	}
	return true
}

// freshConstructor: g is a function of the v1 package whose every return hands out (as its first result) a value of the named
// type that it allocated itself, or nil.
func freshConstructor(g *ssa.Function, typeName string) bool {
	if g == nil || core.FuncPkgPath(g) != scPkg || len(g.Blocks) == 0 {
		return false
	}
	n := 0
	for _, b := range g.Blocks {
		ret, ok := b.Instrs[len(b.Instrs)-1].(*ssa.Return)
		if !ok || b == g.Recover || len(ret.Results) == 0 {
			continue
		}
		switch x := ret.Results[0].(type) {
		case *ssa.Alloc:
			if core.TypeName(x.Type()) != typeName {
				return false
			}
			n++
		case *ssa.Const:
			if !x.IsNil() {
				return false
			}
		default:
			return false
		}
	}
	return n > 0
}

// onceOnly: f is a function literal that is only ever handed to (*sync.Once).Do.
func onceOnly(f *ssa.Function) bool {
	if f.Parent() == nil {
		return false
	}
	used := false
	for _, b := range f.Parent().Blocks {
		for _, in := range b.Instrs {
			call, ok := in.(ssa.CallInstruction)
			if !ok || core.StaticCalleeName(call.Common()) != "(*sync.Once).Do" {
				continue
			}
			for _, a := range call.Common().Args {
				if mc, isMC := a.(*ssa.MakeClosure); isMC && mc.Fn == ssa.Value(f) {
					used = true
				}
				if fv, isF := a.(*ssa.Function); isF && fv == f {
					used = true
				}
			}
		}
	}
	return used
}
