package props

// Checks for the properties whose behavioural core is numeric (C01, C02, C05, C06, C11, C17):
// only the clauses that are visible in the shape of the code are decided.

import (
	"fmt"
	"go/constant"
	"go/token"
	"go/types"
	"sort"
	"strings"
	"unicode"

	"golang.org/x/tools/go/ssa"

	"lcv/core"
	"lcv/eng"
)

func init() {
	register(&Check{ID: "C01", Modules: []string{"v2"}, Run: runC01,
		Explanation: "Thin structural clauses behind 'a verbatim copy is found whole at 1.0': (R01.1) corpus and target are tokenised by the same function with the same normalisation constant and the classifier's own dictionary; (R01.2) threshold and q are written only by the constructor, q = computeQ(threshold), and both sides build their q-grams with that q; " +
			"(R01.4) in the containment branch of the overlap filter a candidate is given up only under a strict comparison of the two weights (equal weights keep both); (R01.3) the acceptance guard is inclusive (conf >= threshold), so a copy scoring exactly the threshold (every exact copy at threshold 1.0) is kept; (R08.4/R08.5) window carry-over and decoder window of the tokenizer (a copy must tokenise like its source at every alignment); (R03.3) span/line agreement. " +
			"The prefilter, window, fusion and diff arithmetic that actually find and trim the copy are numeric behaviour and are NOT decided."})
	register(&Check{ID: "C02", Modules: []string{"v2"}, Run: runC02,
		Explanation: "Thin structural clauses behind 'confidence never overstates': (R02.1) the corpus side of the diff is the whole document [0, size) and the same size is the denominator of the confidence; the distance is scoreDiffs of exactly the retained diff range; (R02.2) the two trimmed offsets are textLength of diffs[:start] and diffs[end:] of one diffRange call and are applied to the start and end of the span in that order; " +
			"(R02.3) the Confidence of every license match is the first result of score; (R02.4) the confidence is 1 - float(distance)/float(length), no integer arithmetic or rounding on the way; (R03.3) span/line agreement; (R03.9) only a consumed '\\n' advances the line counter. That the block cost bounds the Levenshtein distance is numeric and NOT decided."})
	register(&Check{ID: "C05", Modules: []string{"v2"}, Run: runC05,
		Explanation: "Thin structural clauses behind 'presentation changes do not matter': (R05.1) with normalisation on, every rune that enters a word buffer went through unicode.ToLower; (R05.2) the punctuation table maps every typographic dash to '-' and has lower-case-stable values; (R08.5) the decoder window (so that moving text by a few bytes cannot change a rune); (R08.6) the scan position moves only by the size of the decoded rune; (R03.9) line accounting: line + held line breaks advance by exactly one per decoded '\\n' and not otherwise; (R05.4) a rune joins an open word only on paths where unicode.IsSpace(r) returned false (all iteration paths enumerated); (R05.3) the token clean-up returns text it built rune by rune, never its raw argument (unless shown to be letters only). " +
			"Whitespace and decoration handling of the rune state machine are NOT decided."})
	register(&Check{ID: "C06", Modules: []string{"v2"}, Run: runC06,
		Explanation: "Structural clauses behind 'notices, markers, hyphenation and spelling variants are ignored': (R06.1) the interchangeable-word table is well formed (letters-only lower-case keys map to letters-only lower-case values that are not keys); (R06.3) the hyphenation flags survive buffer refills; (R06.4) the https->http rewrite applies to every occurrence in a token, is repeated to a fixed point and is applied to the cleaned word as well (a cleaned word is a fixed point of the tokenizer); " +
			"(R06.5) the text of a token is cleanupToken(position in line, word) computed at its own position; (R06.6) the notice patterns are consulted on every path to the token loop; (R06.7) the spelling table is consulted with the cleaned word; (R06.8) a word found in the list-marker table is a marker whatever its closing character; (R06.9) after the line buffer is emptied in the middle of a line the following words carry a non-zero position; (R03.7) Copyright literals; (R06.2) Copyright pseudo-matches are kept apart from the overlap filter - fails today (known finding D12). Regex coverage of notice templates is NOT decided."})
	register(&Check{ID: "C11", Modules: []string{"v2"}, Run: runC11,
		Explanation: "Thin structural clauses behind 'Normalize lines up with Match': (R11.1) non-interference: the line counter and every Line stored do not depend on the normalize/updateDict flags; (R11.2) Normalize and match use the same tokenizeStream and Normalize returns memory allocated by the call; (R11.3) the ignorable-line patterns are case-insensitive (Normalize sees un-lowered text); " +
			"(R11.4) number clean-up cannot leave a trailing dot (idempotence under re-tokenisation); (R11.5) every word Normalize writes out is tested not to be the end-of-line token (sibling consistency: newlines come only from line numbers); (R11.10) whether a line is a notice is also decided on the cleaned-up form of the line, the form Normalize writes; (R11.9) Normalize writes a line break for every line a token lies behind the previous one; (R11.6) Normalize returns the text it wrote without trimming its beginning (leading line breaks stand for input lines); (R11.8) the word interned by the word flush went through HTML unescaping on every path, whatever the flags; (R06.7) the spelling table is consulted with the cleaned word; (R11.7) lower-case word tables consulted by the token clean-up (list markers, spelling variants) are consulted with a case-folded key or only when normalising, because Normalize keeps the capital of a word's first letter; (R06.1) word-table idempotence. Header re-cleaning of numbered markers is NOT decided."})
	register(&Check{ID: "C17", Modules: []string{""}, Run: runC17,
		Explanation: "Thin structural clauses behind 'v1 offsets delimit real text': (R17.1) every contribution to a token's Text is the input substring s[i:i+size] at the decoded rune's position, or string(r) only under a guard that excludes the invalid-rune replacement, and Offset is that i - or the Text is one substring s[a:b] with Offset a and b a scan position or len(s); (R17.2) candidate ranges are sorted by target position before they are untangled; " +
			"(R17.3) the string that is tokenised is the string offsets are later applied to; (R17.5) a path through one iteration of Tokenize's scan loop on which the rune contributes to no token has taken the true branch of unicode.IsSpace(r); (R17.4) a candidate's byte range runs from the Offset of token TargetStart to Offset+len(Text) (bytes) of token TargetEnd-1. Range merging/coalescing bounds are NOT decided."})
}

// ---------------------------------------------------------------------------------------------
// shared helpers

// globalMapLiteral reads a package-level map initialised by a composite literal (constant keys/values).
func globalMapLiteral(p *core.Prog, pkg, name string) (map[string]string, bool) {
	g := p.Global(pkg, name)
	sp := p.SSAPkgs[pkg]
	if g == nil && sp != nil {
		// the table may be written as a function (a switch over the key)
		if tab, _, ok := funcTable(p, pkg, name); ok {
			return tab, true
		}
	}
	if g == nil || sp == nil {
		return nil, false
	}
	init := sp.Func("init")
	if init == nil {
		return nil, false
	}
	for _, b := range init.Blocks {
		for _, in := range b.Instrs {
			st, ok := in.(*ssa.Store)
			if !ok || st.Addr != g {
				continue
			}
			mm, ok := st.Val.(*ssa.MakeMap)
			if !ok {
				return nil, false
			}
			out := map[string]string{}
			for _, r := range *mm.Referrers() {
				mu, ok := r.(*ssa.MapUpdate)
				if !ok {
					continue
				}
				k, ok1 := mu.Key.(*ssa.Const)
				v, ok2 := mu.Value.(*ssa.Const)
				if !ok1 || !ok2 || k.Value == nil || v.Value == nil {
					return nil, false
				}
				out[constText(k)] = constText(v)
			}
			return out, true
		}
	}
	return nil, false
}

// funcTable reads a table that is written as a function of its key - `func name(key) (value, bool)` or `func name(key) bool`,
// usually a switch: the keys are the constants the parameter is compared with, the rows are what the function returns for
// them (evaluated by constant propagation). The function is looked up under the table's name, with or without a plural s.
func funcTable(p *core.Prog, pkg, name string) (map[string]string, *ssa.Function, bool) {
	var f *ssa.Function
	for _, n := range []string{name, strings.TrimSuffix(name, "s"), name + "s"} {
		if g := p.Func(pkg, n); g != nil && len(g.Params) == 1 && len(g.Blocks) > 0 {
			f = g
			break
		}
	}
	if f == nil {
		return nil, nil, false
	}
	nres := f.Signature.Results().Len()
	if nres < 1 || nres > 2 || !isBool(f.Signature.Results().At(nres-1).Type()) {
		return nil, nil, false
	}
	keys := map[string]constant.Value{}
	isParam := func(v ssa.Value) bool {
		for d := 0; d < 3; d++ {
			if v == ssa.Value(f.Params[0]) {
				return true
			}
			switch x := v.(type) {
			case *ssa.Convert:
				v = x.X
			case *ssa.ChangeType:
				v = x.X
			default:
				return false
			}
		}
		return false
	}
	for _, b := range f.Blocks {
		for _, in := range b.Instrs {
			bo, ok := in.(*ssa.BinOp)
			if !ok || (bo.Op != token.EQL && bo.Op != token.NEQ) {
				continue
			}
			for _, pair := range [][2]ssa.Value{{bo.X, bo.Y}, {bo.Y, bo.X}} {
				if cst, isC := pair[1].(*ssa.Const); isC && cst.Value != nil && isParam(pair[0]) {
					keys[cst.Value.ExactString()] = cst.Value
				}
			}
		}
	}
	if len(keys) == 0 {
		return nil, nil, false
	}
	ce := eng.NewConstEvaluator()
	out := map[string]string{}
	for _, kv := range keys {
		res, err := ce.Eval(f, []constant.Value{kv})
		if err != nil || len(res) != nres {
			return nil, nil, false
		}
		if res[nres-1].Kind() != constant.Bool {
			return nil, nil, false
		}
		if !constant.BoolVal(res[nres-1]) {
			continue
		}
		kc := &ssa.Const{Value: kv}
		val := "true"
		if nres == 2 {
			val = constText(&ssa.Const{Value: res[0]})
		}
		out[constText(kc)] = val
	}
	return out, f, len(out) > 0
}

func constText(c *ssa.Const) string {
	switch c.Value.Kind() {
	case constant.String:
		return constant.StringVal(c.Value)
	case constant.Int:
		if n, ok := constant.Int64Val(c.Value); ok {
			return string(rune(n))
		}
	}
	return c.Value.ExactString()
}

func v2Prog(c *Ctx) *core.Prog { return c.Prog("v2") }

// tokenizerWindowRules runs R08.4/R08.5 (shared by C01, C05).
func tokenizerWindowRules(c *Ctx, p *core.Prog) {
	ts := p.Func(v2pkg, "tokenizeStream")
	if !c.R.Anchor(ts != nil, "v2.tokenizeStream") {
		return
	}
	read := windowRead(ts)
	if read == nil {
		c.R.Fail("R08.3", "tokenizeStream: reader call", p.Pos(ts.Pos()), "no call that fills the read window from the reader")
		return
	}
	checkCarryOver(c, p, ts, read)
	checkDecoderWindow(c, p, ts, read)
	checkAllBytesAtEOF(c, p, ts, read)
	checkReadLoopExits(c, p, ts, read)
}

// checkReadLoopExits: R08.11. The loop that reads the input window by window ends when the reader says so and for no other
// reason: every way out of the loop around the window read stands behind a test of the error that read returned. A counter of
// windows without a word, a size limit or a timer cuts the input short without an error, and what stands behind that point -
// a license behind 64 KiB of blank or decoration-only lines - is never seen.
func checkReadLoopExits(c *Ctx, p *core.Prog, ts *ssa.Function, read *ssa.Call) {
	var errVal ssa.Value
	for _, r := range *read.Referrers() {
		if ex, ok := r.(*ssa.Extract); ok && ex.Type().String() == "error" {
			errVal = ex
		}
	}
	if errVal == nil {
		return
	}
	// the outermost loop that contains the read
	var hdr *ssa.BasicBlock
	for h := read.Block(); h != nil; h = h.Idom() {
		for _, pr := range h.Preds {
			if h.Dominates(pr) && naturalLoop(h)[read.Block()] {
				hdr = h
			}
		}
	}
	if hdr == nil {
		return
	}
	loop := naturalLoop(hdr)
	// direct control dependence: the branch that decides whether the block runs (not the branches further up, behind which
	// everything in the loop stands)
	direct := core.NewPostDom(ts).ControlDeps()
	cd := map[*ssa.BasicBlock]map[*ssa.BasicBlock]bool{}
	for b, ds := range direct {
		cd[b] = map[*ssa.BasicBlock]bool{}
		for _, d := range ds {
			cd[b][d] = true
		}
	}
	mentionsErr := func(v ssa.Value) bool {
		seen := map[ssa.Value]bool{}
		var walk func(v ssa.Value, d int) bool
		walk = func(v ssa.Value, d int) bool {
			if v == nil || seen[v] || d > 4 {
				return false
			}
			seen[v] = true
			if core.Unspill(v) == errVal {
				return true
			}
			switch x := v.(type) {
			case *ssa.BinOp:
				return walk(x.X, d+1) || walk(x.Y, d+1)
			case *ssa.UnOp:
				return walk(x.X, d+1)
			case *ssa.Phi:
				for _, e := range x.Edges {
					if walk(e, d+1) {
						return true
					}
				}
			case *ssa.Call:
				for _, a := range x.Call.Args {
					if walk(a, d+1) {
						return true
					}
				}
			}
			return false
		}
		return walk(v, 0)
	}
	nExit, bad := 0, ""
	for b := range loop {
		for _, sc := range b.Succs {
			if loop[sc] {
				continue
			}
			nExit++
			okExit := false
			if ifi, isIf := b.Instrs[len(b.Instrs)-1].(*ssa.If); isIf && mentionsErr(ifi.Cond) {
				okExit = true
			}
			for d := range cd[b] {
				if !loop[d] {
					continue
				}
				if ifi, isIf := d.Instrs[len(d.Instrs)-1].(*ssa.If); isIf && mentionsErr(ifi.Cond) {
					okExit = true
				}
			}
			if !okExit && bad == "" {
				bad = p.Pos(b.Instrs[len(b.Instrs)-1].Pos())
				if bad == "-" && len(b.Instrs) > 1 {
					bad = p.Pos(b.Instrs[0].Pos())
				}
			}
		}
		if r, isRet := b.Instrs[len(b.Instrs)-1].(*ssa.Return); isRet {
			nExit++
			okExit := false
			for d := range cd[b] {
				if ifi, isIf := d.Instrs[len(d.Instrs)-1].(*ssa.If); isIf && loop[d] && mentionsErr(ifi.Cond) {
					okExit = true
				}
			}
			if !okExit && bad == "" {
				bad = p.Pos(r.Pos())
			}
		}
	}
	c.R.Check(bad == "", "R08.11", "tokenizeStream: the read loop is left only on what the reader reported", p.Pos(read.Pos()), fmt.Sprintf("%d ways out of the loop around the window read, each behind a test of the read's error", nExit),
		"the loop over the read windows can be left at "+bad+" without a test of the reader's error: the input is cut short silently - what stands behind that point (a second license behind a long stretch without words) is never tokenized, and no error is returned")
}

// licenseLiterals returns the non-Copyright Match literals of v2.
func licenseLiterals(p *core.Prog) []structLit {
	var out []structLit
	for _, lit := range structLits(v2Funcs(p), "/v2.Match") {
		if s, ok := core.ConstString(lit.fields["MatchType"]); ok && s == "Copyright" {
			continue
		}
		out = append(out, expandLiteral(p, lit)...)
	}
	return out
}

func spanLineRules(c *Ctx, p *core.Prog) {
	for _, lit := range licenseLiterals(p) {
		key := core.ShortFn(lit.fn) + ": license Match literal"
		for _, pair := range [][2]string{{"StartLine", "StartTokenIndex"}, {"EndLine", "EndTokenIndex"}} {
			ok, why := lineOfToken(lit.fields[pair[0]], lit.fields[pair[1]], lit.subst)
			c.R.Check(ok, "R03.3", key+": "+pair[0]+" is the line of the token at "+pair[1], p.Pos(lit.alloc.Pos()), why, why)
		}
	}
}

// ---------------------------------------------------------------------------------------------
// C01

func runC01(c *Ctx) {
	p := v2Prog(c)
	if p == nil {
		return
	}
	// shared with C04/C09: Match computes its result from the input and the corpus alone - it writes nothing that a
	// later (or concurrent) Match, or a document added afterwards, can observe. A list cached in the classifier or a
	// package-level scratch object makes the copy of a later-added document, or of a call that overlaps another, go missing.
	matchReadOnly(c, p, "R04.1")
	// shared with C06: what stands in front of a copy must not change how the copy's lines are tokenized - the position
	// offset left by a hyphenated word in the context ends with its line (R06.9/R06.10)
	checkMidLineReset(c, p)
	checkTruncationOrder(c, p)
	checkNoCandidateCap(c, p)
	checkFirstPassAdmission(c, p)
	checkEveryRangeScored(c, p)
	checkIndexCompleteAndCountersWide(c, p)
	// shared with C06: a carriage return ends a word (R06.23) - otherwise a lone CR glues the last word of the context to the
	// first word of a copy
	checkCarriageReturnEndsWords(c, p)
	// shared with C06: a copy is tokenized like its source only if the text of a token is computed for that token, at its own
	// position in its line - not taken from a cache filled by an earlier occurrence of the word elsewhere (R06.5)
	checkTokenTextProvenance(c, p)
	// shared with C12: a copy of a document loaded from a directory is reported under that document's own labels only if
	// the labels do not depend on how the directory was spelled (R12.2)
	if c.R.Filter == nil {
		borrowRules(c, []string{"R12.2", "R12.8", "R12.14"}, runC12)
		// shared with C08: a copy that reaches into the last Read of a reader is found whole only if the bytes delivered
		// together with the end of the input are counted (R08.3); shared with C03: a copy of a document is reported only
		// if the document's key has the three components the reporting code takes apart (R03.6)
		borrowRules(c, []string{"R08.3"}, runC08)
		borrowRules(c, []string{"R03.6"}, runC03)
	}
	// shared with C10: a planted copy is reported only if Match returns at all - a table indexed by line numbers is a map, or the
	// index is tested against its length (R10.12)
	checkLineKeyedTables(c, p, v2LibFuncs(p))
	// shared with C11: the tokenizer's local dictionary is never started afresh in the middle of a text (R11.15): the word ids
	// of the line being assembled would name other words, and a copy behind a large vocabulary is garbled
	checkNumberWordsAndLocalDictionary(c, p)
	ts := p.Func(v2pkg, "tokenizeStream")
	if !c.R.Anchor(ts != nil, "v2.tokenizeStream") {
		return
	}
	// R01.1
	n := 0
	for _, fn := range v2Funcs(p) {
		for _, call := range core.CallsIn(fn) {
			if call.Common().StaticCallee() != ts {
				continue
			}
			n++
			args := call.Common().Args
			key := core.ShortFn(fn) + ": tokenizeStream call"
			norm, isConst := args[1].(*ssa.Const)
			if fn.Name() == "Normalize" {
				// Normalize is the documented exception: it keeps case and uses its own dictionary
				c.R.Check(isConst && norm.Value.String() == "false", "R01.1", key+" (Normalize) keeps the text un-normalised", p.Pos(call.Pos()), "normalize=false", "Normalize must tokenise with normalize=false")
				continue
			}
			okNorm := isConst && norm.Value.String() == "true"
			okDict := isClsField(args[2], func(r *v2Roles) string { return r.dict })
			c.R.Check(okNorm && okDict, "R01.1", key+" uses normalize=true and the classifier's dictionary", p.Pos(call.Pos()),
				"tokenizeStream(_, true, c.dict, _)", "corpus and target must be tokenised identically (normalize=true, the classifier's dictionary): otherwise a verbatim copy does not produce the tokens of its source")
		}
	}
	c.R.RequireMin("R01.1", "tokenizeStream call sites", n, 2)

	// R01.2
	checkThresholdAndQ(c, p)

	checkRunDetectorQ(c, p)

	// R01.3 inclusive acceptance
	for _, lit := range licenseLiterals(p) {
		conf := lit.fields["Confidence"]
		incl := false
		for _, f := range lit.facts() {
			if cmp, ok := f.AsCmp(); ok {
				if cmp.Op == token.GEQ && cmp.X == conf && isThresholdLoad(cmp.Y) {
					incl = true
				}
				if cmp.Op == token.LEQ && cmp.Y == conf && isThresholdLoad(cmp.X) {
					incl = true
				}
			}
		}
		c.R.Check(incl, "R01.3", core.ShortFn(lit.fn)+": the acceptance test is conf >= threshold (inclusive)", p.Pos(lit.alloc.Pos()),
			"a candidate scoring exactly the threshold is kept", "the acceptance test is not `conf >= threshold`: at threshold 1.0 every exact copy (confidence exactly 1.0) is dropped")
	}
	tokenizerWindowRules(c, p)
	spanLineRules(c, p)
	checkContainmentTie(c, p)
	checkJoinLoopsComplete(c, p)
	checkRunLiterals(c, p)
	// shared with C03: StartLine/EndLine of a copy are the lines its words stand on - the line accounting of the tokenizer
	// (R03.9/R03.11); shared with C04: a document that is added replaces what was stored under its key (R04.8)
	checkLineCounter(c, p, "R03.9")
	checkUnconditionalAdd(c, p)
}

// checkThresholdAndQ: R01.2. The threshold a caller configures is the one stored and compared with, q is derived from it,
// neither changes after construction, and corpus and target search sets are built with that q.
func checkThresholdAndQ(c *Ctx, p *core.Prog) {
	nc := p.Func(v2pkg, "NewClassifier")
	if c.R.Anchor(nc != nil, "v2.NewClassifier") {
		rl := rolesOf(p)
		for _, fld := range []string{rl.threshold, rl.q} {
			writers := map[string]bool{}
			for _, fn := range v2Funcs(p) {
				for _, b := range fn.Blocks {
					for _, in := range b.Instrs {
						if st, ok := in.(*ssa.Store); ok {
							if fa, ok := st.Addr.(*ssa.FieldAddr); ok && core.FieldName(fa) == fld && strings.HasSuffix(core.TypeName(fa.X.Type()), "/v2.Classifier") {
								writers[fn.Name()] = true
							}
						}
					}
				}
			}
			c.R.Check(len(writers) == 1 && writers["NewClassifier"], "R01.2", "Classifier."+fld+" is written only by NewClassifier", p.Pos(nc.Pos()), "single writer", fmt.Sprintf("written by %v: the value the corpus was indexed with can change afterwards", keysOf(writers)))
		}
		for _, lit := range structLits([]*ssa.Function{nc}, "/v2.Classifier") {
			q, isCall := lit.fields[rl.q].(*ssa.Call)
			ok := isCall && p.IsFn(q.Call.StaticCallee(), v2pkg, "computeQ") && q.Call.Args[0] == nc.Params[0] && lit.fields[rl.threshold] == nc.Params[0]
			c.R.Check(ok, "R01.2", "NewClassifier stores threshold and q = computeQ(threshold) of the same argument", p.Pos(lit.alloc.Pos()), "threshold: t, q: computeQ(t)", "q is not derived from the stored threshold")
		}
	}
	ng := 0
	for _, fn := range v2Funcs(p) {
		for _, call := range core.CallsIn(fn) {
			if cal := call.Common().StaticCallee(); p.IsFn(cal, v2pkg, "(*indexedDocument).generateSearchSet") {
				ng++
				ok := isClsField(call.Common().Args[1], func(r *v2Roles) string { return r.q })
				c.R.Check(ok, "R01.2", core.ShortFn(fn)+": search set built with the classifier's q", p.Pos(call.Pos()), "generateSearchSet(c.q)", "corpus and target q-grams are built with different q: their hashes can never be joined")
			}
		}
	}
	c.R.RequireMin("R01.2", "generateSearchSet call sites", ng, 1)

}

// checkJoinLoopsComplete: R01.5. Two loops of the candidate pipeline must look at every element, because any element can be
// the one that belongs to a planted copy: the loop over the source occurrences of a q-gram in targetMatchedRanges (a run
// at another offset is continued by a later occurrence) and the loop over the candidate ranges of one document in match
// (a rejected range says nothing about the next one: ranges are ordered by an over-estimate of claimed tokens).
func checkJoinLoopsComplete(c *Ctx, p *core.Prog) {
	n := 0
	if tmr := p.Func(v2pkg, "targetMatchedRanges"); c.R.Anchor(tmr != nil, "v2.targetMatchedRanges") {
		for _, rl := range rangeLoopsOf(tmr) {
			// the ranged value is the result of a map lookup (the occurrences stored under one checksum)
			v := core.Unspill(rl.over)
			if ex, ok := v.(*ssa.Extract); ok {
				v = ex.Tuple
			}
			if _, ok := v.(*ssa.Lookup); !ok {
				continue
			}
			n++
			early, pos := leavesEarly(rl.header)
			c.R.Check(!early, "R01.5", "targetMatchedRanges: the loop over the source occurrences of a q-gram looks at every occurrence", p.Pos(rl.header.Instrs[0].Pos()),
				"the loop is left only when the occurrences are exhausted", "the loop can be left early at "+p.Pos(pos)+": the occurrences behind the one that triggers the exit are never joined, so a run at another offset (a repeated passage) is cut and the copy is reported short or not at all")
		}
	}
	if m := p.Func(v2pkg, "(*Classifier).match"); c.R.Anchor(m != nil, "v2.(*Classifier).match") {
		for _, f := range pkgClosure(m, v2pkg) {
			for _, rl := range rangeLoopsOf(f) {
				call, ok := core.Unspill(rl.over).(*ssa.Call)
				if !ok || !p.IsFn(call.Call.StaticCallee(), v2pkg, "(*Classifier).findPotentialMatches") {
					continue
				}
				n++
				early, pos := leavesEarly(rl.header)
				c.R.Check(!early, "R01.5", "match: the loop over the candidate ranges of a document scores every range", p.Pos(rl.header.Instrs[0].Pos()),
					"the loop is left only when the ranges are exhausted", "the loop can be left early at "+p.Pos(pos)+": the ranges behind the one that triggers the exit are never scored, so a copy whose range comes after a rejected one goes unreported")
			}
		}
	}
	c.R.RequireMin("R01.5", "join / scoring loops", n, 2)
}

// checkRunLiterals: R01.7. A run of dense windows starts with one window: every run that the run detector creates spans
// from a window start to that start plus q (a run created with no end is empty if no further window extends it, and the
// range it stands for is never proposed).
func checkRunLiterals(c *Ctx, p *core.Prog) {
	dr := p.Func(v2pkg, "(*Classifier).detectRuns")
	if !c.R.Anchor(dr != nil, "v2.(*Classifier).detectRuns") {
		return
	}
	n := 0
	for _, f := range pkgClosure(dr, v2pkg) {
		for _, lit := range structLits([]*ssa.Function{f}, "/v2.matchRange") {
			st, en := lit.fields["SrcStart"], lit.fields["SrcEnd"]
			if st == nil && en == nil {
				continue
			}
			n++
			ok := st != nil && en != nil
			why := "SrcStart or SrcEnd is left at zero"
			if ok {
				d := core.LinOf(en, nil).Add(core.LinOf(st, nil), -1)
				nz := 0
				var sym string
				for k, cf := range d.Coef {
					if cf != 0 {
						nz++
						sym = k
					}
				}
				ok = nz == 1 && d.Const == 0 && d.Coef[sym] == 1
				why = "SrcEnd - SrcStart is " + d.String() + ", not the window length"
			}
			c.R.Check(ok, "R01.7", core.ShortFn(f)+": a new run spans one window (SrcEnd = SrcStart + q)", p.Pos(lit.alloc.Pos()), "both bounds are set, one window apart", why+": a run that no later window extends stays empty and the copy that lies there is never proposed for scoring")
		}
	}
	c.R.RequireMin("R01.7", "run literals of the run detector", n, 1)
}

// checkContainmentTie: R01.4. Two corpus documents with the same words (one text registered under two names, a user's
// copy of an embedded license) produce candidates of equal weight that contain each other; both copies must be reported.
// In the containment branch of the overlap filter a candidate is therefore given up only under a *strict* comparison
// of the two weights: the place where `keep` becomes false behind contains(...) is dominated by a strict float
// comparison.
func checkContainmentTie(c *Ctx, p *core.Prog) {
	m := p.Func(v2pkg, "(*Classifier).match")
	cont := p.Func(v2pkg, "contains")
	if m == nil || !c.R.Anchor(cont != nil, "v2.contains") {
		return
	}
	n := 0
	// a place where a candidate is given up: `keep` becomes false (a constant false flowing into a boolean phi), or a
	// helper that decides about one candidate returns false; `at` is the block whose facts hold there
	giveUp := func(fn *ssa.Function, at *ssa.BasicBlock, edgeTo *ssa.BasicBlock, pos token.Pos) {
		behindContains, strict := false, false
		for _, ft := range core.FactsAt(at) {
			if call, isCall := ft.Cond.(*ssa.Call); isCall && ft.Truth && call.Call.StaticCallee() == cont {
				behindContains = true
			}
			if cmp, isCmp := ft.AsCmp(); isCmp && (cmp.Op == token.GTR || cmp.Op == token.LSS) {
				if bt, isB := cmp.X.Type().Underlying().(*types.Basic); isB && bt.Info()&types.IsFloat != 0 {
					strict = true
				}
			}
		}
		// the edge itself: `at` ends in the comparison
		if edgeTo != nil {
			if ifi, isIf := at.Instrs[len(at.Instrs)-1].(*ssa.If); isIf {
				if bo, isBo := ifi.Cond.(*ssa.BinOp); isBo && (bo.Op == token.GTR || bo.Op == token.LSS) && at.Succs[0] == edgeTo {
					if bt, isB := bo.X.Type().Underlying().(*types.Basic); isB && bt.Info()&types.IsFloat != 0 {
						strict = true
					}
				}
			}
		}
		if !behindContains {
			return
		}
		n++
		c.R.Check(strict, "R01.4", "match: behind contains(...), a candidate is given up only when the other one weighs strictly more", p.Pos(pos), "keep becomes false under a strict comparison of the two weights",
			"a candidate is also given up when the two weights are equal: of two corpus documents with the same words (one text under two names) only one is reported for a verbatim copy")
	}
	for _, fn := range pkgClosure(m, v2pkg) {
		for _, b := range fn.Blocks {
			for _, in := range b.Instrs {
				phi, ok := in.(*ssa.Phi)
				if !ok || !isBool(phi.Type()) {
					continue
				}
				for k, e := range phi.Edges {
					if cst, isC := e.(*ssa.Const); isC && cst.Value != nil && cst.Value.String() == "false" {
						giveUp(fn, b.Preds[k], b, phi.Pos())
					}
				}
			}
			if ret, isRet := b.Instrs[len(b.Instrs)-1].(*ssa.Return); isRet && len(ret.Results) >= 1 && isBool(ret.Results[0].Type()) {
				if cst, isC := ret.Results[0].(*ssa.Const); isC && cst.Value != nil && cst.Value.String() == "false" {
					giveUp(fn, b, nil, ret.Pos())
				}
			}
		}
	}
	c.R.RequireMin("R01.4", "places where a contained candidate is given up", n, 1)
	checkOverlapWeights(c, p, m, cont)
	checkWithdrawalsCommitted(c, p, m)
}

// checkOverlapWeights: R05.5 (shared by C01 and C05). The two weights that the containment branch of the overlap filter
// compares are computed from the matches' confidences and *token* spans. Line spans change when blank lines are inserted
// or lines are re-flowed; a tie-break on them makes the reported set depend on presentation.
func checkOverlapWeights(c *Ctx, p *core.Prog, m, cont *ssa.Function) {
	n := 0
	for _, fn := range pkgClosure(m, v2pkg) {
		for _, b := range fn.Blocks {
			ifi, ok := b.Instrs[len(b.Instrs)-1].(*ssa.If)
			if !ok {
				continue
			}
			bo, ok := ifi.Cond.(*ssa.BinOp)
			if !ok || (bo.Op != token.GTR && bo.Op != token.LSS) {
				continue
			}
			if bt, isB := bo.X.Type().Underlying().(*types.Basic); !isB || bt.Info()&types.IsFloat == 0 {
				continue
			}
			behind := false
			for _, ft := range core.FactsAt(b) {
				if call, isCall := ft.Cond.(*ssa.Call); isCall && ft.Truth && call.Call.StaticCallee() == cont {
					behind = true
				}
			}
			if !behind {
				continue
			}
			n++
			fields := map[string]bool{}
			var walk func(v ssa.Value, depth int)
			seen := map[ssa.Value]bool{}
			walk = func(v ssa.Value, depth int) {
				if seen[v] || depth > 10 {
					return
				}
				seen[v] = true
				switch x := v.(type) {
				case *ssa.BinOp:
					walk(x.X, depth+1)
					walk(x.Y, depth+1)
				case *ssa.Convert:
					walk(x.X, depth+1)
				case *ssa.Phi:
					for _, e := range x.Edges {
						walk(e, depth+1)
					}
				case *ssa.UnOp:
					if fa, ok := x.X.(*ssa.FieldAddr); ok && strings.HasSuffix(core.TypeName(fa.X.Type()), "/v2.Match") {
						fields[core.FieldName(fa)] = true
					}
				case *ssa.Call:
					// a helper of the package that computes the weight of a match: what its results are built from
					if cal := x.Call.StaticCallee(); cal != nil && core.FuncPkgPath(cal) == v2pkg && len(cal.Blocks) > 0 {
						for _, cb := range cal.Blocks {
							if ret, isRet := cb.Instrs[len(cb.Instrs)-1].(*ssa.Return); isRet {
								for _, r := range ret.Results {
									walk(r, depth+1)
								}
							}
						}
					}
				}
			}
			walk(bo.X, 0)
			walk(bo.Y, 0)
			var bad []string
			for f := range fields {
				if strings.Contains(f, "Line") {
					bad = append(bad, f)
				}
			}
			sort.Strings(bad)
			c.R.Check(len(bad) == 0 && fields["Confidence"], "R05.5", core.ShortFn(fn)+": the weights compared behind contains(...) are built from confidences and token spans", p.Pos(bo.Pos()),
				fmt.Sprintf("fields used: %v", keysOf(fields)), fmt.Sprintf("the weights use %v: line spans change with blank lines and re-flowed text, so the same license text is kept or withdrawn depending on its layout", bad))
		}
	}
	c.R.RequireMin("R05.5", "weight comparisons in the containment branch", n, 1)
}

// checkWithdrawalsCommitted: R01.6. A candidate that is better than an earlier, retained match may take that match's
// place - but only if the candidate itself is retained. All writes into the retain flags therefore happen where the
// candidate is known to be kept (the block of `retain[i] = true` dominates them): a withdrawal written straight from the
// comparison loop takes a reported copy away on behalf of a candidate that is dropped a moment later.
func checkWithdrawalsCommitted(c *Ctx, p *core.Prog, m *ssa.Function) {
	n := 0
	for _, fn := range pkgClosure(m, v2pkg) {
		// the retain flags: the elements of a []bool made here, or the boolean field of the elements of a slice of structs
		// made here (each candidate kept together with its flag)
		var flags *ssa.MakeSlice
		for _, b := range fn.Blocks {
			for _, in := range b.Instrs {
				if ms, ok := in.(*ssa.MakeSlice); ok {
					if sl, isSl := ms.Type().Underlying().(*types.Slice); isSl {
						if isBool(sl.Elem()) {
							flags = ms
						} else if st := core.StructOf(sl.Elem()); st != nil {
							for k := 0; k < st.NumFields(); k++ {
								if isBool(st.Field(k).Type()) {
									flags = ms
								}
							}
						}
					}
				}
			}
		}
		if flags == nil {
			continue
		}
		var stores []*ssa.Store
		var keepStore *ssa.Store
		for _, b := range fn.Blocks {
			for _, in := range b.Instrs {
				st, ok := in.(*ssa.Store)
				if !ok {
					continue
				}
				ia, ok := st.Addr.(*ssa.IndexAddr)
				if fa, isFA := st.Addr.(*ssa.FieldAddr); isFA && isBool(st.Val.Type()) {
					ia, ok = fa.X.(*ssa.IndexAddr)
				}
				if !ok || ia.X != ssa.Value(flags) || !isBool(st.Val.Type()) {
					continue
				}
				stores = append(stores, st)
				if cst, isC := st.Val.(*ssa.Const); isC && cst.Value != nil && cst.Value.String() == "true" {
					keepStore = st
				}
			}
		}
		if keepStore == nil || len(stores) < 2 {
			continue
		}
		n++
		bad := ""
		for _, st := range stores {
			if st == keepStore {
				continue
			}
			if !(keepStore.Block() == st.Block() || keepStore.Block().Dominates(st.Block())) {
				bad = p.Pos(st.Pos())
			}
		}
		c.R.Check(bad == "", "R01.6", core.ShortFn(fn)+": a retained match is withdrawn only on behalf of a candidate that is retained", p.Pos(keepStore.Pos()),
			"every other write into the retain flags is behind the point where the candidate is kept", "the retain flag of an earlier match is written at "+bad+" before the candidate is known to be kept: a verbatim copy can be withdrawn for a candidate that is then rejected itself")
	}
	c.R.RequireMin("R01.6", "overlap filters with deferred withdrawals", n, 1)
}

// ---------------------------------------------------------------------------------------------
// C02

func runC02(c *Ctx) {
	p := v2Prog(c)
	if p == nil {
		return
	}
	// shared with C04: every reported (identity, confidence, span) comes from one corpus document and the input - Match
	// keeps no state between documents or calls (R04.1), no map iteration order reaches the result (R04.4: a merge of
	// candidates across documents pairs one document's identity with another's confidence), and the document K named by a
	// match is the one that was added under that identity (R04.8: AddContent stores on every path).
	if mfn, mex := matchReadOnly(c, p, "R04.1"); mfn != nil && mex != nil {
		checkMapOrder(c, p, mfn, mex.Explored())
	}
	checkUnconditionalAdd(c, p)
	// shared with C03: StartLine/EndLine are set once, from the span that was scored (R03.13: no later store into a Match)
	checkMatchImmutable(c, p)
	// shared with C04: "Confidence is 1.0 only if R and K are word-for-word identical" needs every word to keep its own
	// rune through the diff library (R04.6 / R04.10)
	checkTokenIDUses(c, p)
	// shared with C06: the line of a word that is assembled across a buffer refill (R06.3)
	checkFlagsSurviveRefill(c, p)
	// shared with C06: a word is the first of its line - and may be dropped as a list marker - only if nothing of the line
	// was handed over before it (R06.15); a dropped word that belongs to the text makes a longer text score 1.0
	checkLineStringifier(c, p)
	// shared with C04: ... the id of a word is the dictionary's id of that very word (R04.12)
	checkDictLookupsOnCleanWord(c, p)
	// shared with C08: the last character of a truncated input is decoded from its own bytes only (R08.4/R08.5/R08.8); shared
	// with C06: a word of the spelling table is replaced by ONE word (R06.1) - a replacement with a blank in it counts as two
	// words where the scored span is cut to size
	tokenizerWindowRules(c, p)
	checkWordTable(c, p)
	// shared with C06: ... and only if the text of a token is computed for that token at its own position - a list marker
	// dropped from the middle of a line because the same word was one at a line start shortens the scored span (R06.5)
	checkTokenTextProvenance(c, p)
	// shared with C08: Confidence 1.0 means word-for-word identical only if every byte of the input reaches the tokenizer -
	// also the bytes a reader delivers together with the end of the input (R08.3)
	if c.R.Filter == nil {
		// ... and StartLine/EndLine are lines of the text as given only if Match hands the bytes it was given to the tokenizer
		// (R08.1/R08.2: Match and MatchFrom only delegate)
		borrowRules(c, []string{"R08.3", "R08.1", "R08.2"}, runC08)
	}
	sc := p.Func(v2pkg, "(*Classifier).score")
	if !c.R.Anchor(sc != nil, "v2.(*Classifier).score") {
		return
	}
	find := func(name string) *ssa.Call {
		var out *ssa.Call
		for _, call := range core.CallsIn(sc) {
			if cal := call.Common().StaticCallee(); p.IsFn(cal, v2pkg, name) {
				if cv, ok := call.(*ssa.Call); ok && out == nil {
					out = cv
				}
			}
		}
		return out
	}
	dd, dr, sd, cp := find("docDiff"), find("diffRange"), find("scoreDiffs"), find("confidencePercentage")
	if dd == nil || dr == nil || sd == nil || cp == nil {
		c.R.Fail("R02.1", "score: pipeline calls", p.Pos(sc.Pos()), "score no longer calls docDiff, diffRange, scoreDiffs and confidencePercentage")
		return
	}
	known := sc.Params[3]
	// R02.1: docDiff(id, unknown, start, end, known, 0, known.size()); confidencePercentage(known.size(), distance)
	sizeOK := func(v ssa.Value) bool {
		call, ok := v.(*ssa.Call)
		if !ok {
			return false
		}
		s, ok := core.InlineAccessor(call)
		return ok && s == "len("+core.AP(known)+".Tokens)" || (p.IsFn(call.Call.StaticCallee(), v2pkg, "(*indexedDocument).size") && core.Unspill(call.Call.Args[0]) == known)
	}
	a := dd.Call.Args
	zero, isZ := core.ConstInt(a[5])
	ok := len(a) == 7 && core.Unspill(a[4]) == known && isZ && zero == 0 && sizeOK(a[6])
	c.R.Check(ok, "R02.1", "score: the corpus side of the diff is the whole document [0, size)", p.Pos(dd.Pos()), "docDiff(..., known, 0, known.size())", "the diff is taken against a part of the corpus document: words outside it are not counted as missing, so the confidence overstates the similarity")
	ok = sizeOK(cp.Call.Args[0]) && cp.Call.Args[0] == a[6]
	c.R.Check(ok, "R02.1", "score: the confidence denominator is the same document length", p.Pos(cp.Pos()), "confidencePercentage(knownLength, distance) with the value passed to docDiff", "the confidence is not distance relative to |K| (the corpus document's length)")
	c.R.Check(cp.Call.Args[1] == ssa.Value(sd), "R02.1", "score: the distance is scoreDiffs of the retained diffs", p.Pos(cp.Pos()), "distance = scoreDiffs(...)", "the distance passed to confidencePercentage is not the result of scoreDiffs")
	// scoreDiffs argument is diffs[start:end] of diffRange on the same diffs
	diffs := ssa.Value(dd)
	var start, end ssa.Value
	for _, r := range *dr.Referrers() {
		if ex, ok := r.(*ssa.Extract); ok {
			if ex.Index == 0 {
				start = ex
			} else {
				end = ex
			}
		}
	}
	sl, isSl := sd.Call.Args[1].(*ssa.Slice)
	ok = isSl && sl.X == diffs && sl.Low == start && sl.High == end && dr.Call.Args[1] == diffs
	c.R.Check(ok, "R02.2", "score: scoreDiffs sees exactly diffs[start:end] of one diffRange call", p.Pos(sd.Pos()), "diffs[start:end]", "the range that is scored is not the range that diffRange retained")
	// the returned offsets: textLength(diffs[:start]), textLength(diffs[end:])
	var tl []*ssa.Call
	for _, call := range core.CallsIn(sc) {
		if cal := call.Common().StaticCallee(); p.IsFn(cal, v2pkg, "textLength") {
			tl = append(tl, call.(*ssa.Call))
		}
	}
	sort.Slice(tl, func(i, j int) bool { return tl[i].Pos() < tl[j].Pos() })
	ok = len(tl) == 2
	why := "two textLength calls"
	if ok {
		s0, ok0 := tl[0].Call.Args[0].(*ssa.Slice)
		s1, ok1 := tl[1].Call.Args[0].(*ssa.Slice)
		ok = ok0 && ok1 && s0.X == diffs && s0.Low == nil && s0.High == start && s1.X == diffs && s1.Low == end && s1.High == nil
		why = "textLength(diffs[:start]) and textLength(diffs[end:])"
		// returned in that order as results 1 and 2 on the success path
		if ok {
			okRet := false
			for _, b := range sc.Blocks {
				if ret, isRet := b.Instrs[len(b.Instrs)-1].(*ssa.Return); isRet && len(ret.Results) == 3 && ret.Results[0] == ssa.Value(cp) {
					okRet = ret.Results[1] == ssa.Value(tl[0]) && ret.Results[2] == ssa.Value(tl[1])
				}
			}
			if !okRet {
				ok, why = false, "score does not return (confidence, leading words trimmed, trailing words trimmed) in that order"
			}
		}
	}
	c.R.Check(ok, "R02.2", "score: the trimmed word counts are textLength of the diffs outside the retained range, leading first", p.Pos(sc.Pos()), why, "the offsets returned by score are not the word counts of diffs[:start] and diffs[end:] (in that order): the reported span is shifted relative to the text that was scored")
	// match applies them: Start = startIndex + so ; End = endIndex - eo - 1  (linear forms)
	for _, lit := range licenseLiterals(p) {
		conf, isEx := lit.fields["Confidence"].(*ssa.Extract)
		okC := isEx && conf.Index == 0
		var scCall *ssa.Call
		if okC {
			scCall, _ = conf.Tuple.(*ssa.Call)
			okC = scCall != nil && scCall.Call.StaticCallee() == sc
		}
		c.R.Check(okC, "R02.3", core.ShortFn(lit.fn)+": Confidence is the first result of score", p.Pos(lit.alloc.Pos()), "conf, so, eo := c.score(...)", "a license match is reported with a confidence that was not computed by score (e.g. a shortcut that assumes an exact copy)")
		if !okC {
			continue
		}
		var so, eo ssa.Value
		for _, r := range *scCall.Referrers() {
			if ex, ok := r.(*ssa.Extract); ok {
				switch ex.Index {
				case 1:
					so = ex
				case 2:
					eo = ex
				}
			}
		}
		si, ei := scCall.Call.Args[4], scCall.Call.Args[5]
		wantS := core.LinOf(si, nil).Add(core.LinOf(so, nil), 1)
		wantE := core.LinOf(ei, nil).Add(core.LinOf(eo, nil), -1).Add(core.Lin{Const: 1}, -1)
		okS := so != nil && core.LinOf(lit.fields["StartTokenIndex"], lit.subst).Equal(wantS)
		okE := eo != nil && core.LinOf(lit.fields["EndTokenIndex"], lit.subst).Equal(wantE)
		c.R.Check(okS && okE, "R02.2", core.ShortFn(lit.fn)+": the span is the scored range with the trimmed words removed at the matching ends", p.Pos(lit.alloc.Pos()),
			"StartTokenIndex = start + leading, EndTokenIndex = end - trailing - 1", "the token span is not [start+leading trimmed, end-trailing trimmed-1]: the reported span differs from the text that was scored")
	}
	spanLineRules(c, p)
	checkLineCounter(c, p, "R03.9")
	checkConfidenceFormula(c, p)

	// R02.5: the distance that scoreDiffs hands back is the word distance of the diff it was given, as computed - or one of
	// its constant verdicts. Nothing is taken off it afterwards (a "tolerated" difference that is forgiven in the distance
	// is a difference the confidence no longer shows).
	if sdf := sd.Call.StaticCallee(); sdf != nil && len(sdf.Blocks) > 0 {
		nRet, bad := 0, ""
		for _, b := range sdf.Blocks {
			ret, ok := b.Instrs[len(b.Instrs)-1].(*ssa.Return)
			if !ok || len(ret.Results) != 1 {
				continue
			}
			nRet++
			r := ret.Results[0]
			// a constant verdict, directly or as the result of a helper that only returns constants
			var verdict func(v ssa.Value, depth int) bool
			verdict = func(v ssa.Value, depth int) bool {
				if depth > 3 {
					return false
				}
				switch x := v.(type) {
				case *ssa.Const:
					return true
				case *ssa.Phi:
					for _, e := range x.Edges {
						if !verdict(e, depth+1) {
							return false
						}
					}
					return true
				case *ssa.Call:
					g := x.Call.StaticCallee()
					if g == nil || core.FuncPkgPath(g) != v2pkg || len(g.Blocks) == 0 {
						return false
					}
					nr := 0
					for _, gb := range g.Blocks {
						if gr, ok := gb.Instrs[len(gb.Instrs)-1].(*ssa.Return); ok {
							nr++
							if len(gr.Results) != 1 || !verdict(gr.Results[0], depth+1) {
								return false
							}
						}
					}
					return nr > 0
				}
				return false
			}
			if verdict(r, 0) {
				continue
			}
			call, isCall := r.(*ssa.Call)
			okD := false
			if isCall {
				if g := call.Call.StaticCallee(); g != nil && core.FuncPkgPath(g) == v2pkg && len(call.Call.Args) == 1 {
					if prm, isP := core.Unspill(call.Call.Args[0]).(*ssa.Parameter); isP && prm.Parent() == sdf {
						okD = true
					}
				}
			}
			if !okD {
				bad = p.Pos(ret.Pos())
			}
		}
		c.R.Check(bad == "" && nRet > 0, "R02.5", "scoreDiffs returns the word distance of its diffs unchanged, or a constant verdict", p.Pos(sdf.Pos()),
			fmt.Sprintf("%d returns: constants or the distance function applied to the diffs parameter", nRet), "the value returned at "+bad+" is computed from the distance (something is added to or taken off it): the confidence then no longer is 1 - distance/|K|")
	}
}

// checkConfidenceFormula: R02.4. The confidence is 1 - distance/|K| computed in floating point. Every non-constant result of
// the function that turns (document length, distance) into a confidence is `1 - float(distance)/float(length)`; integer
// arithmetic on the way (percent rounding) reports more than the bound allows.
func checkConfidenceFormula(c *Ctx, p *core.Prog) {
	cp := p.Func(v2pkg, "confidencePercentage")
	if !c.R.Anchor(cp != nil && len(cp.Params) == 2, "v2.confidencePercentage") {
		return
	}
	isFloatOf := func(v ssa.Value, prm *ssa.Parameter) bool {
		cv, ok := v.(*ssa.Convert)
		return ok && cv.X == ssa.Value(prm)
	}
	n := 0
	for _, b := range cp.Blocks {
		ret, ok := b.Instrs[len(b.Instrs)-1].(*ssa.Return)
		if !ok || len(ret.Results) != 1 {
			continue
		}
		if _, isC := ret.Results[0].(*ssa.Const); isC {
			continue // the guard for an empty document
		}
		n++
		okF, why := false, "the result is not 1 - float(distance)/float(length)"
		if sub, isSub := ret.Results[0].(*ssa.BinOp); isSub && sub.Op == token.SUB {
			if one, isOne := core.ConstFloat(sub.X); isOne && one == 1.0 {
				if q, isQ := sub.Y.(*ssa.BinOp); isQ && q.Op == token.QUO {
					// which parameter is the length: the one tested against zero
					var klen, dist *ssa.Parameter
					for i, prm := range cp.Params {
						for _, r := range *prm.Referrers() {
							if bo, isBo := r.(*ssa.BinOp); isBo && (bo.Op == token.EQL || bo.Op == token.NEQ) {
								if k, isK := core.ConstInt(bo.Y); isK && k == 0 {
									klen, dist = prm, cp.Params[1-i]
								}
							}
						}
					}
					if klen != nil && isFloatOf(q.X, dist) && isFloatOf(q.Y, klen) {
						okF, why = true, "1 - float64(distance)/float64(length)"
					}
				}
			}
		}
		c.R.Check(okF, "R02.4", "confidencePercentage computes 1 - distance/length in floating point", p.Pos(ret.Pos()), why,
			why+": integer arithmetic or rounding on the way to the confidence (whole percent, truncating division) reports a higher confidence than 1 - L/|K|, up to 1.0 for a text that is not identical")
	}
	c.R.RequireMin("R02.4", "computed results of confidencePercentage", n, 1)
}

// ---------------------------------------------------------------------------------------------
// C05

func runC05(c *Ctx) {
	p := v2Prog(c)
	if p == nil {
		return
	}
	// shared with C06: the "words of this line were already handed over" offset belongs to one line (R06.9/R06.10): when it
	// survives a line that holds blanks only, trailing blanks change which words of the next line are list markers
	checkMidLineReset(c, p)
	if mf, cf := p.Func(v2pkg, "(*Classifier).match"), p.Func(v2pkg, "contains"); mf != nil && cf != nil {
		checkOverlapWeights(c, p, mf, cf)
	}
	checkCandidateLinesTraversed(c, p)
	checkIndexKeysAgree(c, p)
	checkRound12Tokenizer(c, p, map[string]bool{"R05.13": true, "R06.24": true})
	// shared with C06: whether a line is a notice is decided for every line, whatever its length in bytes (R06.6): a
	// typographic quote is three bytes where the ASCII one is one
	checkNoticePatternsUnconditional(c, p)
	// shared with C03: each notice line is reported by a pseudo-match of its own, built once (R03.13) - a pseudo-match that
	// is extended when the next line is a notice too makes the number of matches depend on blank lines between them
	checkMatchImmutable(c, p)
	// shared with C08: Match hands every byte of the text to the tokenizer, whatever its length or its first bytes look
	// like (R08.1/R08.2: Match and MatchFrom only delegate) - decoration makes a file longer and changes its first bytes
	if c.R.Filter == nil {
		borrowRules(c, []string{"R08.1", "R08.2"}, runC08)
	}
	ts := p.Func(v2pkg, "tokenizeStream")
	if !c.R.Anchor(ts != nil, "v2.tokenizeStream") {
		return
	}
	// R05.7: the tokenizer never asks which case a letter has. It folds case (unicode.ToLower, strings.ToLower); a test of
	// the case of a rune or a word (unicode.IsUpper / IsLower / IsTitle) makes the token stream of a re-cased text differ.
	{
		nU, bad := 0, ""
		for _, f := range pkgClosure(ts, v2pkg) {
			for _, call := range core.CallsIn(f) {
				n := core.StaticCalleeName(call.Common())
				if !strings.HasPrefix(n, "unicode.") && !strings.HasPrefix(n, "strings.To") {
					continue
				}
				nU++
				if n == "unicode.IsUpper" || n == "unicode.IsLower" || n == "unicode.IsTitle" {
					bad = n + " in " + core.ShortFn(f) + " (" + p.Pos(call.Pos()) + ")"
				}
			}
		}
		c.R.Check(bad == "", "R05.7", "the tokenizer folds case and never tests it", v2pkg, fmt.Sprintf("%d calls of unicode.* / strings.To* in the tokenizer, none a test of a letter's case", nU),
			"the tokenizer calls "+bad+": what it does with a word depends on how the word is cased, so upper- or lower-casing a text changes its tokens")
		c.R.RequireMin("R05.7", "calls of unicode.* / strings.To* in the tokenizer", nU, 2)
	}
	normalize := ts.Params[1]
	deadUnderNormalize := func(b *ssa.BasicBlock) bool {
		for _, f := range core.FactsAt(b) {
			if f.Cond == ssa.Value(normalize) && !f.Truth {
				return true
			}
		}
		return false
	}
	var lowered func(v ssa.Value, at *ssa.BasicBlock, depth int) bool
	lowered = func(v ssa.Value, at *ssa.BasicBlock, depth int) bool {
		if depth > 6 {
			return false
		}
		switch x := v.(type) {
		case *ssa.Call:
			return core.StaticCalleeName(&x.Call) == "unicode.ToLower"
		case *ssa.Phi:
			for i, e := range x.Edges {
				pb := x.Block().Preds[i]
				if deadUnderNormalize(pb) {
					continue
				}
				// the edge that skips `if normalize {r = ToLower(r)}` comes straight from the block that tests normalize
				if ifi, ok := pb.Instrs[len(pb.Instrs)-1].(*ssa.If); ok && ifi.Cond == ssa.Value(normalize) && pb.Succs[1] == x.Block() {
					continue
				}
				if !lowered(e, pb, depth+1) {
					return false
				}
			}
			return true
		}
		return false
	}
	n := 0
	for _, call := range core.CallsIn(ts) {
		if core.StaticCalleeName(call.Common()) != "unicode/utf8.AppendRune" {
			continue
		}
		n++
		v := call.Common().Args[1]
		c.R.Check(lowered(v, call.Block(), 0), "R05.1", "tokenizeStream: a rune appended to the word buffer was lower-cased (normalize=true)", p.Pos(call.Pos()),
			"the appended rune is unicode.ToLower(...) on every path that is live with normalize=true", "a rune reaches the word buffer without passing unicode.ToLower ("+eng.Describe(v)+"): re-casing the input changes the token")
	}
	// any other append into the word buffer (the slice handed to flushBuf)
	fam := map[ssa.Value]bool{}
	for _, call := range core.CallsIn(ts) {
		if cal := call.Common().StaticCallee(); p.IsFn(cal, v2pkg, "flushBuf") {
			for v := range sliceFamilyThrough(call.Common().Args[1]) {
				fam[v] = true
			}
		}
	}
	for v := range fam {
		call, ok := v.(*ssa.Call)
		if !ok {
			continue
		}
		bi, ok := call.Call.Value.(*ssa.Builtin)
		if !ok || bi.Name() != "append" || len(call.Call.Args) < 2 {
			continue
		}
		n++
		el := singleVarargElem(call.Call.Args[1])
		for {
			if cv, ok := el.(*ssa.Convert); ok {
				el = cv.X
				continue
			}
			break
		}
		ok = el != nil && lowered(el, call.Block(), 0)
		c.R.Check(ok, "R05.1", "tokenizeStream: bytes appended directly to the word buffer were lower-cased (normalize=true)", p.Pos(call.Pos()),
			"the appended value is unicode.ToLower(...)", "a value reaches the word buffer through append without passing unicode.ToLower: re-casing the input changes the token")
	}
	c.R.RequireMin("R05.1", "runes appended to the word buffer", n, 2)
	// ... and what html.UnescapeString puts into the word afterwards (a character reference can stand for an upper-case
	// letter) is lower-cased before the word is interned, whenever the word is being normalised
	nU := 0
	for _, fn := range v2Funcs(p) {
		var unesc []ssa.Value
		for _, call := range core.CallsIn(fn) {
			if core.StaticCalleeName(call.Common()) == "html.UnescapeString" {
				if v := call.Value(); v != nil {
					unesc = append(unesc, v)
				}
			}
		}
		if len(unesc) == 0 {
			continue
		}
		uset := map[ssa.Value]bool{}
		for _, u := range unesc {
			uset[u] = true
		}
		var flag *ssa.Parameter
		for _, prm := range fn.Params {
			if isBool(prm.Type()) {
				flag = prm
			}
		}
		var loweredAfter func(v ssa.Value, depth int) bool
		loweredAfter = func(v ssa.Value, depth int) bool {
			if depth > 8 {
				return false
			}
			switch x := v.(type) {
			case *ssa.Call:
				if core.StaticCalleeName(&x.Call) == "strings.ToLower" {
					return dependsOnAnyThroughPhi(x.Call.Args[0], uset, 0)
				}
				// a rewrite applied afterwards keeps the case (ReplaceAll of lower-case constants, same-package helpers)
				for _, a := range x.Call.Args {
					if isString(a.Type()) && loweredAfter(a, depth+1) {
						return true
					}
				}
			case *ssa.Phi:
				for i, e := range x.Edges {
					pb := x.Block().Preds[i]
					// the edge that skips `if normalize { ... }` is dead when normalising
					if ifi, ok := pb.Instrs[len(pb.Instrs)-1].(*ssa.If); ok && pb.Succs[1] == x.Block() {
						if flag != nil && ifi.Cond == ssa.Value(flag) {
							continue
						}
						if holdsNormalizeFlag(p, ifi.Cond) {
							continue
						}
					}
					if !loweredAfter(e, depth+1) {
						return false
					}
				}
				return true
			}
			return false
		}
		for _, call := range core.CallsIn(fn) {
			cal := call.Common().StaticCallee()
			if cal == nil || !p.IsFn(cal, v2pkg, "(*dictionary).add") || len(call.Common().Args) < 2 {
				continue
			}
			nU++
			c.R.Check(loweredAfter(call.Common().Args[1], 0), "R05.1", core.ShortFn(fn)+": text resolved from HTML character references is lower-cased before the word is interned (normalize=true)", p.Pos(call.Pos()),
				"strings.ToLower is applied after html.UnescapeString on every path that is live when normalising", "a character reference that stands for an upper-case letter (\"&#80;ermission\") leaves a capital in the word: Match sees an unknown word where the same text written plainly (or its normalised form) matches")
		}
	}
	c.R.RequireMin("R05.1", "words interned after HTML unescaping", nU, 1)
	// any other write into the word buffer (append of bytes) is unexpected
	// R05.2 punctuation table
	tab, ok := globalMapLiteral(p, v2pkg, "punctuationMappings")
	if !ok {
		c.R.Undecided("R05.2", "punctuationMappings table", "v2/tokenizer.go", "cannot read the table from the package initialiser")
	} else {
		c.R.Count("R05.2:rows", len(tab))
		// the ASCII hyphen, the Unicode hyphens and dashes U+2010..U+2015 and the minus sign
		for _, d := range []string{"-", "\u2010", "\u2011", "\u2012", "\u2013", "\u2014", "\u2015", "\u2212"} {
			c.R.Check(tab[d] == "-", "R05.2", fmt.Sprintf("punctuationMappings maps %q (U+%04X) to \"-\"", d, []rune(d)[0]), "v2/tokenizer.go", "row present", fmt.Sprintf("typographic dash %q is mapped to %q: replacing an ASCII hyphen by it changes the token", d, tab[d]))
		}
		for k, v := range tab {
			if strings.ToLower(v) != v {
				c.R.Fail("R05.2", fmt.Sprintf("punctuationMappings value for %q is not lower-case", k), "v2/tokenizer.go", v)
			}
		}
	}
	tokenizerWindowRules(c, p)
	checkLineCounter(c, p, "R03.9")
	checkCleanedTextBuiltRuneByRune(c, p)
	checkWordSeparator(c, p)
}

// checkCleanedTextBuiltRuneByRune: R05.3. Typographic variants of punctuation (curly quotes, dashes, ...) disappear because
// the token clean-up keeps only runes that it tested one by one. The cleaned text it returns is therefore a value it
// built (a strings.Builder result, a substring or re-spelling of one, a table entry or a constant) - never its raw
// argument, unless the raw argument was shown to consist of letters only (strings.IndexFunc(in, not-a-letter) < 0).
func checkCleanedTextBuiltRuneByRune(c *Ctx, p *core.Prog) {
	ct := p.Func(v2pkg, "cleanupToken")
	if !c.R.Anchor(ct != nil, "v2.cleanupToken") {
		return
	}
	var raw *ssa.Parameter
	for _, prm := range ct.Params {
		if isString(prm.Type()) {
			raw = prm
		}
	}
	if raw == nil {
		c.R.Undecided("R05.3", "cleanupToken: raw word parameter", p.Pos(ct.Pos()), "no string parameter")
		return
	}
	// onlyLettersFact: a dominating fact strings.IndexFunc(raw, f) < 0 / == -1 with f == func(c) { return !unicode.IsLetter(c) }
	notLetterPred := func(v ssa.Value) bool {
		f := eng.ResolveCallee(v)
		if f == nil || len(f.Blocks) != 1 || len(f.Params) != 1 {
			return false
		}
		ret, ok := f.Blocks[0].Instrs[len(f.Blocks[0].Instrs)-1].(*ssa.Return)
		if !ok || len(ret.Results) != 1 {
			return false
		}
		u, ok := ret.Results[0].(*ssa.UnOp)
		if !ok || u.Op != token.NOT {
			return false
		}
		return isCallTo(u.X, "unicode.IsLetter") && u.X.(*ssa.Call).Call.Args[0] == ssa.Value(f.Params[0])
	}
	onlyLetters := func(b *ssa.BasicBlock) bool {
		for _, ft := range core.FactsAt(b) {
			cmp, ok := ft.AsCmp()
			if !ok {
				continue
			}
			call, isCall := cmp.X.(*ssa.Call)
			if !isCall || core.StaticCalleeName(&call.Call) != "strings.IndexFunc" || call.Call.Args[0] != ssa.Value(raw) || !notLetterPred(call.Call.Args[1]) {
				continue
			}
			k, isK := core.ConstInt(cmp.Y)
			if isK && ((cmp.Op == token.EQL && k == -1) || (cmp.Op == token.LSS && k == 0)) {
				return true
			}
		}
		return false
	}
	var rawReaches func(v ssa.Value, at *ssa.BasicBlock, seen map[ssa.Value]bool) bool
	rawReaches = func(v ssa.Value, at *ssa.BasicBlock, seen map[ssa.Value]bool) bool {
		if seen[v] {
			return false
		}
		seen[v] = true
		switch x := v.(type) {
		case *ssa.Parameter:
			return x == raw && !onlyLetters(at)
		case *ssa.Phi:
			for i, e := range x.Edges {
				if rawReaches(e, x.Block().Preds[i], seen) {
					return true
				}
			}
		case *ssa.Slice:
			return rawReaches(x.X, at, seen)
		case *ssa.Call:
			switch core.StaticCalleeName(&x.Call) {
			case "strings.ToLower", "strings.TrimSpace", "strings.TrimSuffix", "strings.TrimPrefix", "strings.TrimRight", "strings.TrimLeft", "strings.Trim":
				return rawReaches(x.Call.Args[0], at, seen)
			}
		}
		return false
	}
	n := 0
	for _, b := range ct.Blocks {
		ret, ok := b.Instrs[len(b.Instrs)-1].(*ssa.Return)
		if !ok || len(ret.Results) != 1 {
			continue
		}
		n++
		bad := rawReaches(ret.Results[0], b, map[ssa.Value]bool{})
		c.R.Check(!bad, "R05.3", "cleanupToken returns text it built rune by rune, not its raw argument", p.Pos(ret.Pos()), "the result is a builder's string, a table entry or a constant on every path",
			"a path returns the raw word (or a substring / re-casing of it) without every rune having been tested: non-ASCII punctuation such as typographic quotes stays in the token, so a presentation change alters the words")
	}
	c.R.RequireMin("R05.3", "return statements of cleanupToken", n, 2)
}

// ---------------------------------------------------------------------------------------------
// C06

// holdsNormalizeFlag: v is a load of a boolean struct field every store into which (anywhere in v2) stores the normalize
// parameter of tokenizeStream: the option travelling in a parameter struct instead of a parameter.
func holdsNormalizeFlag(p *core.Prog, v ssa.Value) bool {
	ld, ok := v.(*ssa.UnOp)
	if !ok || ld.Op != token.MUL {
		return false
	}
	fa, ok := ld.X.(*ssa.FieldAddr)
	if !ok || !isBool(ld.Type()) {
		return false
	}
	st := core.StructOf(fa.X.Type())
	ts := p.Func(v2pkg, "tokenizeStream")
	if st == nil || ts == nil || len(ts.Params) < 2 || !isBool(ts.Params[1].Type()) {
		return false
	}
	n := 0
	for _, g := range v2Funcs(p) {
		for _, b := range g.Blocks {
			for _, in := range b.Instrs {
				s2, ok := in.(*ssa.Store)
				if !ok {
					continue
				}
				fa2, ok := s2.Addr.(*ssa.FieldAddr)
				if !ok || fa2.Field != fa.Field || core.StructOf(fa2.X.Type()) != st {
					continue
				}
				n++
				if core.Unspill(s2.Val) != ssa.Value(ts.Params[1]) {
					return false
				}
			}
		}
	}
	return n > 0
}

// regexpPatternOf: v is a load of a package-level *regexp.Regexp variable that is assigned once, in the package
// initialiser, the result of regexp.MustCompile of a constant: returns that constant.
func regexpPatternOf(p *core.Prog, v ssa.Value) (string, bool) {
	ld, ok := v.(*ssa.UnOp)
	if !ok || ld.Op != token.MUL {
		return "", false
	}
	g, ok := ld.X.(*ssa.Global)
	if !ok {
		return "", false
	}
	pat, n := "", 0
	for _, fn := range append(p.SrcFuncs(core.FuncPkgPath(g.Pkg.Func("init"))), g.Pkg.Func("init")) {
		if fn == nil {
			continue
		}
		for _, b := range fn.Blocks {
			for _, in := range b.Instrs {
				st, ok := in.(*ssa.Store)
				if !ok || st.Addr != ssa.Value(g) {
					continue
				}
				n++
				call, ok := st.Val.(*ssa.Call)
				if !ok || core.StaticCalleeName(&call.Call) != "regexp.MustCompile" || fn != g.Pkg.Func("init") {
					return "", false
				}
				s, ok := core.ConstString(call.Call.Args[0])
				if !ok {
					return "", false
				}
				pat = s
			}
		}
	}
	return pat, n == 1
}

func lettersLower(s string) bool {
	if s == "" {
		return false
	}
	for _, r := range s {
		if !unicode.IsLetter(r) || unicode.ToLower(r) != r {
			return false
		}
	}
	return true
}

func checkWordTable(c *Ctx, p *core.Prog) {
	tab, ok := globalMapLiteral(p, v2pkg, "interchangeableWords")
	if !ok {
		c.R.Undecided("R06.1", "interchangeableWords table", "v2/tokenizer.go", "cannot read the table from the package initialiser")
		return
	}
	c.R.Count("R06.1:rows", len(tab))
	c.R.RequireMin("R06.1", "rows of interchangeableWords", len(tab), 10)
	var keys []string
	for k := range tab {
		keys = append(keys, k)
	}
	sort.Strings(keys)
	dead := 0
	for _, k := range keys {
		v := tab[k]
		if !lettersLower(k) {
			// cleanupToken only produces letters-only words: such a key can never equal a token
			dead++
			c.R.Info("R06.1", "interchangeableWords key "+fmt.Sprintf("%q", k)+" can never equal a token", "v2/tokenizer.go", "dead entry (marked TODO in the source)")
			continue
		}
		switch {
		case !lettersLower(v):
			c.R.Fail("R06.1", fmt.Sprintf("interchangeableWords[%q] = %q is not a letters-only lower-case word", k, v), "v2/tokenizer.go", "the replacement is not a word the tokenizer can produce, so the two spellings never compare equal")
		case v == k:
			c.R.Fail("R06.1", fmt.Sprintf("interchangeableWords[%q] maps to itself", k), "v2/tokenizer.go", "useless row")
		default:
			if _, chained := tab[v]; chained {
				c.R.Fail("R06.1", fmt.Sprintf("interchangeableWords[%q] = %q is itself a key", k, v), "v2/tokenizer.go", "the mapping is not idempotent: a text and its normalisation tokenise differently")
			} else {
				c.R.OK("R06.1", fmt.Sprintf("interchangeableWords[%q] = %q", k, v), "v2/tokenizer.go", "letters-only, lower case, not a key")
			}
		}
	}
}

func runC06(c *Ctx) {
	p := v2Prog(c)
	if p == nil {
		return
	}
	// shared with C04/C09: the line that is tested for being a notice is this call's line - nothing the tokenizer uses is
	// shared between calls (R04.1)
	matchReadOnly(c, p, "R04.1")
	// shared with C08: a word split with a (multi-byte) hyphen at the edge of a read window is joined like anywhere else -
	// the bytes carried over to the next window start where the rune loop stopped (R08.4/R08.5/R08.8)
	tokenizerWindowRules(c, p)
	checkWordTable(c, p)
	checkLineStringifier(c, p)
	checkDictLookupsOnCleanWord(c, p)
	checkTokenizerCallArgsAgree(c, p)
	checkRejectedCandidateHasNoEffect(c, p)
	checkRound12Tokenizer(c, p, map[string]bool{"R06.24": true})
	checkCarriageReturnEndsWords(c, p)
	checkMidLineNotNotice(c, p)
	// shared with C11: a notice is recognised on the cleaned-up form of its line as well, for every line (R11.10)
	checkNoticeDecisionOnCleanedLine(c, p)
	// shared with C03: an inserted notice is reported on exactly its line only if its pseudo-match is built once and
	// never extended by a neighbouring notice (R03.13)
	checkMatchImmutable(c, p)
	// R03.7
	n := 0
	for _, lit := range structLits(v2Funcs(p), "/v2.Match") {
		if s, ok := core.ConstString(lit.fields["MatchType"]); ok && s == "Copyright" {
			n++
			checkCopyrightLiteral(c, p, lit, "R03.7")
		}
	}
	c.R.RequireMin("R03.7", "Copyright Match literals", n, 1)

	// R06.4 the scheme rewrite (in normalizeToken, or wherever it was inlined)
	checkSchemeRewrite(c, p)

	checkTokenTextProvenance(c, p)

	// R06.6 / R06.7 / R06.8
	checkNoticePatternsUnconditional(c, p)
	checkSpellingLookupOnCleanText(c, p)
	checkMarkerTableDecides(c, p)

	// R06.9 a line buffer that is emptied in the middle of a line is followed by words that are not at a line start
	checkMidLineReset(c, p)

	// R06.3 hyphenation flags survive refills
	checkFlagsSurviveRefill(c, p)
	checkHyphenTestUnguarded(c, p)
	// R06.11 a word split with a hyphen is joined in CR LF texts too
	checkCRBeforeHyphenJoin(c, p)
	// R03.9 / R03.11 (shared with C03): an inserted notice is reported on exactly its line - the line counter advances by one
	// per line break on every path, held breaks included
	checkLineCounter(c, p, "R03.9")

	// R06.2 pseudo-match segregation
	checkPseudoMatchSegregation(c, p)
	// R03.4b every retained candidate (Copyright matches included) is returned
	checkResultIsRetained(c, p)
}

// checkFlagsSurviveRefill: R06.3. Every boolean loop-carried variable of the rune loop must enter the
// loop with the value it had at the end of the previous window (a phi of the read loop), not a constant.
func checkFlagsSurviveRefill(c *Ctx, p *core.Prog) {
	ts := p.Func(v2pkg, "tokenizeStream")
	if ts == nil {
		return
	}
	var dec ssa.CallInstruction
	for _, call := range core.CallsIn(ts) {
		if core.StaticCalleeName(call.Common()) == "unicode/utf8.DecodeRune" {
			dec = call
		}
	}
	if dec == nil {
		return
	}
	var inner, outer *ssa.BasicBlock
	for d := dec.Block(); d != nil; d = d.Idom() {
		back := false
		for _, pr := range d.Preds {
			if d.Dominates(pr) {
				back = true
			}
		}
		if back {
			if inner == nil {
				inner = d
			} else if outer == nil {
				outer = d
			}
		}
	}
	if inner == nil || outer == nil {
		c.R.Undecided("R06.3", "tokenizeStream: loop nest", p.Pos(ts.Pos()), "cannot find the rune loop nested in the read loop")
		return
	}
	n := 0
	for _, in := range inner.Instrs {
		phi, ok := in.(*ssa.Phi)
		if !ok {
			continue
		}
		what := "hyphenation flag "
		if _, isSl := phi.Type().Underlying().(*types.Slice); isSl {
			// the word and line buffers: what was collected of a word or a line when the window ran out
			what = "buffer "
		} else if !isBool(phi.Type()) {
			// integer state (line number, held-back line breaks) - but not the scan position, which restarts with
			// every window
			bt, isB := phi.Type().Underlying().(*types.Basic)
			if !isB || bt.Kind() != types.Int {
				continue
			}
			if sl, isSl := dec.Common().Args[0].(*ssa.Slice); isSl && sl.Low == ssa.Value(phi) {
				continue
			}
			what = "counter "
		}
		n++
		for i, e := range phi.Edges {
			pb := inner.Preds[i]
			if inner.Dominates(pb) {
				continue // back edge of the rune loop
			}
			carried := false
			if ph, isPhi := e.(*ssa.Phi); isPhi && ph.Block() == outer {
				carried = true
				// and the read loop's phi must take the rune loop's final value on its back edge
				for j, oe := range ph.Edges {
					if outer.Dominates(outer.Preds[j]) && oe != ssa.Value(phi) {
						// something else than the value the rune loop ended with goes round: the refill step changed it
						carried = false
					}
				}
			}
			c.R.Check(carried, "R06.3", "tokenizeStream: "+what+phi.Comment+" keeps its value across buffer refills", p.Pos(phi.Pos()),
				"enters the rune loop as a loop-carried value of the read loop, which hands the rune loop's final value round unchanged", "the state is re-initialised or changed between two 1020-byte windows: what the tokenizer does then depends on where the window boundaries fall in the text (a hyphen-split word that straddles a boundary is not joined, an over-long word is cut at a boundary, a line is counted wrongly)")
		}
	}
	c.R.RequireMin("R06.3", "state variables of the rune loop", n, 2)
	// ... and the objects the tokenizer works with (the dictionaries, the document) are the same ones in every window: a
	// pointer or map that the read loop carries round is never replaced by the refill step (a local dictionary started anew
	// at a refill no longer resolves the ids of the words collected on the unfinished line)
	for _, in := range outer.Instrs {
		phi, ok := in.(*ssa.Phi)
		if !ok {
			continue
		}
		switch phi.Type().Underlying().(type) {
		case *types.Pointer, *types.Map:
		default:
			continue
		}
		var same func(v ssa.Value, seen map[ssa.Value]bool) bool
		same = func(v ssa.Value, seen map[ssa.Value]bool) bool {
			if v == ssa.Value(phi) {
				return true
			}
			ph, isPhi := v.(*ssa.Phi)
			if !isPhi || seen[v] {
				return isPhi && seen[v]
			}
			seen[v] = true
			for _, e := range ph.Edges {
				if !same(e, seen) {
					return false
				}
			}
			return true
		}
		okP := true
		for j, e := range phi.Edges {
			if outer.Dominates(outer.Preds[j]) && !same(e, map[ssa.Value]bool{}) {
				okP = false
			}
		}
		c.R.Check(okP, "R06.3", "tokenizeStream: the object "+phi.Comment+" is the same one in every window", p.Pos(phi.Pos()), "never re-assigned inside the read loop",
			"the read loop replaces "+phi.Comment+" between two windows: what was collected with the old object (the ids of the words of the unfinished line, say) is interpreted with the new one, so the tokens depend on where the window boundaries fall")
	}
}

// checkSchemeRewrite: R06.4 (shared by C06 and C11). The https->http rewrite applies to every occurrence in a token, runs to a
// fixed point and is applied to the cleaned word as well, so that a cleaned word is a fixed point of the tokenizer.
func checkSchemeRewrite(c *Ctx, p *core.Prog) {
	var sites []*ssa.Call
	fns := v2Funcs(p)
	okAll, why := true, ""
	for _, fn := range fns {
		for _, call := range core.CallsIn(fn) {
			cv, isCall := call.(*ssa.Call)
			if !isCall {
				continue
			}
			n := core.StaticCalleeName(&cv.Call)
			if n != "strings.ReplaceAll" && n != "strings.Replace" {
				continue
			}
			from, ok1 := core.ConstString(cv.Call.Args[1])
			to, ok2 := core.ConstString(cv.Call.Args[2])
			if !ok1 || !ok2 || !strings.Contains(from, "http") {
				continue
			}
			sites = append(sites, cv)
			if n == "strings.Replace" {
				if k, isK := core.ConstInt(cv.Call.Args[3]); !isK || k >= 0 {
					okAll, why = false, "strings.Replace with a non-negative count does not rewrite every occurrence in the token"
				}
			}
			if strings.Contains(to, from) {
				okAll, why = false, fmt.Sprintf("replacing %q by %q is not idempotent", from, to)
			}
			// the rewritten string must be what the function hands on (returned or interned), on every path
			if fn.Signature.Results().Len() == 1 && isString(fn.Signature.Results().At(0).Type()) {
				for _, b := range fn.Blocks {
					if ret, isRet := b.Instrs[len(b.Instrs)-1].(*ssa.Return); isRet && len(ret.Results) == 1 && ret.Results[0] != ssa.Value(cv) {
						// the loop form: a phi of the parameter (nothing to rewrite) and the rewritten value
						loopForm := false
						if ph, isPhi := ret.Results[0].(*ssa.Phi); isPhi {
							loopForm = true
							for _, e := range ph.Edges {
								if e != ssa.Value(cv) && e != ssa.Value(ph) {
									if _, isPrm := e.(*ssa.Parameter); !isPrm {
										loopForm = false
									}
								}
							}
						}
						if !loopForm {
							okAll, why = false, "a path returns "+ret.Results[0].String()+" instead of the rewritten token"
						}
					}
				}
			}
		}
	}
	// the one-pass form: re.ReplaceAllString(x, R) with re compiled from the constant R+c+"+" (c one letter): every
	// occurrence of R followed by one or more c becomes R. The result contains no R+c - and so is a fixed point of
	// rewriting R+c to R - provided the first letter of R occurs nowhere else in R+c (no occurrence can then overlap a
	// rewritten stretch except at its first letter, where R is followed by something other than c).
	onePass := map[*ssa.Call]bool{}
	for _, fn := range fns {
		for _, call := range core.CallsIn(fn) {
			cv, isCall := call.(*ssa.Call)
			if !isCall || core.StaticCalleeName(&cv.Call) != "(*regexp.Regexp).ReplaceAllString" || len(cv.Call.Args) != 3 {
				continue
			}
			to, okTo := core.ConstString(cv.Call.Args[2])
			pat, okPat := regexpPatternOf(p, cv.Call.Args[0])
			if !okTo || !okPat || !strings.Contains(pat, "http") {
				continue
			}
			sites = append(sites, cv)
			onePass[cv] = true
			good := len(pat) == len(to)+2 && strings.HasPrefix(pat, to) && pat[len(pat)-1] == '+' && lettersLower(pat[:len(pat)-1]) && len(to) > 0 &&
				strings.Count(pat[:len(pat)-1], to[:1]) == 1
			if !good {
				okAll, why = false, fmt.Sprintf("replacing the matches of %q by %q is not recognised as rewriting the secure scheme to a fixed point", pat, to)
			}
			if fn.Signature.Results().Len() == 1 && isString(fn.Signature.Results().At(0).Type()) {
				for _, b := range fn.Blocks {
					if ret, isRet := b.Instrs[len(b.Instrs)-1].(*ssa.Return); isRet && len(ret.Results) == 1 && ret.Results[0] != ssa.Value(cv) {
						// the only other thing returned is the parameter itself, behind a test that it does not contain the scheme
						_, isPrm := ret.Results[0].(*ssa.Parameter)
						guarded := false
						for _, ft := range core.FactsAt(b) {
							if cc, isC := ft.Cond.(*ssa.Call); isC && !ft.Truth && core.StaticCalleeName(&cc.Call) == "strings.Contains" && cc.Call.Args[0] == ret.Results[0] {
								if k, isK := core.ConstString(cc.Call.Args[1]); isK && k == pat[:len(pat)-1] {
									guarded = true
								}
							}
						}
						if !isPrm || !guarded {
							okAll, why = false, "a path returns "+ret.Results[0].String()+" instead of the rewritten token"
						}
					}
				}
			}
		}
	}
	pos := "v2/tokenizer.go"
	if len(sites) > 0 {
		pos = p.Pos(sites[0].Pos())
	}
	// a rewrite written some other way (hand-rolled scan and copy): the function that does it is recognised by what it is
	// - a string -> string function of the package that looks for the constant scheme - and only the clauses that do not
	// depend on how it works are decided (who passes words through it); its idempotence is not
	unknownShape := map[*ssa.Function]bool{}
	if len(sites) == 0 {
		for _, fn := range fns {
			if fn.Parent() != nil || len(fn.Params) != 1 || fn.Signature.Results().Len() != 1 || !isString(fn.Params[0].Type()) || !isString(fn.Signature.Results().At(0).Type()) {
				continue
			}
			looks := false
			for _, call := range core.CallsIn(fn) {
				if !strings.HasPrefix(core.StaticCalleeName(call.Common()), "strings.") {
					continue
				}
				for _, a := range call.Common().Args {
					if sv, ok := core.ConstString(a); ok && sv == "https" {
						looks = true
					}
				}
			}
			if looks {
				unknownShape[fn] = true
			}
		}
		if len(unknownShape) == 0 {
			okAll, why = false, "no replace-all of the https scheme is applied to a word before it is interned"
		} else {
			for fn := range unknownShape {
				c.R.Info("R06.4", "the scheme rewrite is repeated until nothing is left to rewrite", p.Pos(fn.Pos()), core.ShortFn(fn)+" rewrites the scheme in a way that is not one of the recognised shapes (replace-all loop, one regular-expression pass): that its result contains no \"https\" is not decided")
			}
		}
	}
	// the rewrite runs to a fixed point (removing an "s" can bring the next one up) ...
	for _, cv := range sites {
		if onePass[cv] {
			c.R.OK("R06.4", "the scheme rewrite is repeated until nothing is left to rewrite", p.Pos(cv.Pos()), "one pass over the matches of scheme+\"s+\": nothing is left to rewrite")
			continue
		}
		from, _ := core.ConstString(cv.Call.Args[1])
		fix := false
		for _, ft := range core.FactsAt(cv.Block()) {
			if call, isCall := ft.Cond.(*ssa.Call); isCall && ft.Truth && core.StaticCalleeName(&call.Call) == "strings.Contains" {
				if k, isK := core.ConstString(call.Call.Args[1]); isK && k == from {
					fix = true
				}
			}
		}
		c.R.Check(fix, "R06.4", "the scheme rewrite is repeated until nothing is left to rewrite", p.Pos(cv.Pos()), "ReplaceAll runs in a loop guarded by strings.Contains of the same constant",
			"one pass of the rewrite can leave a new occurrence behind (\"httpss\" -> \"https\"): tokenizing the rewritten word again changes it, so the normalised text does not match like the original")
	}
	// ... and is applied to the cleaned word too: stripping punctuation can create a new occurrence
	// ("http://spdx.org" -> "httpspdxorg")
	if ct := p.Func(v2pkg, "cleanupToken"); ct != nil {
		rewriteFn := map[*ssa.Function]bool{}
		for _, cv := range sites {
			rewriteFn[cv.Parent()] = true
		}
		for fn := range unknownShape {
			rewriteFn[fn] = true
		}
		// wordThroughRewrite(f): every word f returns went through the rewrite (in f itself or in a helper it returns
		// the result of); constants, table entries and the number path cannot contain the scheme
		nRet := 0
		var through func(f *ssa.Function, depth int, report bool) bool
		through = func(f *ssa.Function, depth int, report bool) bool {
			if depth > 3 || len(f.Blocks) == 0 {
				return false
			}
			set := map[ssa.Value]bool{}
			for _, call := range core.CallsIn(f) {
				cv, isCall := call.(*ssa.Call)
				if !isCall {
					continue
				}
				g := cv.Call.StaticCallee()
				switch {
				case g != nil && rewriteFn[g]:
					set[cv] = true
				case rewriteFn[f] && (isCallTo(cv, "strings.ReplaceAll") || onePass[cv]):
					set[cv] = true
				case g != nil && g != f && core.FuncPkgPath(g) == v2pkg && g.Signature.Results().Len() == 1 && isString(g.Signature.Results().At(0).Type()) && through(g, depth+1, false):
					set[cv] = true
				}
			}
			okAll := true
			for _, b := range f.Blocks {
				ret, isRet := b.Instrs[len(b.Instrs)-1].(*ssa.Return)
				if !isRet || len(ret.Results) != 1 {
					continue
				}
				r := ret.Results[0]
				if _, isConst := r.(*ssa.Const); isConst {
					continue
				}
				if ex, isEx := r.(*ssa.Extract); isEx {
					if _, isLk := ex.Tuple.(*ssa.Lookup); isLk {
						continue
					}
				}
				if _, isLk := r.(*ssa.Lookup); isLk {
					continue
				}
				numberPath := false
				for _, ft := range core.FactsAt(b) {
					if call, isCall := ft.Cond.(*ssa.Call); isCall && ft.Truth && core.StaticCalleeName(&call.Call) == "unicode.IsDigit" {
						numberPath = true
					}
				}
				if numberPath {
					continue
				}
				dep := dependsOnAnyThroughPhi(r, set, 0)
				if report {
					nRet++
					c.R.Check(dep, "R06.4", "cleanupToken: the cleaned word passes through the scheme rewrite before it is returned", p.Pos(ret.Pos()), "the returned word is the result of the rewrite on every path",
						"stripping the punctuation out of a URL can create a new \"https\" (\"http://spdx.org\" -> \"httpspdxorg\") that the rewrite, applied only to the raw word, never sees: Normalize writes that word out and tokenizing it again rewrites it, so the normalised text matches differently from the original")
				}
				if !dep {
					okAll = false
				}
			}
			return okAll
		}
		through(ct, 0, true)
		c.R.RequireMin("R06.4", "word-returning paths of cleanupToken", nRet, 1)
	}
	if okAll {
		why = fmt.Sprintf("%d strings.ReplaceAll site(s) on the word that is interned", len(sites))
		if len(sites) == 0 {
			why = "a hand-written rewrite function is applied to the word that is interned"
		}
	}
	c.R.Check(okAll, "R06.4", "every occurrence of the https scheme inside a token is rewritten, idempotently", pos, why, why+": a URL whose scheme is not at the start of the token (e.g. \"(https://...\") is not normalised")
}

// checkHyphenTestUnguarded: R06.17. A word is split "across two lines with a trailing hyphen" wherever the writer broke it -
// also right behind its first letter. The test `the last byte of the word buffer is a hyphen` therefore stands behind
// nothing more than `the buffer is not empty`: a test of the buffer's length against a larger constant in front of it
// exempts short word beginnings from being joined.
func checkHyphenTestUnguarded(c *Ctx, p *core.Prog) {
	ts := p.Func(v2pkg, "tokenizeStream")
	if ts == nil {
		return
	}
	n := 0
	// the tokenizer and the small predicates it is split into (functions of the package that it calls directly)
	fset := []*ssa.Function{ts}
	for _, call := range core.CallsIn(ts) {
		if g := call.Common().StaticCallee(); g != nil && core.FuncPkgPath(g) == v2pkg && len(g.Blocks) > 0 && g.Signature.Results().Len() == 1 && isBool(g.Signature.Results().At(0).Type()) {
			fset = append(fset, g)
			for _, c2 := range core.CallsIn(g) {
				if g2 := c2.Common().StaticCallee(); g2 != nil && core.FuncPkgPath(g2) == v2pkg && len(g2.Blocks) > 0 && g2.Signature.Results().Len() == 1 && isBool(g2.Signature.Results().At(0).Type()) {
					fset = append(fset, g2)
				}
			}
		}
	}
	seenFn := map[*ssa.Function]bool{}
	for _, hf := range fset {
		if seenFn[hf] {
			continue
		}
		seenFn[hf] = true
		for _, b := range hf.Blocks {
			for _, in := range b.Instrs {
				bo, ok := in.(*ssa.BinOp)
				if !ok || (bo.Op != token.EQL && bo.Op != token.NEQ) {
					continue
				}
				if k, isK := core.ConstInt(bo.Y); !isK || k != '-' {
					continue
				}
				ld, ok := bo.X.(*ssa.UnOp)
				if !ok {
					continue
				}
				ia, ok := ld.X.(*ssa.IndexAddr)
				if !ok {
					continue
				}
				if base, d, okL := lenMinusOf(ia.Index); !okL || d != 1 || !sameSliceBase(base, ia.X) {
					continue
				}
				n++
				bad := ""
				for _, f := range core.FactsAt(b) {
					cmp, okC := f.AsCmp()
					if !okC {
						continue
					}
					lc, isCall := cmp.X.(*ssa.Call)
					if !isCall {
						continue
					}
					bi, isB := lc.Call.Value.(*ssa.Builtin)
					if !isB || bi.Name() != "len" || !sameSliceBase(lc.Call.Args[0], ia.X) {
						continue
					}
					k, isK := core.ConstInt(cmp.Y)
					if !isK {
						continue
					}
					// what the fact says about the least length: > k means >= k+1, >= k means >= k, != 0 means >= 1
					least := int64(0)
					switch cmp.Op {
					case token.GTR:
						least = k + 1
					case token.GEQ:
						least = k
					case token.NEQ:
						if k == 0 {
							least = 1
						}
					}
					if least > 1 {
						bad = fmt.Sprintf("len(buffer) >= %d", least)
					}
				}
				c.R.Check(bad == "", "R06.17", "tokenizeStream: the test for a trailing hyphen stands behind `the word buffer is not empty` only", p.Pos(bo.Pos()), "no test of the buffer's length against a larger constant dominates it",
					"the trailing-hyphen test is only made when "+bad+": a word that is split behind its first letter(s) is not joined with its remainder, so where a writer breaks a word changes the tokens")
			}
		}
	}
	c.R.RequireMin("R06.17", "tests of the last byte of the word buffer against a hyphen", n, 1)
}

// lenMinusOf: v is len(x) - d for a constant d.
func lenMinusOf(v ssa.Value) (ssa.Value, int64, bool) {
	bo, ok := v.(*ssa.BinOp)
	if !ok || bo.Op != token.SUB {
		return nil, 0, false
	}
	d, isK := core.ConstInt(bo.Y)
	lc, isCall := bo.X.(*ssa.Call)
	if !isK || !isCall {
		return nil, 0, false
	}
	bi, isB := lc.Call.Value.(*ssa.Builtin)
	if !isB || bi.Name() != "len" {
		return nil, 0, false
	}
	return lc.Call.Args[0], d, true
}

// checkCRBeforeHyphenJoin: R06.11. A word split with a trailing hyphen is put together again when the line feed finds the
// hyphen at the end of the word buffer. In a CR LF text the rune behind the hyphen is the carriage return, which is white
// space: if the white-space branch flushes the word for it, the line feed finds nothing to join. The flush of the word in
// the white-space branch therefore depends on a test of the rune against the carriage return.
func checkCRBeforeHyphenJoin(c *Ctx, p *core.Prog) {
	ts := p.Func(v2pkg, "tokenizeStream")
	if !c.R.Anchor(ts != nil, "v2.tokenizeStream") {
		return
	}
	var rv ssa.Value
	for _, call := range core.CallsIn(ts) {
		if n := core.StaticCalleeName(call.Common()); n == "unicode/utf8.DecodeRune" || n == "unicode/utf8.DecodeRuneInString" {
			if cv, ok := call.(*ssa.Call); ok {
				for _, r := range *cv.Referrers() {
					if ex, ok := r.(*ssa.Extract); ok && ex.Index == 0 {
						rv = ex
					}
				}
			}
		}
	}
	if rv == nil {
		c.R.Undecided("R06.11", "tokenizeStream: decoded rune", p.Pos(ts.Pos()), "cannot find the rune decoder")
		return
	}
	tcd := core.NewPostDom(ts).TransitiveControlDeps()
	n := 0
	for _, call := range core.CallsIn(ts) {
		cal := call.Common().StaticCallee()
		if cal == nil || !(p.IsFn(cal, v2pkg, "flushBuf") || strings.HasSuffix(cal.Name(), "flushBuf") || strings.HasSuffix(cal.Name(), "addWord")) {
			continue
		}
		// only the flush in the white-space branch
		inSpace := false
		for _, f := range core.FactsAtInstr(call.(ssa.Instruction)) {
			if cc, ok := f.Cond.(*ssa.Call); ok && f.Truth && core.StaticCalleeName(&cc.Call) == "unicode.IsSpace" && len(cc.Call.Args) == 1 && cc.Call.Args[0] == rv {
				inSpace = true
			}
		}
		if !inSpace {
			continue
		}
		n++
		tested := false
		for db := range tcd[call.Block()] {
			ifi, ok := db.Instrs[len(db.Instrs)-1].(*ssa.If)
			if !ok {
				continue
			}
			cond := ifi.Cond
			for {
				if u, isU := cond.(*ssa.UnOp); isU && u.Op == token.NOT {
					cond = u.X
					continue
				}
				break
			}
			// the comparison itself, or a short-circuit expression evaluated into a boolean (a phi whose value comes from
			// the blocks that end in the comparisons of the conjunction)
			var mentions func(v ssa.Value, depth int) bool
			mentions = func(v ssa.Value, depth int) bool {
				if depth > 4 {
					return false
				}
				for {
					if u, isU := v.(*ssa.UnOp); isU && u.Op == token.NOT {
						v = u.X
						continue
					}
					break
				}
				if bo, ok := v.(*ssa.BinOp); ok && (bo.Op == token.EQL || bo.Op == token.NEQ) {
					for _, pair := range [][2]ssa.Value{{bo.X, bo.Y}, {bo.Y, bo.X}} {
						if k, isK := core.ConstInt(pair[1]); isK && k == '\r' && pair[0] == rv {
							return true
						}
					}
				}
				// a predicate of the package that is handed the rune and compares it with the carriage return itself
				if call, ok := v.(*ssa.Call); ok {
					if g := call.Call.StaticCallee(); g != nil && core.FuncPkgPath(g) == v2pkg && len(g.Blocks) > 0 {
						for k, a := range call.Call.Args {
							if a != rv || k >= len(g.Params) {
								continue
							}
							for _, gb := range g.Blocks {
								for _, gi := range gb.Instrs {
									if bo, isBo := gi.(*ssa.BinOp); isBo && (bo.Op == token.EQL || bo.Op == token.NEQ) && bo.X == ssa.Value(g.Params[k]) {
										if kk, isK := core.ConstInt(bo.Y); isK && kk == '\r' {
											return true
										}
									}
								}
							}
						}
					}
				}
				if ph, ok := v.(*ssa.Phi); ok && isBool(ph.Type()) {
					for k, e := range ph.Edges {
						if mentions(e, depth+1) {
							return true
						}
						pb := ph.Block().Preds[k]
						if pif, ok := pb.Instrs[len(pb.Instrs)-1].(*ssa.If); ok && mentions(pif.Cond, depth+1) {
							return true
						}
					}
				}
				return false
			}
			if mentions(cond, 0) {
				tested = true
			}
		}
		c.R.Check(tested, "R06.11", "tokenizeStream: white space flushes the open word only after the rune was tested against the carriage return", p.Pos(call.Pos()),
			"the flush is control dependent on r == '\\r'", "the carriage return of a CR LF line end flushes a word that ends in a hyphen before the line feed can join it with its remainder: in a CR LF text a word split over a line break stays two words")
	}
	c.R.RequireMin("R06.11", "word flushes in the white-space branch", n, 1)
}

// checkPseudoMatchSegregation: R06.2. The slice iterated by the overlap filter must not contain the
// tokenizer's Copyright pseudo-matches, unless the keep/drop decision looks at the element's type.
func checkPseudoMatchSegregation(c *Ctx, p *core.Prog) {
	m := p.Func(v2pkg, "(*Classifier).match")
	if !c.R.Anchor(m != nil, "v2.(*Classifier).match") {
		return
	}
	// the filter: the loop nest that stores into `retain`; its subject: the slice it ranges over
	var retainStores []*ssa.Store
	for _, b := range m.Blocks {
		for _, in := range b.Instrs {
			if st, ok := in.(*ssa.Store); ok {
				if ia, ok := st.Addr.(*ssa.IndexAddr); ok {
					if mk, ok := ia.X.(*ssa.MakeSlice); ok && strings.Contains(mk.Type().String(), "bool") {
						retainStores = append(retainStores, st)
					}
				}
			}
		}
	}
	if len(retainStores) == 0 {
		c.R.OK("R06.2", "match: no line-range overlap filter", p.Pos(m.Pos()), "nothing drops matches by line range")
		return
	}
	// does the candidate family receive indexedDocument.Matches?
	mixes := false
	var mixPos token.Pos
	for _, call := range core.CallsIn(m) {
		bi, ok := call.Common().Value.(*ssa.Builtin)
		if !ok || bi.Name() != "append" || len(call.Common().Args) != 2 {
			continue
		}
		src := call.Common().Args[1]
		if ct, ok := src.(*ssa.ChangeType); ok {
			src = ct.X
		}
		if isDocField(src, func(r *v2Roles) string { return r.matches }) {
			mixes = true
			mixPos = call.Pos()
		}
	}
	// does any branch that decides keep/drop look at MatchType or Name?
	looks := false
	for _, st := range retainStores {
		pd := core.NewPostDom(m)
		for d := range pd.TransitiveControlDeps()[st.Block()] {
			if ifi, ok := d.Instrs[len(d.Instrs)-1].(*ssa.If); ok {
				s := core.AP(ifi.Cond)
				if strings.Contains(s, ".MatchType") || strings.Contains(s, ".Name") {
					looks = true
				}
			}
		}
	}
	switch {
	case !mixes:
		c.R.OK("R06.2", "match: Copyright pseudo-matches do not pass through the overlap filter", p.Pos(m.Pos()), "indexedDocument.Matches is not appended to the filtered candidates")
	case looks:
		c.R.OK("R06.2", "match: the overlap filter distinguishes pseudo-matches", p.Pos(mixPos), "keep/drop decision depends on MatchType/Name")
	default:
		c.R.Fail("R06.2", "match: Copyright pseudo-matches are filtered by line range together with license matches", p.Pos(mixPos), "the tokenizer's Copyright matches are appended to the candidates that the overlap filter prunes by line range alone: a copyright line inside a license's line range is dropped instead of being reported")
	}
}

// ---------------------------------------------------------------------------------------------
// C11

func runC11(c *Ctx) {
	p := v2Prog(c)
	if p == nil {
		return
	}
	// shared with C06: a cleaned word is a fixed point of the tokenizer (R06.4: the scheme rewrite also runs on the cleaned
	// word), and whether a line is a notice is decided for every line, wherever it starts (R06.6): otherwise Normalize writes
	// words that Match of the normalized text treats differently
	checkSchemeRewrite(c, p)
	checkNoticePatternsUnconditional(c, p)
	// shared with C06: list markers are dropped at the start of a line by Match and by Normalize alike only if the position
	// offset of a line ends with that line in both modes (R06.9/R06.10)
	checkMidLineReset(c, p)
	// shared with C08: Normalize moves the bytes of the text to other offsets, so the original and its normalized form agree
	// only if no word depends on where the read window happens to end (R08.4/R08.5/R08.8)
	tokenizerWindowRules(c, p)
	// shared with C01: the notice lines that Normalize removes are candidates in the original: a candidate list with a fixed
	// capacity makes the original and its normalized form disagree once there are enough of them (R01.9)
	checkNoCandidateCap(c, p)
	// shared with C04: Normalize leaves the classifier as it found it - words interned in the classifier's own dictionary
	// change how the Match that follows reads the same text (R04.1)
	if nzf := p.Func(v2pkg, "(*Classifier).Normalize"); nzf != nil {
		runEffects(c, p, "R04.1", effectRoot{fn: nzf, name: "(*Classifier).Normalize", params: provParams(nzf, eng.Shared, eng.Input)}, matchScope, false)
	}
	ts := p.Func(v2pkg, "tokenizeStream")
	if !c.R.Anchor(ts != nil, "v2.tokenizeStream") {
		return
	}
	// R11.12: the letters of a word are lower-cased whether the text is being normalised or only tokenised: the later steps
	// that both passes share (character references, notice patterns) are case-sensitive, so a word that keeps its case in one
	// pass only comes out as another word
	{
		var strictLowered func(v ssa.Value, depth int) bool
		strictLowered = func(v ssa.Value, depth int) bool {
			if depth > 6 {
				return false
			}
			switch x := v.(type) {
			case *ssa.Call:
				return core.StaticCalleeName(&x.Call) == "unicode.ToLower"
			case *ssa.Phi:
				for _, e := range x.Edges {
					if !strictLowered(e, depth+1) {
						return false
					}
				}
				return len(x.Edges) > 0
			}
			return false
		}
		nA := 0
		for _, call := range core.CallsIn(ts) {
			if core.StaticCalleeName(call.Common()) != "unicode/utf8.AppendRune" {
				continue
			}
			// the first rune of a word is exempt: Normalize keeps the case of the first letter (a leading `&` or letter cannot
			// be the inside of a character reference)
			first := false
			for _, f := range core.FactsAt(call.Block()) {
				if cmp, ok := f.AsCmp(); ok && cmp.Op == token.EQL {
					if k, isK := core.ConstInt(cmp.Y); isK && k == 0 {
						if lc, isCall := cmp.X.(*ssa.Call); isCall {
							if bi, isB := lc.Call.Value.(*ssa.Builtin); isB && bi.Name() == "len" {
								first = true
							}
						}
					}
				}
			}
			if first {
				continue
			}
			nA++
			c.R.Check(strictLowered(call.Common().Args[1], 0), "R11.12", "tokenizeStream: a rune appended behind the first one of a word is lower-cased in both passes", p.Pos(call.Pos()),
				"unicode.ToLower(...) on every path, whatever the normalize flag", "on some path (the one taken when the text is only tokenised, not normalised) the rune reaches the word buffer with its case: Normalize and Match then disagree on words whose later treatment is case-sensitive (character references such as &Quot;)")
		}
		c.R.RequireMin("R11.12", "runes appended to the word buffer", nA, 1)
	}
	// R11.13: what the punctuation table does to a rune inside a word does not depend on the normalize flag: typographic
	// dashes become hyphens, (c) signs become "(c)" in both passes - otherwise a word with such a rune is one token for Match and
	// another in the text Normalize writes
	{
		flag := ts.Params[1]
		cd := core.NewPostDom(ts).TransitiveControlDeps()
		nT, bad := 0, ""
		for _, b := range ts.Blocks {
			for _, in := range b.Instrs {
				ex, ok := in.(*ssa.Extract)
				if !ok || ex.Index != 1 {
					continue
				}
				isTable := false
				switch t := ex.Tuple.(type) {
				case *ssa.Lookup:
					if ld, isLd := t.X.(*ssa.UnOp); isLd {
						if g, isG := ld.X.(*ssa.Global); isG && strings.Contains(strings.ToLower(g.Name()), "punctuation") {
							isTable = true
						}
					}
				case *ssa.Call:
					if cal := t.Call.StaticCallee(); cal != nil && strings.Contains(strings.ToLower(cal.Name()), "punctuation") {
						isTable = true
					}
				}
				if !isTable {
					continue
				}
				nT++
				// the blocks that run when the rune was found in the table
				for _, tb := range ts.Blocks {
					underFound, underFlag := false, false
					for d := range cd[tb] {
						ifi, isIf := d.Instrs[len(d.Instrs)-1].(*ssa.If)
						if !isIf {
							continue
						}
						if ifi.Cond == ssa.Value(ex) {
							underFound = true
						}
						if ifi.Cond == ssa.Value(flag) && d.Dominates(tb) && b.Dominates(d) {
							underFlag = true
						}
					}
					if underFound && underFlag {
						bad = p.Pos(tb.Instrs[0].Pos())
					}
				}
				// ... and the lookup itself
				for d := range cd[b] {
					if ifi, isIf := d.Instrs[len(d.Instrs)-1].(*ssa.If); isIf && ifi.Cond == ssa.Value(flag) {
						bad = p.Pos(in.Pos())
					}
				}
			}
		}
		c.R.Check(bad == "", "R11.13", "tokenizeStream: the punctuation table is applied whatever the normalize flag", p.Pos(ts.Pos()), fmt.Sprintf("%d lookups in the punctuation table", nT),
			"what happens to a rune that the punctuation table knows depends on the normalize flag (at "+bad+"): Match maps a typographic hyphen, dash or (c) sign inside a word, Normalize's pass does not, so the word is read differently in the original and in its normalized form")
		c.R.Count("R11.13:lookups in the punctuation table", nT)
	}
	// R11.1: flag independence of the line counter and of every Line stored
	for _, fn := range []*ssa.Function{ts, p.Func(v2pkg, "stringifyLineBuf"), p.Func(v2pkg, "appendToDoc")} {
		if fn == nil {
			continue
		}
		checkLineFlagIndependence(c, p, fn)
	}
	// R11.2
	nz := p.Func(v2pkg, "(*Classifier).Normalize")
	if c.R.Anchor(nz != nil, "v2.(*Classifier).Normalize") {
		uses := false
		for _, call := range core.CallsIn(nz) {
			if call.Common().StaticCallee() == ts {
				uses = true
			}
		}
		c.R.Check(uses, "R11.2", "Normalize tokenises with the same tokenizeStream as Match", p.Pos(nz.Pos()), "calls tokenizeStream", "Normalize does not use the tokenizer Match uses: their notion of words and lines can differ")
		// ... on the very bytes it was given (Match tokenises its input unchanged - R08.2 - so any preprocessing here
		// makes the two see different texts), and match hands its reader to the tokenizer as it is
		for _, call := range core.CallsIn(nz) {
			if call.Common().StaticCallee() != ts {
				continue
			}
			okIn, why := false, "the reader given to the tokenizer is not bytes.NewReader(in) of the unmodified argument"
			arg := call.Common().Args[0]
			if mi, isMI := arg.(*ssa.MakeInterface); isMI {
				arg = mi.X
			}
			if rc, isCall := arg.(*ssa.Call); isCall && core.StaticCalleeName(&rc.Call) == "bytes.NewReader" {
				if core.Unspill(rc.Call.Args[0]) == ssa.Value(nz.Params[1]) {
					okIn, why = true, "tokenizeStream(bytes.NewReader(in), ...) with in the parameter"
				}
			}
			c.R.Check(okIn, "R11.2", "Normalize tokenises exactly the bytes it was given", p.Pos(call.Pos()), why, why+": Normalize preprocesses its input (line endings, trimming, ...) while Match does not, so the words and lines of the normalised text differ from those Match reports for the original")
		}
		if m := p.Func(v2pkg, "(*Classifier).match"); m != nil && len(m.Params) >= 2 {
			for _, call := range core.CallsIn(m) {
				if call.Common().StaticCallee() != ts {
					continue
				}
				okIn := core.Unspill(call.Common().Args[0]) == ssa.Value(m.Params[1])
				c.R.Check(okIn, "R11.2", "match hands its reader to the tokenizer as it is", p.Pos(call.Pos()), "tokenizeStream(in, ...) with in the parameter",
					"the tokenizer reads from a wrapped or limited reader, not from the reader match was given: Match sees a different (shorter, filtered) text than Normalize writes out")
			}
		}
		e := eng.NewExplorer(p, matchScope...)
		ret := e.Run(nz, provParams(nz, eng.Shared, eng.Input))
		fresh := len(ret) > 0 && ret[0]&^eng.Fresh == 0
		c.R.Check(fresh, "R11.2", "Normalize returns memory allocated by the call", p.Pos(nz.Pos()), "result provenance "+provOf(ret), "result provenance "+provOf(ret)+": the returned bytes are shared (pooled buffer, classifier state or the input), so a later call can rewrite an earlier result")
	}
	// R11.5 end-of-line tokens are never written out as words
	if nz != nil {
		checkNormalizeEOLGuard(c, p, nz)
	}
	// R11.3
	pats, ok := globalRegexTable(p, v2pkg, "ignorableTexts")
	if !ok || len(pats) == 0 {
		c.R.Undecided("R11.3", "ignorableTexts table", "v2/tokenizer.go", "cannot read the patterns from the package initialiser")
	} else {
		c.R.RequireMin("R11.3", "ignorable-line patterns", len(pats), 1)
		for _, pat := range pats {
			c.R.Check(strings.HasPrefix(pat, "(?i)"), "R11.3", "ignorableTexts pattern is case-insensitive: "+pat, "v2/tokenizer.go", "(?i)", "Normalize tokenises without lower-casing, so a case-sensitive pattern does not recognise a capitalised notice line that Match (lower-cased) does recognise: the two disagree on which lines are removed")
		}
	}
	// R11.4 number clean-up
	if ct := p.Func(v2pkg, "cleanupToken"); c.R.Anchor(ct != nil, "v2.cleanupToken") {
		checkNoTrailingDot(c, p, ct)
	}
	checkWordTable(c, p)
	checkNoticeDecisionOnCleanedLine(c, p)
	checkNumberWordsAndLocalDictionary(c, p)
	checkTokenizerCallArgsAgree(c, p)
	checkRound12Tokenizer(c, p, map[string]bool{"R11.18": true})
	// shared with C10: Match of the original and of the normalised text both return: a table indexed by line numbers is a map
	// or tested against its length (R10.12) - the notices Normalize removes leave no token
	checkLineKeyedTables(c, p, v2LibFuncs(p))
	checkCaseFoldedLookups(c, p, ts)
	checkSpellingLookupOnCleanText(c, p)
	// R11.6 the normalised text is returned as it was written: line k of the result is line k of the input
	if nz != nil {
		n := 0
		for _, b := range nz.Blocks {
			ret, ok := b.Instrs[len(b.Instrs)-1].(*ssa.Return)
			if !ok || len(ret.Results) != 1 {
				continue
			}
			n++
			v := ret.Results[0]
			bad := ""
			for d := 0; d < 4; d++ {
				call, isCall := v.(*ssa.Call)
				if !isCall {
					break
				}
				name := core.StaticCalleeName(&call.Call)
				switch name {
				case "bytes.TrimSpace", "bytes.Trim", "bytes.TrimLeft", "bytes.TrimLeftFunc", "bytes.TrimFunc", "bytes.TrimPrefix",
					"strings.TrimSpace", "strings.Trim", "strings.TrimLeft", "strings.TrimLeftFunc", "strings.TrimFunc", "strings.TrimPrefix":
					bad = name
				}
				if len(call.Call.Args) == 0 {
					break
				}
				v = call.Call.Args[0]
				if cv, isCv := v.(*ssa.Convert); isCv {
					v = cv.X
				}
			}
			c.R.Check(bad == "", "R11.6", "Normalize returns the text it wrote without trimming its beginning", p.Pos(ret.Pos()), "the buffer's contents are returned as written",
				"the result passes through "+bad+": leading line breaks stand for input lines without words (blank lines, removed notices), so trimming them moves every word to an earlier line than Match reports")
		}
		c.R.RequireMin("R11.6", "return statements of Normalize", n, 1)
	}
	// R11.8 the word that is interned went through HTML unescaping whatever the flags
	nU := 0
	for _, fn := range v2Funcs(p) {
		set := map[ssa.Value]bool{}
		for _, call := range core.CallsIn(fn) {
			if core.StaticCalleeName(call.Common()) == "html.UnescapeString" {
				if v := call.Value(); v != nil {
					set[v] = true
				}
			}
		}
		if len(set) == 0 {
			continue
		}
		for _, call := range core.CallsIn(fn) {
			cal := call.Common().StaticCallee()
			if cal == nil || !p.IsFn(cal, v2pkg, "(*dictionary).add") || len(call.Common().Args) < 2 {
				continue
			}
			nU++
			dep := dependsOnAnyThroughPhi(call.Common().Args[1], set, 0)
			c.R.Check(dep, "R11.8", core.ShortFn(fn)+": every word interned by the word flush is the unescaped word", p.Pos(call.Pos()), "the interned text is computed from html.UnescapeString(word) on every path",
				"a path interns the word without HTML unescaping (e.g. only for one value of the normalize flag): Normalize and Match then see different words for input that contains character references")
		}
	}
	c.R.RequireMin("R11.8", "interning sites in the word flush", nU, 1)
}

// dependsOnAnyThroughPhi: like dependsOnAny, but a phi depends on the set only if every edge does.
func dependsOnAnyThroughPhi(v ssa.Value, set map[ssa.Value]bool, depth int) bool {
	if set[v] {
		return true
	}
	if depth > 8 {
		return false
	}
	if phi, ok := v.(*ssa.Phi); ok {
		for _, e := range phi.Edges {
			if e == v {
				continue
			}
			if !dependsOnAnyThroughPhi(e, set, depth+1) {
				return false
			}
		}
		return true
	}
	in, ok := v.(ssa.Instruction)
	if !ok {
		return false
	}
	for _, op := range in.Operands(nil) {
		if *op != nil && dependsOnAnyThroughPhi(*op, set, depth+1) {
			return true
		}
	}
	return false
}

// checkNoticePatternsUnconditional: R06.6. Whether a line is a notice is decided by the ignorableTexts patterns alone: in
// the function that turns a line's words into tokens, the patterns are consulted on every path that goes on to produce
// tokens (no cheaper pre-test decides that a line cannot be a notice).
func checkNoticePatternsUnconditional(c *Ctx, p *core.Prog) {
	g := p.Global(v2pkg, "ignorableTexts")
	if !c.R.Anchor(g != nil, "v2.ignorableTexts") {
		return
	}
	n := 0
	// functions that consult the patterns themselves
	direct := map[*ssa.Function]bool{}
	for _, fn := range v2Funcs(p) {
		for _, b := range fn.Blocks {
			for _, in := range b.Instrs {
				if u, ok := in.(*ssa.UnOp); ok && u.X == ssa.Value(g) {
					direct[fn] = true
				}
			}
		}
	}
	consults := func(f *ssa.Function) bool {
		for _, h := range pkgClosure(f, v2pkg) {
			if direct[h] {
				return true
			}
		}
		return false
	}
	for _, fn := range v2Funcs(p) {
		// consult sites: loads of the table, and calls of helpers that consult it
		var sites []ssa.Instruction
		for _, b := range fn.Blocks {
			for _, in := range b.Instrs {
				if u, ok := in.(*ssa.UnOp); ok && u.X == ssa.Value(g) {
					sites = append(sites, u)
				}
				if call, ok := in.(*ssa.Call); ok {
					if cal := call.Call.StaticCallee(); cal != nil && cal != fn && core.FuncPkgPath(cal) == v2pkg && len(cal.Blocks) > 0 && consults(cal) {
						// only helpers that return a verdict (a boolean), not the callers of this function
						if cal.Signature.Results().Len() == 1 && isBool(cal.Signature.Results().At(0).Type()) && consultsOnEveryPath(cal, g) {
							sites = append(sites, call)
						}
					}
				}
			}
		}
		if len(sites) == 0 {
			continue
		}
		for _, lit := range structLits([]*ssa.Function{fn}, "/v2.indexedToken") {
			n++
			dom := false
			for _, st := range sites {
				if st.Block().Dominates(lit.alloc.Block()) {
					dom = true
				}
			}
			c.R.Check(dom, "R06.6", core.ShortFn(fn)+": the notice patterns are consulted before any token of the line is produced", p.Pos(lit.alloc.Pos()),
				"the range over ignorableTexts dominates the token loop", "a path reaches the token loop without consulting the notice patterns (a pre-test stands in for them): a notice line the pre-test does not anticipate is tokenised as text")
		}
		// ... or the tokens are produced by a helper this function calls: the call stands behind the patterns
		for _, call := range core.CallsIn(fn) {
			h := call.Common().StaticCallee()
			if h == nil || h == fn || core.FuncPkgPath(h) != v2pkg || len(h.Blocks) == 0 || direct[h] {
				continue
			}
			if len(structLits([]*ssa.Function{h}, "/v2.indexedToken")) == 0 {
				continue
			}
			n++
			dom := false
			for _, st := range sites {
				if st.Block().Dominates(call.Block()) {
					dom = true
				}
			}
			c.R.Check(dom, "R06.6", core.ShortFn(fn)+": the notice patterns are consulted before any token of the line is produced", p.Pos(call.Pos()),
				"the range over ignorableTexts dominates the call that produces the tokens", "a path reaches the production of the tokens without consulting the notice patterns (a pre-test stands in for them): a notice line the pre-test does not anticipate is tokenised as text")
		}
	}
	c.R.RequireMin("R06.6", "token literals behind the notice patterns", n, 1)
	// R05.9: whether a line is a notice is decided by its text: no test of a pattern stands behind a condition on one of the
	// function's integer parameters (the line number, the position in the line) - blank lines inserted above a notice must not
	// turn it into text
	nM, badM := 0, ""
	for fn := range direct {
		cdeps := core.NewPostDom(fn).TransitiveControlDeps()
		var ints []*ssa.Parameter
		for _, prm := range fn.Params {
			if bt, ok := prm.Type().Underlying().(*types.Basic); ok && bt.Kind() == types.Int {
				ints = append(ints, prm)
			}
		}
		for _, call := range core.CallsIn(fn) {
			if core.StaticCalleeName(call.Common()) != "(*regexp.Regexp).MatchString" {
				continue
			}
			nM++
			for d := range cdeps[call.Block()] {
				ifi, ok := d.Instrs[len(d.Instrs)-1].(*ssa.If)
				if !ok {
					continue
				}
				seen := map[ssa.Value]bool{}
				var walk func(v ssa.Value) bool
				walk = func(v ssa.Value) bool {
					if v == nil || seen[v] {
						return false
					}
					seen[v] = true
					for _, ip := range ints {
						if v == ssa.Value(ip) {
							return true
						}
					}
					// the condition is computed from the parameter by arithmetic and comparisons (not: a string that was
					// built by a helper that was also handed the position)
					switch v.(type) {
					case *ssa.BinOp, *ssa.UnOp, *ssa.Phi, *ssa.Convert:
					default:
						return false
					}
					if vi, ok := v.(ssa.Instruction); ok {
						for _, op := range vi.Operands(nil) {
							if walk(*op) {
								return true
							}
						}
					}
					return false
				}
				if walk(ifi.Cond) {
					badM = core.ShortFn(fn) + " (" + p.Pos(ifi.Cond.Pos()) + ")"
				}
			}
		}
	}
	c.R.Check(badM == "", "R05.9", "v2: a notice pattern is applied whatever the line's number or position", v2pkg, fmt.Sprintf("%d pattern tests, none behind a condition on an integer parameter", nM),
		"a test of a notice pattern stands behind a condition on the line number or position in "+badM+": the same line is a notice or text depending on where it stands, so inserting blank lines above it changes the tokens")
}

// checkMidLineReset: R06.9. List markers are recognised by their position in the line (first word). The tokenizer hands
// the words collected so far to the document and empties its line buffer not only at a line break but also in the
// middle of a line (after the remainder of a hyphenated word). The words that follow are then first in the buffer but
// not first in their line: on the path of such a reset a loop-carried integer - the one that reaches the position
// argument of the token clean-up through the hand-over call - must be set to a non-zero constant.
func checkMidLineReset(c *Ctx, p *core.Prog) {
	ts := p.Func(v2pkg, "tokenizeStream")
	if ts == nil {
		return
	}
	isNL := func(b *ssa.BasicBlock) bool {
		for _, f := range core.FactsAt(b) {
			if bo, ok := f.Cond.(*ssa.BinOp); ok && bo.Op == token.EQL && f.Truth {
				if k, isK := core.ConstInt(bo.Y); isK && k == '\n' {
					return true
				}
			}
		}
		return false
	}
	// hand-over calls: calls with a line parameter (an int stored into Line fields) and a slice argument
	type handOver struct {
		call *ssa.Call
		buf  ssa.Value
	}
	var hos []handOver
	for _, call := range core.CallsIn(ts) {
		cv, ok := call.(*ssa.Call)
		f := call.Common().StaticCallee()
		if !ok || f == nil || core.FuncPkgPath(f) != v2pkg {
			continue
		}
		hasLine := false
		var buf ssa.Value
		for i, a := range cv.Call.Args {
			if i < len(f.Params) && isLineParam(f, i, 0) {
				hasLine = true
			}
			if _, isSl := a.Type().Underlying().(*types.Slice); isSl {
				buf = a
			}
		}
		if hasLine && buf != nil {
			hos = append(hos, handOver{cv, buf})
		}
	}
	n := 0
	for _, ho := range hos {
		if isNL(ho.call.Block()) {
			continue
		}
		// is the buffer emptied after this hand-over (a nil / empty value flows into its web from this block)?
		reset := false
		for v := range sliceFamily(ho.buf) {
			ph, ok := v.(*ssa.Phi)
			if !ok {
				continue
			}
			for k, e := range ph.Edges {
				pb := ph.Block().Preds[k]
				if pb != ho.call.Block() && !ho.call.Block().Dominates(pb) {
					continue
				}
				if cst, isC := e.(*ssa.Const); isC && cst.Value == nil {
					reset = true
				}
			}
		}
		if !reset {
			continue
		}
		n++
		// an integer argument of a hand-over call whose web receives a non-zero constant from this block
		marked := false
		for _, ho2 := range hos {
			for _, a := range ho2.call.Call.Args {
				ph, ok := a.(*ssa.Phi)
				if !ok {
					continue
				}
				if bt, isB := ph.Type().Underlying().(*types.Basic); !isB || bt.Kind() != types.Int {
					continue
				}
				seen := map[ssa.Value]bool{}
				var walk func(x ssa.Value)
				walk = func(x ssa.Value) {
					px, ok := x.(*ssa.Phi)
					if !ok || seen[x] {
						return
					}
					seen[x] = true
					for k, e := range px.Edges {
						pb := px.Block().Preds[k]
						if k2, isK := core.ConstInt(e); isK && k2 != 0 && (pb == ho.call.Block() || ho.call.Block().Dominates(pb)) {
							marked = true
						}
						walk(e)
					}
				}
				walk(ph)
			}
		}
		c.R.Check(marked, "R06.9", "tokenizeStream: after the line buffer is emptied in the middle of a line, the following words are not taken for the start of a line", p.Pos(ho.call.Pos()),
			"the position offset handed over with the next buffer is set to a non-zero constant on this path", "the words that follow on the same line are collected in a fresh buffer and the first of them gets position 0: if it looks like a list marker (\"2)\", \"10.\") it is dropped, so a hyphen-split word changes the tokens that follow it")
	}
	c.R.Count("R06.9:mid-line resets of the line buffer", n)

	// R06.10: the other direction. The offset says "words of this line were already handed over"; it belongs to one line.
	// Every pass through the line-break branch that counts the line break (the line number that flows back to the head of the
	// rune loop is not the old one) also takes the offset back to zero - whatever else that pass did (empty line, blanks
	// only). An offset that survives a line break makes the first word of the next line look like a word in mid-line: a
	// list marker there is kept as a token.
	var dec ssa.Instruction
	for _, call := range core.CallsIn(ts) {
		if core.StaticCalleeName(call.Common()) == "unicode/utf8.DecodeRune" {
			dec = call.(ssa.Instruction)
		}
	}
	if dec == nil {
		return
	}
	var header *ssa.BasicBlock
	for d := dec.Block(); d != nil && header == nil; d = d.Idom() {
		for _, pr := range d.Preds {
			if d.Dominates(pr) {
				header = d
			}
		}
	}
	if header == nil {
		return
	}
	var linePhi *ssa.Phi
	var offPhis []*ssa.Phi
	isOffsetArg := func(ph *ssa.Phi) bool {
		web := map[ssa.Value]bool{}
		var grow func(x ssa.Value)
		grow = func(x ssa.Value) {
			if web[x] {
				return
			}
			web[x] = true
			if refs := x.Referrers(); refs != nil {
				for _, r := range *refs {
					if p2, ok := r.(*ssa.Phi); ok {
						grow(p2)
					}
				}
			}
		}
		grow(ph)
		for _, ho := range hos {
			f := ho.call.Call.StaticCallee()
			for i, a := range ho.call.Call.Args {
				if web[a] && f != nil && i < len(f.Params) && !isLineParam(f, i, 0) {
					return true
				}
			}
		}
		return false
	}
	for _, in := range header.Instrs {
		ph, ok := in.(*ssa.Phi)
		if !ok {
			break
		}
		if bt, isB := ph.Type().Underlying().(*types.Basic); !isB || bt.Kind() != types.Int {
			continue
		}
		if flowsToLine(ph) {
			linePhi = ph
		} else if isOffsetArg(ph) {
			offPhis = append(offPhis, ph)
		}
	}
	if linePhi == nil || len(offPhis) == 0 {
		c.R.Count("R06.10:offset variables of the rune loop", 0)
		return
	}
	c.R.Count("R06.10:offset variables of the rune loop", len(offPhis))
	var zero func(v ssa.Value, own *ssa.Phi, depth int) bool
	zero = func(v ssa.Value, own *ssa.Phi, depth int) bool {
		if depth > 6 {
			return false
		}
		if k, ok := core.ConstInt(v); ok {
			return k == 0
		}
		if ph, ok := v.(*ssa.Phi); ok && ph != own && isNL(ph.Block()) {
			for _, e := range ph.Edges {
				if !zero(e, own, depth+1) {
					return false
				}
			}
			return true
		}
		return false
	}
	for _, off := range offPhis {
		nEdges, bad := 0, ""
		for k, pb := range header.Preds {
			if !header.Dominates(pb) || !isNL(pb) {
				continue
			}
			if linePhi.Edges[k] == ssa.Value(linePhi) {
				continue // the line break was not counted on this path (held back for a hyphenated word)
			}
			nEdges++
			if !zero(off.Edges[k], off, 0) {
				bad = "on a path through the line-break branch that counts the line break the offset that flows back to the head of the loop is " + valName(off.Edges[k]) + ", not 0"
			}
		}
		c.R.Check(bad == "" && nEdges > 0, "R06.10", "tokenizeStream: a counted line break takes the position offset of the line back to zero", p.Pos(off.Pos()),
			fmt.Sprintf("%d ways back to the head of the rune loop from the line-break branch with the line count advanced: the offset is 0 on each", nEdges),
			bad+": the mark \"words of this line were already handed over\" survives the line break (a line with blanks only, an empty line), and a list marker at the start of the next line is kept as a token")
	}
}

// checkMarkerTableDecides: R06.8. The property lists "1.", "a)", "iv.", "3.1." as markers: the closing character is
// any of those the marker test dispatches on, for table markers as for numbers. So once the word (without its closing
// character) is found in the list-marker table, the test answers yes - no further condition on the closing character.
// markerWords reads the words of the list-marker table where they are constants: the keys of a map literal, or the
// pieces of a constant string that the table is split from.
func markerWords(p *core.Prog, g *ssa.Global) (map[string]bool, bool) {
	if tab, ok := globalMapLiteral(p, v2pkg, g.Name()); ok && len(tab) > 0 {
		out := map[string]bool{}
		for k := range tab {
			out[k] = true
		}
		return out, true
	}
	// built by an initialiser function: strings.Split / strings.Fields of a constant
	out := map[string]bool{}
	for _, fn := range append(p.SrcFuncs(v2pkg), p.InitFuncs(v2pkg)...) {
		isInit := fn.Name() == "init" || strings.HasPrefix(fn.Name(), "init$") || strings.HasPrefix(fn.Name(), "init#")
		stores := false
		for _, b := range fn.Blocks {
			for _, in := range b.Instrs {
				if st, ok := in.(*ssa.Store); ok && st.Addr == ssa.Value(g) {
					stores = true
				}
			}
		}
		if !stores && !isInit {
			continue
		}
		for _, f := range append([]*ssa.Function{fn}, fn.AnonFuncs...) {
			for _, call := range core.CallsIn(f) {
				n := core.StaticCalleeName(call.Common())
				if n != "strings.Split" && n != "strings.Fields" {
					continue
				}
				if sv, ok := core.ConstString(call.Common().Args[0]); ok && len(sv) > 20 {
					for _, w := range strings.Fields(sv) {
						out[w] = true
					}
				}
			}
		}
	}
	return out, len(out) > 0
}

// romanValue: the value of a lower-case roman numeral in canonical form (1..39), or 0.
func romanValue(s string) int {
	canon := []string{"", "i", "ii", "iii", "iv", "v", "vi", "vii", "viii", "ix"}
	for tens := 0; tens <= 3; tens++ {
		for ones := 0; ones <= 9; ones++ {
			if tens == 0 && ones == 0 {
				continue
			}
			if strings.Repeat("x", tens)+canon[ones] == s {
				return tens*10 + ones
			}
		}
	}
	return 0
}

// checkRomanMarkers: R06.13 on the words of the list-marker table.
func checkRomanMarkers(c *Ctx, p *core.Prog, words map[string]string, pos string) {
	have := map[int]bool{}
	max := 0
	for w := range words {
		if v := romanValue(w); v > 0 {
			have[v] = true
			if v > max {
				max = v
			}
		}
	}
	var missing []string
	for v := 1; v <= max; v++ {
		if !have[v] {
			missing = append(missing, fmt.Sprint(v))
		}
	}
	c.R.Check(len(missing) == 0 && max >= 5, "R06.13", "the roman numerals of the list-marker table run from i to their maximum without a hole", pos,
		fmt.Sprintf("numerals 1..%d all present", max), "the table has roman numerals up to "+fmt.Sprint(max)+" but not "+strings.Join(missing, ", ")+": that item of a numbered list keeps its marker as a word and the text no longer matches")
}

func checkMarkerTableDecides(c *Ctx, p *core.Prog) {
	g := p.Global(v2pkg, "listMarker")
	if g == nil {
		if tab, tf, ok := funcTable(p, v2pkg, "listMarker"); ok {
			// the table is a function over the word: its rows are read by evaluating it; how it is consulted (R06.8) is a
			// call, not a map lookup, and is not examined
			checkRomanMarkers(c, p, tab, p.Pos(tf.Pos()))
			c.R.Info("R06.8", "the list-marker table is the function "+tf.Name(), p.Pos(tf.Pos()), "not decided: the rule is written over lookups in a table variable")
			return
		}
	}
	if !c.R.Anchor(g != nil, "v2.listMarker") {
		return
	}
	// R06.13: the roman numerals of the table form a range without holes: a list that is numbered i. ii. ... runs through
	// every numeral up to its length
	if words, ok := markerWords(p, g); ok {
		tab := map[string]string{}
		for w := range words {
			tab[w] = "true"
		}
		checkRomanMarkers(c, p, tab, p.Pos(g.Pos()))
	} else {
		c.R.Info("R06.13", "list-marker table", p.Pos(g.Pos()), "the words of the table are not constants of the initialiser: not read")
	}
	n := 0
	for _, fn := range v2Funcs(p) {
		for _, b := range fn.Blocks {
			for _, in := range b.Instrs {
				lk, ok := in.(*ssa.Lookup)
				if !ok {
					continue
				}
				ld, ok := lk.X.(*ssa.UnOp)
				if !ok || ld.X != ssa.Value(g) {
					continue
				}
				n++
				// the branch on the lookup result
				var res ssa.Value = lk
				if lk.CommaOk {
					for _, r := range *lk.Referrers() {
						if ex, isEx := r.(*ssa.Extract); isEx && ex.Index == 0 {
							res = ex
						}
					}
				}
				okAll, why := false, "the result of the table lookup does not decide a branch"
				for _, r := range *res.Referrers() {
					ifi, isIf := r.(*ssa.If)
					if !isIf {
						continue
					}
					// follow unconditional jumps from the true successor
					t, from := ifi.Block().Succs[0], ifi.Block()
					for len(t.Instrs) == 1 {
						if _, isJ := t.Instrs[0].(*ssa.Jump); !isJ {
							break
						}
						t, from = t.Succs[0], t
					}
					if ret, isRet := t.Instrs[len(t.Instrs)-1].(*ssa.Return); isRet && len(ret.Results) == 1 {
						rv := ret.Results[0]
						// `return table[w] || other(w)`: the value returned is a phi whose edge from the lookup is true
						if phi, isPhi := rv.(*ssa.Phi); isPhi && phi.Block() == t {
							onlyPhis := true
							for _, pi := range t.Instrs[:len(t.Instrs)-1] {
								if _, ok := pi.(*ssa.Phi); !ok {
									if _, dbg := pi.(*ssa.DebugRef); !dbg {
										onlyPhis = false
									}
								}
							}
							for k, pr := range t.Preds {
								if pr == from && onlyPhis {
									rv = phi.Edges[k]
								}
							}
						}
						if cst, isC := rv.(*ssa.Const); isC && cst.Value != nil && cst.Value.String() == "true" {
							okAll, why = true, "a word found in the marker table is a marker, whatever its closing character"
							continue
						}
					}
					okAll, why = false, "after the word was found in the marker table another condition decides (on the closing character): markers of the form \"a)\" / \"iv)\", which the property lists, are kept as words, so a text numbered that way no longer matches"
				}
				c.R.Check(okAll, "R06.8", core.ShortFn(fn)+": a word found in the list-marker table is treated as a marker", p.Pos(lk.Pos()), why, why)
			}
		}
	}
	c.R.RequireMin("R06.8", "lookups in the list-marker table", n, 1)
}

// consultsOnEveryPath: in the verdict helper f, a load of the table dominates every return (no early verdict before the
// table was looked at).
func consultsOnEveryPath(f *ssa.Function, g *ssa.Global) bool {
	var loads []*ssa.BasicBlock
	for _, b := range f.Blocks {
		for _, in := range b.Instrs {
			if u, ok := in.(*ssa.UnOp); ok && u.X == ssa.Value(g) {
				loads = append(loads, b)
			}
		}
	}
	if len(loads) == 0 {
		return false
	}
	for _, b := range f.Blocks {
		if _, ok := b.Instrs[len(b.Instrs)-1].(*ssa.Return); !ok {
			continue
		}
		dom := false
		for _, lb := range loads {
			if lb.Dominates(b) {
				dom = true
			}
		}
		if !dom {
			return false
		}
	}
	return true
}

// checkSpellingLookupOnCleanText: R06.7. The spelling-variant table has bare words as keys, so it is consulted with the
// word after punctuation was stripped from it, never with the raw buffered word (or a substring / re-cased copy of it).
func checkSpellingLookupOnCleanText(c *Ctx, p *core.Prog) {
	g := p.Global(v2pkg, "interchangeableWords")
	if g == nil {
		if _, tf, ok := funcTable(p, v2pkg, "interchangeableWords"); ok {
			c.R.Info("R06.7", "the spelling table is the function "+tf.Name(), p.Pos(tf.Pos()), "not decided: the rule is written over lookups in a table variable")
			return
		}
	}
	if !c.R.Anchor(g != nil, "v2.interchangeableWords") {
		return
	}
	n := 0
	for _, fn := range v2Funcs(p) {
		for _, b := range fn.Blocks {
			for _, in := range b.Instrs {
				lk, ok := in.(*ssa.Lookup)
				if !ok {
					continue
				}
				ld, ok := lk.X.(*ssa.UnOp)
				if !ok || ld.X != ssa.Value(g) {
					continue
				}
				n++
				// is the key the raw word (a string parameter), possibly sliced or re-cased?
				k := lk.Index
				raw := ""
				for d := 0; d < 6 && k != nil; d++ {
					switch x := core.Unspill(k).(type) {
					case *ssa.Parameter:
						raw = x.Name()
						k = nil
					case *ssa.Slice:
						k = x.X
					case *ssa.Call:
						switch core.StaticCalleeName(&x.Call) {
						case "strings.ToLower", "strings.TrimSpace", "strings.ToUpper":
							k = x.Call.Args[0]
						default:
							k = nil
						}
					default:
						k = nil
					}
				}
				c.R.Check(raw == "", "R06.7", core.ShortFn(fn)+": the spelling table is consulted with the cleaned word", p.Pos(lk.Pos()),
					"the key is computed from the word (not the raw parameter)", "the key is the raw word "+raw+" as it was buffered, punctuation included: a variant spelling next to punctuation (\"licence,\") is not mapped")
				// R06.12: ... and for every word, whatever its length: the table decides which words have a variant, a length
				// test in front of it silently switches off the entries on the wrong side of the bound
				lenGuard := ""
				for db := range core.NewPostDom(fn).TransitiveControlDeps()[b] {
					ifi, isIf := db.Instrs[len(db.Instrs)-1].(*ssa.If)
					if !isIf {
						continue
					}
					bo, isBo := ifi.Cond.(*ssa.BinOp)
					if !isBo {
						continue
					}
					for _, pair := range [][2]ssa.Value{{bo.X, bo.Y}, {bo.Y, bo.X}} {
						call, isCall := pair[0].(*ssa.Call)
						if !isCall {
							continue
						}
						bi, isB := call.Call.Value.(*ssa.Builtin)
						if !isB || bi.Name() != "len" || !isString(call.Call.Args[0].Type()) {
							continue
						}
						if k, isK := core.ConstInt(pair[1]); isK && k > 0 && (sameExpr(call.Call.Args[0], lk.Index, 0) || core.Unspill(call.Call.Args[0]) == core.Unspill(lk.Index)) {
							lenGuard = p.Pos(bo.Pos())
						}
					}
				}
				// R06.18: the table maps whole words: the key is the cleaned word itself - the value the function hands back when
				// the table has no entry - and a hit is answered with the table's value itself. A key cut out of the word (a
				// stem) together with a re-attached ending never finds the rows that are plurals themselves, and invents pairs
				// the table does not have.
				if fn.Signature.Results().Len() == 1 && isString(fn.Signature.Results().At(0).Type()) {
					keyReturned, valueReturned := false, false
					var isOrHas func(v, want ssa.Value, d int) bool
					isOrHas = func(v, want ssa.Value, d int) bool {
						if core.Unspill(v) == core.Unspill(want) {
							return true
						}
						if ph, ok := v.(*ssa.Phi); ok && d < 3 {
							for _, e := range ph.Edges {
								if isOrHas(e, want, d+1) {
									return true
								}
							}
						}
						return false
					}
					for _, rb := range fn.Blocks {
						ret, isRet := rb.Instrs[len(rb.Instrs)-1].(*ssa.Return)
						if !isRet || len(ret.Results) != 1 {
							continue
						}
						if isOrHas(ret.Results[0], lk.Index, 0) {
							keyReturned = true
						}
						for _, r := range *lk.Referrers() {
							if ex, ok := r.(*ssa.Extract); ok && ex.Index == 0 && isOrHas(ret.Results[0], ex, 0) {
								valueReturned = true
							}
						}
						if !lk.CommaOk && isOrHas(ret.Results[0], lk, 0) {
							valueReturned = true
						}
					}
					why := ""
					if !keyReturned {
						why = "the key of the lookup (" + eng.Describe(lk.Index) + ") is not the word that is handed back when the table has no entry: the table is consulted with something else than the cleaned word"
					} else if !valueReturned {
						why = "no return hands back the table's value as it is: a hit is answered with a string assembled around it"
					}
					c.R.Check(why == "", "R06.18", core.ShortFn(fn)+": the spelling table maps the whole cleaned word to the table's value", p.Pos(lk.Pos()),
						"key = the word returned on a miss; a hit returns the table's value itself", why+" - the rows that do not fit the assumed word form (capitalisations/capitalizations) stop being interchangeable")
				}
				c.R.Check(lenGuard == "", "R06.12", core.ShortFn(fn)+": the spelling table is consulted for words of every length", p.Pos(lk.Pos()),
					"no length test on the word stands in front of the lookup", "the lookup only happens behind a test of the word's length ("+lenGuard+"): the pairs on the other side of the bound (whilst/while, centre/center, favour/favor ...) are never replaced")
			}
		}
	}
	c.R.RequireMin("R06.7", "lookups in the spelling table", n, 1)
}

// checkNoticeDecisionOnCleanedLine: R11.10. Normalize writes the cleaned-up words of a line. Whether a line is a notice
// must therefore (also) be decided on that form: some test of the ignorable-text patterns takes a string that is built
// from the results of the token clean-up. Otherwise a line that is kept as written can be dropped when the normalised
// text is tokenized again.
func checkNoticeDecisionOnCleanedLine(c *Ctx, p *core.Prog) {
	g := p.Global(v2pkg, "ignorableTexts")
	ct := p.Func(v2pkg, "cleanupToken")
	if g == nil || ct == nil {
		return // anchors are reported by R06.6 / R11.4
	}
	n := 0
	for _, fn := range v2Funcs(p) {
		uses := false
		for _, b := range fn.Blocks {
			for _, in := range b.Instrs {
				if u, ok := in.(*ssa.UnOp); ok && u.X == ssa.Value(g) {
					uses = true
				}
			}
		}
		if !uses {
			continue
		}
		var dep func(v ssa.Value, seen map[ssa.Value]bool, depth int) bool
		dep = func(v ssa.Value, seen map[ssa.Value]bool, depth int) bool {
			if v == nil || seen[v] || depth > 14 {
				return false
			}
			seen[v] = true
			if call, ok := v.(*ssa.Call); ok && call.Call.StaticCallee() == ct {
				return true
			}
			// the result of a helper of the package: what the helper returns
			if call, ok := v.(*ssa.Call); ok {
				if g := call.Call.StaticCallee(); g != nil && g != ct && core.FuncPkgPath(g) == v2pkg && len(g.Blocks) > 0 {
					for _, gb := range g.Blocks {
						if ret, isRet := gb.Instrs[len(gb.Instrs)-1].(*ssa.Return); isRet {
							for _, rv := range ret.Results {
								if dep(rv, seen, depth+1) {
									return true
								}
							}
						}
					}
				}
			}
			// a parameter of a helper: what some call site passes
			if prm, ok := v.(*ssa.Parameter); ok {
				for _, tup := range callSiteTuples(p, []ssa.Value{prm}) {
					if tup[0] != ssa.Value(prm) && dep(tup[0], seen, depth+1) {
						return true
					}
				}
			}
			// a slice: anything appended to it (loop-carried)
			if _, isSl := v.Type().Underlying().(*types.Slice); isSl {
				for m := range sliceFamily(v) {
					if call, ok := m.(*ssa.Call); ok {
						if bi, isB := call.Call.Value.(*ssa.Builtin); isB && bi.Name() == "append" && len(call.Call.Args) > 1 {
							if el := singleVarargElem(call.Call.Args[1]); el != nil && dep(el, seen, depth+1) {
								return true
							}
						}
					}
				}
			}
			in, ok := v.(ssa.Instruction)
			if !ok {
				return false
			}
			for _, op := range in.Operands(nil) {
				if *op != nil && dep(*op, seen, depth+1) {
					return true
				}
			}
			return false
		}
		nTests, onClean := 0, false
		condClean := ""
		var pos token.Pos
		for _, call := range core.CallsIn(fn) {
			name := core.StaticCalleeName(call.Common())
			if name != "(*regexp.Regexp).MatchString" && name != "(*regexp.Regexp).Match" {
				continue
			}
			nTests++
			pos = call.Pos()
			if dep(call.Common().Args[1], map[ssa.Value]bool{}, 0) {
				onClean = true
				// ... for every line: the cleaned form is not replaced by a constant on some path, and the test stands behind the
				// loop over the patterns and the other pattern tests only
				if ph, isPhi := core.Unspill(call.Common().Args[1]).(*ssa.Phi); isPhi {
					for _, e := range ph.Edges {
						if _, isK := e.(*ssa.Const); isK {
							condClean = "the cleaned line is a constant on some path (" + p.Pos(call.Pos()) + ")"
						}
					}
				}
				for d := range core.NewPostDom(fn).TransitiveControlDeps()[call.Block()] {
					ifi, isIf := d.Instrs[len(d.Instrs)-1].(*ssa.If)
					if !isIf {
						continue
					}
					isHeader := false
					for _, pr := range d.Preds {
						if d.Dominates(pr) {
							isHeader = true
						}
					}
					okC := isHeader
					var isPatternTest func(v ssa.Value, d int) bool
					isPatternTest = func(v ssa.Value, d int) bool {
						if d > 3 {
							return false
						}
						switch y := v.(type) {
						case *ssa.Call:
							n := core.StaticCalleeName(y.Common())
							return n == "(*regexp.Regexp).MatchString" || n == "(*regexp.Regexp).Match"
						case *ssa.Phi:
							for _, e := range y.Edges {
								if _, isK := e.(*ssa.Const); isK {
									continue
								}
								if !isPatternTest(e, d+1) {
									return false
								}
							}
							return true
						case *ssa.UnOp:
							return y.Op == token.NOT && isPatternTest(y.X, d+1)
						}
						return false
					}
					if isPatternTest(ifi.Cond, 0) {
						okC = true
					}
					// the guard for an empty line buffer at the head of the function
					if bo, isBo := ifi.Cond.(*ssa.BinOp); isBo {
						if cl, isCall := bo.X.(*ssa.Call); isCall {
							if bi, isB := cl.Call.Value.(*ssa.Builtin); isB && bi.Name() == "len" {
								if _, isPrm := core.Unspill(cl.Call.Args[0]).(*ssa.Parameter); isPrm {
									okC = true
								}
							}
						}
					}
					if !okC && condClean == "" {
						condClean = "the test of the cleaned line stands behind the condition at " + p.Pos(ifi.Cond.Pos())
					}
				}
			}
		}
		if nTests == 0 {
			continue
		}
		n++
		if onClean {
			c.R.Check(condClean == "", "R11.10", core.ShortFn(fn)+": the cleaned-up form of every line is tested against the patterns", p.Pos(pos), "the test of the cleaned line is reached from the loop over the patterns and the other pattern tests only",
				condClean+": for the lines on the other side of that condition only the words as written are tested - a notice whose words merely lose punctuation in the clean-up (\"Copyright: 2009-2011 John Doe\") is not recognised, its words become tokens and no Copyright match is reported")
		}
		c.R.Check(onClean, "R11.10", core.ShortFn(fn)+": whether a line is a notice is (also) decided on its cleaned-up form", p.Pos(pos), "a pattern test takes the line built from the results of the token clean-up",
			"the patterns are only tested against the words as written, while Normalize writes the cleaned-up words: a line whose punctuation keeps the patterns from matching (\"Copyright: 2013, ...\", \"2006-01-27.\") is kept by Match but dropped when the normalised text is matched, so the two disagree")
	}
	c.R.RequireMin("R11.10", "functions that test the ignorable-text patterns", n, 1)
}

// checkCaseFoldedLookups: R11.7. Normalize tokenises with normalize=false, which keeps the case of a word's first
// letter, while Match lower-cases it. A lower-case word table that decides whether a word is kept (list markers) or how
// it is spelled therefore has to be consulted with a case-folded key, or only when normalising - unless every buffered
// rune is lower-cased whatever the flag.
func checkCaseFoldedLookups(c *Ctx, p *core.Prog, ts *ssa.Function) {
	// (A) every rune appended to a word buffer is lower-cased unconditionally
	allLower, nApp := true, 0
	for _, f := range core.WithAnon(ts) {
		for _, call := range core.CallsIn(f) {
			if core.StaticCalleeName(call.Common()) != "unicode/utf8.AppendRune" {
				continue
			}
			nApp++
			if !isCallTo(call.Common().Args[1], "unicode.ToLower") {
				allLower = false
			}
		}
	}
	ct := p.Func(v2pkg, "cleanupToken")
	if ct == nil {
		return // reported by R11.4's anchor
	}
	n := 0
	for _, f := range pkgClosure(ct, v2pkg) {
		var flag *ssa.Parameter
		for _, prm := range f.Params {
			if isBool(prm.Type()) {
				flag = prm
			}
		}
		for _, b := range f.Blocks {
			for _, in := range b.Instrs {
				lk, ok := in.(*ssa.Lookup)
				if !ok {
					continue
				}
				ld, ok := lk.X.(*ssa.UnOp)
				if !ok {
					continue
				}
				g, ok := ld.X.(*ssa.Global)
				if !ok {
					continue
				}
				mt, ok := g.Type().(*types.Pointer).Elem().Underlying().(*types.Map)
				if !ok || !isString(mt.Key()) {
					continue
				}
				n++
				key := core.ShortFn(f) + ": lookup in the word table " + g.Name() + " does not depend on the case Normalize preserves"
				how := ""
				k := lk.Index
				if sl, isSl := k.(*ssa.Slice); isSl {
					k = sl.X
				}
				switch {
				case isCallTo(k, "strings.ToLower"):
					how = "the key is strings.ToLower(...)"
				case allLower && nApp > 0:
					how = "every rune buffered by the tokenizer is lower-cased, whatever the normalize flag"
				default:
					if flag != nil {
						for _, ft := range core.FactsAt(b) {
							if core.Unspill(ft.Cond) == ssa.Value(flag) && ft.Truth {
								how = "consulted only when normalising (the tokenizer lower-cases every rune then)"
							}
						}
					}
				}
				c.R.Check(how != "", "R11.7", key, p.Pos(lk.Pos()), how,
					"the table is lower-case, Normalize keeps the capital of a word's first letter and Match lower-cases it: a capitalised entry (\"A.\", \"II.\") is treated differently by Match and by Normalize, so matching the normalised text sees different words than matching the original")
			}
		}
	}
	if n == 0 {
		// the word tables may be functions over the word (a switch): then there is no map lookup to examine
		_, f1, ok1 := funcTable(p, v2pkg, "interchangeableWords")
		_, f2, ok2 := funcTable(p, v2pkg, "listMarker")
		if ok1 || ok2 {
			at := f1
			if at == nil {
				at = f2
			}
			c.R.Info("R11.7", "the word tables are functions", p.Pos(at.Pos()), "not decided: the rule is written over lookups in table variables")
			return
		}
	}
	c.R.RequireMin("R11.7", "word-table lookups in the token clean-up", n, 1)
}

// checkLineFlagIndependence: no value that flows into the line counter or a Line field is data-
// dependent on the normalize/updateDict parameters, and the instructions that update the counter are
// not control-dependent on them.
func checkLineFlagIndependence(c *Ctx, p *core.Prog, fn *ssa.Function) {
	flags := map[ssa.Value]bool{}
	for _, prm := range fn.Params {
		if isBool(prm.Type()) {
			flags[prm] = true
		}
	}
	if len(flags) == 0 {
		return
	}
	// values that matter: operands of Line stores, the `line` argument of calls, and the phi web of those
	var sinks []ssa.Value
	for _, b := range fn.Blocks {
		for _, in := range b.Instrs {
			switch x := in.(type) {
			case *ssa.Store:
				if fa, ok := x.Addr.(*ssa.FieldAddr); ok && (core.FieldName(fa) == "Line" || core.FieldName(fa) == "StartLine" || core.FieldName(fa) == "EndLine") {
					sinks = append(sinks, x.Val)
				}
			case *ssa.Call:
				if f := x.Call.StaticCallee(); f != nil {
					for i, a := range x.Call.Args {
						if i < len(f.Params) && isLineParam(f, i, 0) {
							sinks = append(sinks, a)
						}
					}
				}
			}
		}
	}
	if len(sinks) == 0 {
		return
	}
	pd := core.NewPostDom(fn)
	tcd := pd.TransitiveControlDeps()
	flagControlled := func(b *ssa.BasicBlock) bool {
		for d := range tcd[b] {
			if ifi, ok := d.Instrs[len(d.Instrs)-1].(*ssa.If); ok && dependsOnAny(ifi.Cond, flags, 0) {
				return true
			}
		}
		return false
	}
	seen := map[ssa.Value]bool{}
	bad := ""
	var walk func(v ssa.Value)
	walk = func(v ssa.Value) {
		if v == nil || seen[v] || bad != "" {
			return
		}
		seen[v] = true
		if flags[v] {
			bad = "a line value is computed from the flag " + v.Name()
			return
		}
		switch x := v.(type) {
		case *ssa.Phi:
			// a phi merges values chosen by control flow: the blocks that supply *different* values must
			// not be selected by a flag
			for i, e := range x.Edges {
				pb := x.Block().Preds[i]
				if e != ssa.Value(x) && flagControlled(pb) && !allSame(x) {
					// the increment site itself may sit under `!normalize` only if the same value arrives on the sibling path
					if !siblingCarriesSame(x, i) {
						bad = fmt.Sprintf("the value of the line counter (%s) depends on a branch decided by a normalisation flag", x.Comment)
						return
					}
				}
				walk(e)
			}
		case *ssa.BinOp:
			walk(x.X)
			walk(x.Y)
		case *ssa.UnOp:
			walk(x.X)
		case *ssa.Convert:
			walk(x.X)
		}
	}
	for _, s := range sinks {
		walk(s)
	}
	c.R.Check(bad == "", "R11.1", core.ShortFn(fn)+": line numbers do not depend on the normalize/updateDict flags", p.Pos(fn.Pos()), fmt.Sprintf("%d line sinks, none data- or control-dependent on a flag", len(sinks)), bad+": Normalize (normalize=false) and Match (normalize=true) would attribute words to different lines")
}

func dependsOnAny(v ssa.Value, set map[ssa.Value]bool, depth int) bool {
	if set[v] {
		return true
	}
	if depth > 6 {
		return false
	}
	in, ok := v.(ssa.Instruction)
	if !ok {
		return false
	}
	if _, isPhi := v.(*ssa.Phi); isPhi {
		return false
	}
	for _, op := range in.Operands(nil) {
		if *op != nil && dependsOnAny(*op, set, depth+1) {
			return true
		}
	}
	return false
}

func allSame(p *ssa.Phi) bool {
	for _, e := range p.Edges[1:] {
		if e != p.Edges[0] {
			return false
		}
	}
	return true
}

// siblingCarriesSame: another edge of the phi carries the same value as edge i (the flag-controlled
// block does not change the value).
func siblingCarriesSame(p *ssa.Phi, i int) bool {
	for j, e := range p.Edges {
		if j != i && e == p.Edges[i] {
			return true
		}
	}
	return false
}

// checkNoTrailingDot: R11.4. Every string returned from the digit branch of cleanupToken is established
// not to end in "." (loop exit on !HasSuffix, or strings.TrimRight(x, ".")).
func checkNoTrailingDot(c *Ctx, p *core.Prog, ct *ssa.Function) {
	n := 0
	for _, b := range ct.Blocks {
		ret, ok := b.Instrs[len(b.Instrs)-1].(*ssa.Return)
		if !ok || len(ret.Results) != 1 {
			continue
		}
		// digit branch: dominated by IsDigit(first rune) true
		digit := false
		for _, f := range core.FactsAt(b) {
			if call, ok := f.Cond.(*ssa.Call); ok && f.Truth && core.StaticCalleeName(&call.Call) == "unicode.IsDigit" {
				if ex, ok := call.Call.Args[0].(*ssa.Extract); ok {
					if dc, ok := ex.Tuple.(*ssa.Call); ok && core.StaticCalleeName(&dc.Call) == "unicode/utf8.DecodeRuneInString" {
						digit = true
					}
				}
			}
		}
		if !digit {
			continue
		}
		n++
		v := ret.Results[0]
		sfxs := []struct{ s, name, why string }{
			{".", "a dot", "a number can keep a trailing dot (e.g. \"2.0.\" from \"2.0..\"): Normalize writes it out and re-tokenising the normalised text strips one more dot, so Match(Normalize(x)) sees a different token than Match(x)"},
			{"-", "a hyphen", "a number can keep a trailing hyphen (\"1)-a.\" is cleaned to \"1-\"): when it is the last word of its line, Normalize writes \"1-\" and a line break, which is tokenised again as a word hyphenated across the line break - the next word is swallowed"},
		}
		// ... nor in any other character that the number path keeps and that the list-marker test takes for the end of a marker
		// (the characters header() compares the last byte of a word with): a cleaned number such as "1:" is a list marker
		// when the normalised text is tokenized again and it stands first in its line
		if hd := p.Func(v2pkg, "header"); hd != nil {
			markerEnds := map[int64]bool{}
			for _, hb := range hd.Blocks {
				for _, in := range hb.Instrs {
					if bo, isBo := in.(*ssa.BinOp); isBo && bo.Op == token.EQL {
						if bt, isB := bo.X.Type().Underlying().(*types.Basic); isB && bt.Kind() == types.Uint8 {
							if k, isK := core.ConstInt(bo.Y); isK {
								markerEnds[k] = true
							}
						}
					}
				}
			}
			for _, cb := range ct.Blocks {
				for _, in := range cb.Instrs {
					bo, isBo := in.(*ssa.BinOp)
					if !isBo || bo.Op != token.EQL {
						continue
					}
					k, isK := core.ConstInt(bo.Y)
					if !isK || !markerEnds[k] || k == '.' || k == '-' {
						continue
					}
					if bt, isB := bo.X.Type().Underlying().(*types.Basic); !isB || bt.Kind() != types.Int32 {
						continue
					}
					// in the number path?
					inDigit := false
					for _, f := range core.FactsAt(cb) {
						if call, ok := f.Cond.(*ssa.Call); ok && f.Truth && core.StaticCalleeName(&call.Call) == "unicode.IsDigit" {
							inDigit = true
						}
					}
					if inDigit {
						ch := string(rune(k))
						sfxs = append(sfxs, struct{ s, name, why string }{ch, "'" + ch + "'", "the number path keeps '" + ch + "', which header() takes for the end of a list marker: a number such as \"1" + ch + "\" is written by Normalize as it is, and where it comes to stand first in its line in the normalised text (behind the remainder of a hyphenated word, behind a word that cleans to nothing) it is dropped there - Match of the original keeps it"})
					}
				}
			}
		}
		for _, sfx := range sfxs {
			ok = noTrailingValue(v, sfx.s, 0)
			for _, f := range core.FactsAt(b) {
				if call, isCall := f.Cond.(*ssa.Call); isCall && !f.Truth && core.StaticCalleeName(&call.Call) == "strings.HasSuffix" && call.Call.Args[0] == v {
					if s, isS := core.ConstString(call.Call.Args[1]); isS && s == sfx.s {
						ok = true
					}
				}
			}
			c.R.Check(ok, "R11.4", "cleanupToken: a number token cannot end in "+sfx.name, p.Pos(ret.Pos()), "returned only once strings.HasSuffix(res, \""+sfx.s+"\") is false", sfx.why)
		}
	}
	c.R.RequireMin("R11.4", "returns of the number branch of cleanupToken", n, 1)
}

// ---------------------------------------------------------------------------------------------
// C17

func runC17(c *Ctx) {
	p := c.Prog("")
	if p == nil {
		return
	}
	if c.R.Filter == nil {
		// shared with C13: an exact occurrence is reported with the byte range the regular expression delimits (R13.4);
		// shared with C14: the candidates are computed without goroutines of their own or state kept between calls (R14.5)
		borrowRules(c, []string{"R13.4", "R13.5"}, runC13)
		checkV1SharedWrites(c, p)
		// ... and candidates computed by goroutines are not collected in the order in which the goroutines finish (R14.12)
		checkCompletionOrder(c, p)
	}
	tkPkg := ssPkg + "/tokenizer"
	tk := p.Func(tkPkg, "Tokenize")
	if !c.R.Anchor(tk != nil, "tokenizer.Tokenize") {
		return
	}
	s := tk.Params[0]
	var dec *ssa.Call
	for _, call := range core.CallsIn(tk) {
		if core.StaticCalleeName(call.Common()) == "unicode/utf8.DecodeRuneInString" {
			dec, _ = call.(*ssa.Call)
		}
	}
	if dec == nil {
		c.R.Fail("R17.1", "Tokenize: rune decoding", p.Pos(tk.Pos()), "no utf8.DecodeRuneInString call")
		return
	}
	var rv, sz ssa.Value
	for _, r := range *dec.Referrers() {
		if ex, ok := r.(*ssa.Extract); ok {
			if ex.Index == 0 {
				rv = ex
			} else {
				sz = ex
			}
		}
	}
	// the index i: DecodeRuneInString(s[i:])
	var idx ssa.Value
	if sl, ok := dec.Call.Args[0].(*ssa.Slice); ok && isInputValue(sl.X, s) && sl.High == nil {
		idx = sl.Low
	}
	if idx == nil {
		c.R.Fail("R17.1", "Tokenize: the rune is decoded at s[i:]", p.Pos(dec.Pos()), "cannot identify the scan position")
		return
	}
	// contributions to Text: stores to field Text
	n := 0
	goodContribution := func(v ssa.Value, at ssa.Instruction) (bool, string) {
		switch x := v.(type) {
		case *ssa.Slice:
			// s[i : i+size]
			if isInputValue(x.X, s) && x.Low == idx {
				if bo, ok := x.High.(*ssa.BinOp); ok && bo.Op == token.ADD && ((bo.X == idx && bo.Y == sz) || (bo.Y == idx && bo.X == sz)) {
					return true, "s[i:i+size]"
				}
			}
			return false, "a substring that is not s[i:i+size] (" + core.AP(x) + "): the token's text does not cover the whole rune at its offset"
		case *ssa.Convert:
			if x.X == rv {
				// string(r): only under a guard that excludes the replacement rune
				for _, f := range core.FactsAtInstr(at) {
					if call, ok := f.Cond.(*ssa.Call); ok && f.Truth && len(call.Call.Args) == 1 && call.Call.Args[0] == rv {
						switch core.StaticCalleeName(&call.Call) {
						case "unicode.IsPunct", "unicode.IsLetter", "unicode.IsDigit", "unicode.IsSpace":
							return true, "string(r) under " + core.StaticCalleeName(&call.Call) + "(r), which is false for the replacement rune"
						}
					}
					if cmp, ok := f.AsCmp(); ok && cmp.Op == token.NEQ && cmp.X == rv {
						if k, ok := core.ConstInt(cmp.Y); ok && k == 0xFFFD {
							return true, "string(r) under r != utf8.RuneError"
						}
					}
				}
				return false, "string(r) re-encodes the decoded rune: for an invalid byte this is the 3-byte replacement character, so Offset+len(Text) points past the text the token was read from"
			}
		}
		return false, "unrecognised contribution " + v.String()
	}
	// token objects whose Text is a substring of the input taken in one piece: Text = s[a:b] with Offset = a
	sliceForm := map[ssa.Value]bool{}
	type deferredText struct {
		st   *ssa.Store
		base ssa.Value
	}
	var deferred []deferredText
	for _, f := range core.WithAnon(tk) {
		for _, b := range f.Blocks {
			for _, in := range b.Instrs {
				st, ok := in.(*ssa.Store)
				if !ok {
					continue
				}
				fa, ok := st.Addr.(*ssa.FieldAddr)
				if !ok || core.FieldName(fa) != "Text" {
					continue
				}
				sl, ok := st.Val.(*ssa.Slice)
				if !ok || !isInputValue(sl.X, s) || sl.Low == nil || sl.Low == idx {
					continue // s[i:...] at the scan position is a per-rune contribution (below)
				}
				// the Offset stored into the same object
				var off *ssa.Store
				nOff := 0
				for _, r := range *fa.X.Referrers() {
					if fa2, ok := r.(*ssa.FieldAddr); ok && core.FieldName(fa2) == "Offset" {
						for _, u := range *fa2.Referrers() {
							if st2, ok := u.(*ssa.Store); ok && st2.Addr == fa2 {
								off = st2
								nOff++
							}
						}
					}
				}
				n++
				sliceForm[fa.X] = true
				ok = nOff == 1 && sameValueAt(sl.Low, off.Val)
				// Text = s[tok.Offset:...]: the lower bound is read from the Offset field of the very same token object
				if ld, isLd := sl.Low.(*ssa.UnOp); isLd && ld.Op == token.MUL {
					if fo, isFO := ld.X.(*ssa.FieldAddr); isFO && core.FieldName(fo) == "Offset" && fo.X == fa.X {
						ok = true
						deferred = append(deferred, deferredText{st, fa.X})
					}
				}
				c.R.Check(ok, "R17.1", "Tokenize: a token whose Text is a substring s[a:b] of the input has Offset a", p.Pos(st.Pos()), "Text: s[a:b], Offset: a (the same value)", "the token's Text is cut from the input at a position other than its Offset")
				// b is a scan position (a rune boundary the loop has reached) or the end of the input
				var isBoundary func(v ssa.Value, depth int) bool
				isBoundary = func(v ssa.Value, depth int) bool {
					if v == nil {
						return true // s[a:]
					}
					if v == idx {
						return true
					}
					if call, ok := v.(*ssa.Call); ok {
						if bi, ok := call.Call.Value.(*ssa.Builtin); ok && bi.Name() == "len" && isInputValue(call.Call.Args[0], s) {
							return true
						}
					}
					if prm, ok := v.(*ssa.Parameter); ok && depth < 2 && prm.Parent().Parent() != nil {
						cf := prm.Parent()
						k := -1
						for i, q := range cf.Params {
							if q == prm {
								k = i
							}
						}
						sites := 0
						for _, g := range core.WithAnon(tk) {
							for _, call := range core.CallsIn(g) {
								if eng.ResolveCallee(call.Common().Value) != cf {
									continue
								}
								sites++
								if k < 0 || k >= len(call.Common().Args) || !isBoundary(call.Common().Args[k], depth+1) {
									return false
								}
							}
						}
						return sites > 0
					}
					return false
				}
				c.R.Check(isBoundary(sl.High, 0), "R17.1", "Tokenize: a substring token ends at a scan position or at the end of the input", p.Pos(st.Pos()), "the end of s[a:b] is the loop's scan position or len(s) at every call", "the end of the substring is not a position the scan has reached: the token can end inside a rune or leave characters uncovered")
			}
		}
	}
	// the same shape with the token built by a package-level helper: h(s, a, b) { return &token{Text: s[a:b], Offset: a} },
	// called with the input, a word start (a variable that only ever holds the sentinel -1 or a scan position, read where
	// it is known not to be the sentinel) and a scan position or len(s)
	helperForm := false
	{
		var isWordStart func(v ssa.Value, seen map[ssa.Value]bool) (bool, bool)
		isWordStart = func(v ssa.Value, seen map[ssa.Value]bool) (okAll bool, sawIdx bool) {
			if v == idx {
				return true, true
			}
			if k, isK := core.ConstInt(v); isK && k == -1 {
				return true, false
			}
			phi, isPhi := v.(*ssa.Phi)
			if !isPhi {
				return false, false
			}
			if seen[v] {
				return true, false
			}
			seen[v] = true
			okAll = true
			for _, e := range phi.Edges {
				o, si := isWordStart(e, seen)
				if !o {
					return false, false
				}
				sawIdx = sawIdx || si
			}
			return okAll, sawIdx
		}
		isEnd := func(v ssa.Value) bool {
			if v == idx {
				return true
			}
			if call, ok := v.(*ssa.Call); ok {
				if bi, ok := call.Call.Value.(*ssa.Builtin); ok && bi.Name() == "len" && isInputValue(call.Call.Args[0], s) {
					return true
				}
			}
			return false
		}
		helpers := map[*ssa.Function]bool{}
		for _, g := range core.WithAnon(tk) {
			for _, call := range core.CallsIn(g) {
				if h := call.Common().StaticCallee(); h != nil && h != tk && h.Parent() == nil && core.FuncPkgPath(h) == tkPkg && len(h.Blocks) > 0 {
					helpers[h] = true
				}
			}
		}
		for h := range helpers {
			for _, b := range h.Blocks {
				for _, in := range b.Instrs {
					st, ok := in.(*ssa.Store)
					if !ok {
						continue
					}
					fa, ok := st.Addr.(*ssa.FieldAddr)
					if !ok || core.FieldName(fa) != "Text" {
						continue
					}
					sl, ok := st.Val.(*ssa.Slice)
					if !ok {
						continue
					}
					pi := func(v ssa.Value) int {
						for i, q := range h.Params {
							if v == ssa.Value(q) {
								return i
							}
						}
						return -1
					}
					xs, lo, hi := pi(sl.X), pi(sl.Low), pi(sl.High)
					if xs < 0 || lo < 0 || hi < 0 {
						continue
					}
					var off *ssa.Store
					nOff := 0
					for _, r := range *fa.X.Referrers() {
						if fa2, ok := r.(*ssa.FieldAddr); ok && core.FieldName(fa2) == "Offset" {
							for _, u := range *fa2.Referrers() {
								if st2, ok := u.(*ssa.Store); ok && st2.Addr == fa2 {
									off = st2
									nOff++
								}
							}
						}
					}
					n++
					helperForm = true
					c.R.Check(nOff == 1 && off.Val == sl.Low, "R17.1", "Tokenize: a token whose Text is a substring s[a:b] of the input has Offset a", p.Pos(st.Pos()), "Text: s[a:b], Offset: a (the same parameter of "+h.Name()+")", "the token's Text is cut from the input at a position other than its Offset")
					sites, okSites, whySites := 0, true, ""
					for _, g := range core.WithAnon(tk) {
						for _, call := range core.CallsIn(g) {
							if call.Common().StaticCallee() != h {
								continue
							}
							sites++
							args := call.Common().Args
							if !isInputValue(args[xs], s) {
								okSites, whySites = false, "the string that is cut is not the input"
							}
							if !isEnd(args[hi]) {
								okSites, whySites = false, "the end of the substring is not a position the scan has reached: the token can end inside a rune or leave characters uncovered"
							}
							okW, sawIdx := isWordStart(args[lo], map[ssa.Value]bool{})
							notSentinel := args[lo] == idx
							for _, f := range core.FactsAtInstr(call.(ssa.Instruction)) {
								if cmp, ok := f.AsCmp(); ok && cmp.X == args[lo] {
									if k, isK := core.ConstInt(cmp.Y); isK && ((cmp.Op == token.GEQ && k >= 0) || (cmp.Op == token.GTR && k >= -1) || (cmp.Op == token.NEQ && k == -1)) {
										notSentinel = true
									}
								}
							}
							if !okW || !sawIdx || !notSentinel {
								okSites, whySites = false, "the start of the substring is not a scan position recorded earlier (a variable holding -1 or the scan position, read behind a test against the sentinel)"
							}
						}
					}
					c.R.Check(okSites && sites > 0, "R17.1", "Tokenize: a substring token built by "+h.Name()+" runs from a recorded scan position to a scan position or the end of the input", p.Pos(st.Pos()), fmt.Sprintf("%d call sites: (input, word start, scan position | len(s))", sites), whySites)
				}
			}
		}
	}
	builderWrites := map[ssa.Instruction]bool{}
	for _, f := range core.WithAnon(tk) {
		for _, b := range f.Blocks {
			for _, in := range b.Instrs {
				st, ok := in.(*ssa.Store)
				if !ok {
					continue
				}
				fa, ok := st.Addr.(*ssa.FieldAddr)
				if !ok || sliceForm[fa.X] {
					continue
				}
				switch core.FieldName(fa) {
				case "Text":
					n++
					v := st.Val
					// the text assembled in a strings.Builder: every write into that builder is a contribution
					if bs, isCall := v.(*ssa.Call); isCall && core.StaticCalleeName(&bs.Call) == "(*strings.Builder).String" {
						bld := cellOf(bs.Call.Args[0])
						nW := 0
						for _, f2 := range core.WithAnon(tk) {
							for _, wc := range core.CallsIn(f2) {
								wn := core.StaticCalleeName(wc.Common())
								if !strings.HasPrefix(wn, "(*strings.Builder).Write") || cellOf(wc.Common().Args[0]) != bld {
									continue
								}
								nW++
								builderWrites[wc.(ssa.Instruction)] = true
								okW, whyW := false, "unrecognised contribution "+wn
								if wn == "(*strings.Builder).WriteString" {
									okW, whyW = goodContribution(wc.Common().Args[1], wc.(ssa.Instruction))
								}
								c.R.Check(okW, "R17.1", "Tokenize: the text appended to a token's Text is the input text at the scan position", p.Pos(wc.Pos()), whyW, whyW)
							}
						}
						c.R.Check(nW > 0, "R17.1", "Tokenize: the text assigned to a token's Text is assembled from the input", p.Pos(st.Pos()), "a strings.Builder that only receives input substrings", "nothing is written into the builder the text is taken from")
						continue
					}
					// tok.Text += x  is BinOp ADD(load Text, x)
					if bo, isBo := v.(*ssa.BinOp); isBo && bo.Op == token.ADD {
						v = bo.Y
					}
					ok, why := goodContribution(v, st)
					form := "appended"
					if _, isBo := st.Val.(*ssa.BinOp); !isBo {
						form = "assigned"
					}
					c.R.Check(ok, "R17.1", "Tokenize: the text "+form+" to a token's Text is the input text at the scan position", p.Pos(st.Pos()), why, why)
				case "Offset":
					if k, isK := core.ConstInt(st.Val); isK && k == -1 {
						continue // sentinel of newToken
					}
					okOff := st.Val == idx
					if !okOff {
						// a variable that only ever holds the sentinel or the scan position (start := -1 ... start = i)
						if ld, isLd := st.Val.(*ssa.UnOp); isLd && ld.Op == token.MUL {
							if cell := cellOf(ld.X); cell != nil {
								okOff = true
								nSt := 0
								for _, f2 := range core.WithAnon(tk) {
									for _, b2 := range f2.Blocks {
										for _, in2 := range b2.Instrs {
											st2, isSt := in2.(*ssa.Store)
											if !isSt || cellOf(st2.Addr) != cell {
												continue
											}
											nSt++
											if k, isK := core.ConstInt(st2.Val); isK && k == -1 {
												continue
											}
											if st2.Val != idx {
												okOff = false
											}
										}
									}
								}
								if nSt == 0 {
									okOff = false
								}
							}
						}
					}
					c.R.Check(okOff, "R17.1", "Tokenize: a token's Offset is the scan position of its first rune", p.Pos(st.Pos()), "Offset = i", "Offset is "+core.AP(st.Val)+", not the position the rune was decoded at")
				}
			}
		}
	}
	c.R.RequireMin("R17.1", "contributions to token Text", n, 1)

	// R17.13 a token whose text is filled in when it ends (Text = s[tok.Offset:i], set once the next character shows that the
	// token is over) is also closed when the input ends: for every such variable that is carried round the scan loop there is a
	// store of the same form behind the loop. A run that is still open at the end of the input otherwise keeps the text it
	// had when it was opened, and the characters behind it belong to no token.
	if len(deferred) > 0 {
		web := func(v ssa.Value) map[ssa.Value]bool {
			w := map[ssa.Value]bool{}
			var walk func(x ssa.Value)
			walk = func(x ssa.Value) {
				x = core.Unspill(x)
				if x == nil || w[x] {
					return
				}
				w[x] = true
				if ph, ok := x.(*ssa.Phi); ok {
					for _, e := range ph.Edges {
						walk(e)
					}
				}
				if x.Referrers() != nil {
					for _, r := range *x.Referrers() {
						if ph, ok := r.(*ssa.Phi); ok {
							walk(ph)
						}
					}
				}
			}
			walk(v)
			return w
		}
		bad := ""
		nV := 0
		done := map[ssa.Value]bool{}
		for _, d := range deferred {
			if loopDepthOf(d.st.Block()) == 0 || done[d.base] {
				continue
			}
			w := web(d.base)
			for v := range w {
				done[v] = true
			}
			nV++
			closed := false
			for _, e := range deferred {
				if loopDepthOf(e.st.Block()) == 0 && w[core.Unspill(e.base)] {
					closed = true
				}
			}
			if !closed && bad == "" {
				bad = p.Pos(d.st.Pos())
			}
		}
		if nV > 0 {
			c.R.Check(bad == "", "R17.13", "Tokenize: a token whose text is filled in when it ends is also closed at the end of the input", p.Pos(tk.Pos()), fmt.Sprintf("%d loop-carried tokens with a deferred text, each closed behind the loop", nV),
				"the token whose text is set at "+bad+" is only closed inside the scan loop: when the input ends while it is open, it keeps the text it was opened with and the characters behind it are covered by no token")
		}
	}
	// R17.12 the tokens come out in the order of the text: a token that is built and appended in one step (a punctuation mark, any
	// other one-character token) is appended only behind the test whether a word is still pending - the pending word starts
	// earlier in the text and has to go first. A new case that appends without that test puts the word it interrupts behind
	// the characters that follow it.
	{
		nL, bad := 0, ""
		for _, lit := range structLits([]*ssa.Function{tk}, "tokenizer.token") {
			off, hasOff := lit.fields["Offset"]
			_, hasText := lit.fields["Text"]
			if !hasOff || !hasText {
				continue
			}
			if k, isK := core.ConstInt(off); isK && k < 0 {
				continue // the pending word being (re)started
			}
			// the append that takes this literal
			for _, r := range *lit.alloc.Referrers() {
				st, isSt := r.(*ssa.Store)
				if !isSt || st.Val != ssa.Value(lit.alloc) {
					continue
				}
				nL++
				pendingTested := false
				for _, f := range core.FactsAt(st.Block()) {
					cmp, ok := f.AsCmp()
					if !ok {
						continue
					}
					for _, pair := range [][2]ssa.Value{{cmp.X, cmp.Y}, {cmp.Y, cmp.X}} {
						if k, isK := core.ConstInt(pair[1]); isK && (k == -1 || k == 0) && strings.HasSuffix(core.AP(pair[0]), ".Offset") {
							pendingTested = true
						}
					}
				}
				// the test may also have been taken and joined again: a block that tests the pending word dominates the append
				if !pendingTested {
					for d := st.Block().Idom(); d != nil; d = d.Idom() {
						if ifi, isIf := d.Instrs[len(d.Instrs)-1].(*ssa.If); isIf {
							if bo, isBo := ifi.Cond.(*ssa.BinOp); isBo {
								for _, pair := range [][2]ssa.Value{{bo.X, bo.Y}, {bo.Y, bo.X}} {
									if k, isK := core.ConstInt(pair[1]); isK && (k == -1 || k == 0) && strings.HasSuffix(core.AP(pair[0]), ".Offset") && loopDepthOf(d) == loopDepthOf(st.Block()) {
										pendingTested = true
									}
								}
							}
						}
					}
				}
				// other shapes of the same test: the pending word is kept as an integer (its start, negative between words) that is
				// compared with -1 or 0, or a helper / function literal that appends to the token list (the flush) is called first
				if !pendingTested {
					depth := loopDepthOf(st.Block())
					flushes := func(g *ssa.Function) bool {
						if g == nil || len(g.Blocks) == 0 {
							return false
						}
						for _, call := range core.CallsIn(g) {
							if bi, isB := call.Common().Value.(*ssa.Builtin); isB && bi.Name() == "append" {
								return true
							}
						}
						return false
					}
					for d := st.Block(); d != nil && !pendingTested; d = d.Idom() {
						if loopDepthOf(d) != depth {
							continue
						}
						for _, in := range d.Instrs {
							if d == st.Block() && in == ssa.Instruction(st) {
								break
							}
							if call, isCall := in.(*ssa.Call); isCall {
								if g := call.Call.StaticCallee(); flushes(g) && core.FuncPkgPath(g) == core.FuncPkgPath(tk) {
									pendingTested = true
								}
								if mc, isMC := call.Call.Value.(*ssa.MakeClosure); isMC {
									if g, ok := mc.Fn.(*ssa.Function); ok && flushes(g) {
										pendingTested = true
									}
								}
								// a closure kept in a local variable
								if ld, isLd := call.Call.Value.(*ssa.UnOp); isLd {
									if al, isAl := ld.X.(*ssa.Alloc); isAl {
										for _, r := range *al.Referrers() {
											if st2, isSt := r.(*ssa.Store); isSt {
												if mc, isMC := st2.Val.(*ssa.MakeClosure); isMC {
													if g, ok := mc.Fn.(*ssa.Function); ok && flushes(g) {
														pendingTested = true
													}
												}
											}
										}
									}
								}
							}
						}
						if ifi, isIf := d.Instrs[len(d.Instrs)-1].(*ssa.If); isIf && d != st.Block() {
							if bo, isBo := ifi.Cond.(*ssa.BinOp); isBo {
								for _, pair := range [][2]ssa.Value{{bo.X, bo.Y}, {bo.Y, bo.X}} {
									if k, isK := core.ConstInt(pair[1]); isK && (k == -1 || k == 0) {
										if _, isPhi := core.Unspill(pair[0]).(*ssa.Phi); isPhi {
											pendingTested = true
										}
									}
								}
							}
						}
					}
				}
				if !pendingTested && bad == "" {
					bad = p.Pos(lit.alloc.Pos())
				}
			}
		}
		if nL > 0 {
			c.R.Check(bad == "", "R17.12", "Tokenize: a token built in one step is appended behind the test for a pending word", p.Pos(tk.Pos()), fmt.Sprintf("%d one-step tokens", nL),
				"the token built at "+bad+" is appended without testing whether a word is pending: the word it interrupts is appended later, so the tokens are not in the order of the text and a word continued behind it has a text that is not in the input")
		}
	}
	// R17.5 every non-space character is covered: a path through one iteration of the scan loop on which the decoded rune
	// contributes to no token's Text has taken the true branch of unicode.IsSpace(r) - and of nothing weaker. (Decided for
	// the per-rune shape, where contributing means passing a store to a Text field.)
	if len(sliceForm) == 0 && !helperForm {
		var header *ssa.BasicBlock
		for d := dec.Block(); d != nil; d = d.Idom() {
			for _, pr := range d.Preds {
				if d.Dominates(pr) {
					header = d
				}
			}
			if header != nil {
				break
			}
		}
		if header == nil {
			c.R.Undecided("R17.5", "Tokenize: scan loop", p.Pos(dec.Pos()), "the rune decoder is not in a loop")
		} else {
			inLoop := func(b *ssa.BasicBlock) bool { return header.Dominates(b) && reaches(b, header) }
			contributes := func(b *ssa.BasicBlock) bool {
				for _, in := range b.Instrs {
					if st, ok := in.(*ssa.Store); ok {
						if fa, ok := st.Addr.(*ssa.FieldAddr); ok && core.FieldName(fa) == "Text" {
							return true
						}
					}
					if builderWrites[in] {
						return true
					}
				}
				return false
			}
			nPaths, nSkip := 0, 0
			bad := ""
			for _, pr := range header.Preds {
				if !inLoop(pr) {
					continue
				}
				paths, ok := eng.EnumPaths(header, pr, func(b *ssa.BasicBlock) bool { return !inLoop(b) }, 5000)
				if !ok {
					bad = "too many paths through one iteration"
					break
				}
				for _, pa := range paths {
					nPaths++
					contrib := false
					for _, b := range pa.Blocks {
						if contributes(b) {
							contrib = true
						}
					}
					if contrib {
						continue
					}
					nSkip++
					isSpace := false
					for _, l := range pa.Lits {
						if call, ok := l.Cond.(*ssa.Call); ok && l.Truth && core.StaticCalleeName(&call.Call) == "unicode.IsSpace" && len(call.Call.Args) == 1 && call.Call.Args[0] == rv {
							isSpace = true
						}
					}
					if !isSpace && bad == "" {
						var conds []string
						for _, l := range pa.Lits {
							pos := p.Pos(l.Cond.Pos())
							if i := strings.LastIndex(pos, ":"); i >= 0 {
								pos = "line " + pos[i+1:]
							}
							conds = append(conds, fmt.Sprintf("%s is %v", pos, l.Truth))
						}
						bad = "a path through one iteration adds the decoded rune to no token although unicode.IsSpace(r) was not true on it (branch decisions: " + strings.Join(conds, ", ") + "): a character that is not white space is covered by no token"
					}
				}
			}
			c.R.Check(bad == "", "R17.5", "Tokenize: a rune that contributes to no token was tested to be white space", p.Pos(dec.Pos()),
				fmt.Sprintf("%d paths through one iteration, %d without a contribution, all behind unicode.IsSpace(r)", nPaths, nSkip), bad)
			c.R.RequireMin("R17.5", "paths through one iteration of the scan loop", nPaths, 3)
		}
	}

	// R17.7 a token range recorded for a hash window ends inside the token list: the End stored into a TokenRange by a method
	// of the token list is dominated by a comparison End <= len(tokens). (A window recorded past the last token gives a
	// candidate whose target range indexes beyond the target's tokens.)
	{
		nTR := 0
		for _, fn := range pkgFuncs(p, tkPkg) {
			if fn.Signature.Recv() == nil || len(fn.Params) == 0 {
				continue
			}
			recv := fn.Params[0]
			if _, isSl := recv.Type().Underlying().(*types.Slice); !isSl {
				continue
			}
			for _, b := range fn.Blocks {
				for _, in := range b.Instrs {
					st, ok := in.(*ssa.Store)
					if !ok {
						continue
					}
					fa, ok := st.Addr.(*ssa.FieldAddr)
					if !ok || core.FieldName(fa) != "End" || !strings.HasSuffix(core.TypeName(fa.X.Type()), "tokenizer.TokenRange") {
						continue
					}
					if _, isLit := fa.X.(*ssa.Alloc); !isLit {
						continue
					}
					nTR++
					bounded := false
					want := core.LinOf(st.Val, nil)
					for _, f := range core.FactsAt(b) {
						cmp, ok := f.AsCmp()
						if !ok {
							continue
						}
						x, y, op := cmp.X, cmp.Y, cmp.Op
						if op == token.GEQ {
							x, y, op = y, x, token.LEQ
						}
						if op != token.LEQ {
							continue
						}
						if lc, isCall := y.(*ssa.Call); isCall {
							if bi, isB := lc.Call.Value.(*ssa.Builtin); isB && bi.Name() == "len" && lc.Call.Args[0] == ssa.Value(recv) && core.LinOf(x, nil).Equal(want) {
								bounded = true
							}
						}
					}
					c.R.Check(bounded, "R17.7", core.ShortFn(fn)+": a recorded token range ends inside the token list", p.Pos(st.Pos()), "End <= len(tokens) holds where the range is built",
						"the End of a recorded token range is not bounded by the number of tokens: a window that reaches past the last token makes every candidate built from it index beyond the target's tokens (TargetRange panics)")
				}
			}
		}
		c.R.RequireMin("R17.7", "token ranges recorded by the token list", nTR, 1)
	}

	// R17.6 the two sides of a range are kept apart: what is stored into a Target* field of a MatchRange is computed from
	// Target* fields of ranges (never from Src* fields) and the other way round. (A target bound taken from a source bound
	// lies outside the target whenever the match sits further into the known text than into the unknown one.)
	{
		side := func(name string) string {
			switch {
			case strings.HasPrefix(name, "Target"):
				return "Target"
			case strings.HasPrefix(name, "Src"):
				return "Src"
			}
			return ""
		}
		isMR := func(t types.Type) bool { return strings.HasSuffix(core.TypeName(t), "searchset.MatchRange") }
		var deps func(v ssa.Value, seen map[ssa.Value]bool, depth int, out map[string]bool)
		deps = func(v ssa.Value, seen map[ssa.Value]bool, depth int, out map[string]bool) {
			if seen[v] || depth > 12 {
				return
			}
			seen[v] = true
			switch x := v.(type) {
			case *ssa.UnOp:
				if fa, ok := x.X.(*ssa.FieldAddr); ok && x.Op == token.MUL && isMR(fa.X.Type()) {
					if sd := side(core.FieldName(fa)); sd != "" {
						out[sd] = true
					}
					return
				}
				deps(x.X, seen, depth+1, out)
			case *ssa.Field:
				if isMR(x.X.Type()) {
					if sd := side(core.StructOf(x.X.Type()).Field(x.Field).Name()); sd != "" {
						out[sd] = true
					}
				}
			case *ssa.BinOp:
				deps(x.X, seen, depth+1, out)
				deps(x.Y, seen, depth+1, out)
			case *ssa.Phi:
				for _, e := range x.Edges {
					deps(e, seen, depth+1, out)
				}
			case *ssa.Convert:
				deps(x.X, seen, depth+1, out)
			case *ssa.Call:
				// an integer helper of the package (min / max): the result depends on its arguments
				if g := x.Call.StaticCallee(); g != nil && core.FuncPkgPath(g) == ssPkg {
					for _, a := range x.Call.Args {
						if bt, ok := a.Type().Underlying().(*types.Basic); ok && bt.Info()&types.IsInteger != 0 {
							deps(a, seen, depth+1, out)
						}
					}
				}
			}
		}
		nSt, bad := 0, ""
		for _, fn := range pkgFuncs(p, ssPkg) {
			for _, b := range fn.Blocks {
				for _, in := range b.Instrs {
					st, ok := in.(*ssa.Store)
					if !ok {
						continue
					}
					fa, ok := st.Addr.(*ssa.FieldAddr)
					if !ok || !isMR(fa.X.Type()) {
						continue
					}
					sd := side(core.FieldName(fa))
					if sd == "" {
						continue
					}
					nSt++
					other := "Src"
					if sd == "Src" {
						other = "Target"
					}
					// a difference of two bounds of the other side is a length, which may be added to either side: expand the
					// sums and differences and count the other side's bounds with their signs
					net := int64(0)
					out := map[string]bool{}
					var expand func(v ssa.Value, sign int64, depth int)
					expand = func(v ssa.Value, sign int64, depth int) {
						if bo, ok := v.(*ssa.BinOp); ok && depth < 8 && (bo.Op == token.ADD || bo.Op == token.SUB) {
							expand(bo.X, sign, depth+1)
							if bo.Op == token.ADD {
								expand(bo.Y, sign, depth+1)
							} else {
								expand(bo.Y, -sign, depth+1)
							}
							return
						}
						if ld, ok := v.(*ssa.UnOp); ok && ld.Op == token.MUL {
							if fa2, ok := ld.X.(*ssa.FieldAddr); ok && isMR(fa2.X.Type()) {
								if side(core.FieldName(fa2)) == other {
									net += sign
								}
								return
							}
						}
						deps(v, map[ssa.Value]bool{}, 0, out)
					}
					expand(st.Val, 1, 0)
					if out[other] || net != 0 {
						bad = fmt.Sprintf("%s: %s is computed from a %s* field of a range (%s)", core.ShortFn(fn), core.FieldName(fa), other, p.Pos(st.Pos()))
					}
				}
			}
		}
		c.R.Check(bad == "", "R17.6", "searchset: the target side of a range is computed from target bounds only, the source side from source bounds only", ssPkg,
			fmt.Sprintf("%d stores into Src*/Target* fields of MatchRange, none mixes the sides", nSt), bad+": the bound lies outside the text it is applied to, and TargetRange indexes past the target's tokens")
		c.R.RequireMin("R17.6", "stores into the bounds of a MatchRange", nSt, 8)
	}

	// R17.9 the ranges of a candidate stay in target order: every sort of match ranges in the package has the target
	// position as its first key (TargetRange takes its start from the first range and its end from the last)
	{
		var ssFns []*ssa.Function
		for _, f := range p.SrcFuncs(ssPkg) {
			if core.FuncPkgPath(f) == ssPkg {
				ssFns = append(ssFns, f)
			}
		}
		oa := eng.NewOrderAnalysis(p, ssFns)
		oa.FindSorts()
		nS := 0
		for _, srt := range oa.Sorts {
			et := srt.Value.Type()
			if sl, ok := et.Underlying().(*types.Slice); !ok || !strings.Contains(core.TypeName(sl.Elem()), "MatchRange") {
				continue
			}
			nS++
			okS := srt.Cmp != nil && srt.Cmp.Undecided == "" && srt.Cmp.FirstKey == "TargetStart" && srt.Cmp.FirstDir == "asc"
			c.R.Check(okS, "R17.9", core.ShortFn(srt.Fn)+": match ranges are sorted by target position first", p.Pos(srt.Call.Pos()), "first key TargetStart ascending",
				"a sort of match ranges orders by "+firstKeyDesc(srt.Cmp)+": the ranges of a candidate leave target order, and the byte range read from the first and the last of them has its start behind its end")
		}
		c.R.RequireMin("R17.9", "sorts of match ranges in searchset", nS, 1)
	}
	// R17.8 what is said about the target comes from the target: in a function that is given a source and a target search
	// set, no Target* bound of a match range is computed from the source set, and no Src* bound from the target set
	{
		nP, bad := 0, ""
		for _, f := range p.SrcFuncs(ssPkg) {
			if core.FuncPkgPath(f) != ssPkg || f.Parent() != nil {
				continue
			}
			var src, tgt *ssa.Parameter
			for _, prm := range f.Params {
				if !strings.HasSuffix(core.TypeName(prm.Type()), "searchset.SearchSet") {
					continue
				}
				switch prm.Name() {
				case "src", "source", "known":
					src = prm
				case "target", "tgt", "unknown":
					tgt = prm
				}
			}
			if src == nil || tgt == nil {
				continue
			}
			nP++
			var dep func(v ssa.Value, root ssa.Value, seen map[ssa.Value]bool) bool
			dep = func(v ssa.Value, root ssa.Value, seen map[ssa.Value]bool) bool {
				if v == root {
					return true
				}
				if v == nil || seen[v] {
					return false
				}
				seen[v] = true
				in, ok := v.(ssa.Instruction)
				if !ok {
					return false
				}
				if _, isPhi := v.(*ssa.Phi); isPhi {
					// loop counters join everything: follow the data, not the loop structure
				}
				for _, op := range in.Operands(nil) {
					if *op != nil && dep(*op, root, seen) {
						return true
					}
				}
				return false
			}
			for _, b := range f.Blocks {
				for _, in := range b.Instrs {
					st, ok := in.(*ssa.Store)
					if !ok {
						continue
					}
					fa, ok := st.Addr.(*ssa.FieldAddr)
					if !ok || !strings.HasSuffix(core.TypeName(fa.X.Type()), "searchset.MatchRange") {
						continue
					}
					name := core.FieldName(fa)
					var other ssa.Value
					if strings.HasPrefix(name, "Target") {
						other = src
					} else if strings.HasPrefix(name, "Src") {
						other = tgt
					} else {
						continue
					}
					own := ssa.Value(tgt)
					if other == ssa.Value(tgt) {
						own = src
					}
					if dep(st.Val, other, map[ssa.Value]bool{}) && !dep(st.Val, own, map[ssa.Value]bool{}) {
						bad = fmt.Sprintf("%s: %s is computed from the %s set alone (%s)", core.ShortFn(f), name, other.Name(), p.Pos(st.Pos()))
					}
				}
			}
		}
		c.R.Check(bad == "", "R17.8", "searchset: a bound on the target side is not taken from the source set, nor the other way round", ssPkg,
			fmt.Sprintf("%d functions with a source and a target set examined", nP), bad+": the bound can lie outside the text it is applied to - TargetRange then indexes past the target's tokens")
		c.R.RequireMin("R17.8", "functions given a source and a target search set", nP, 2)
	}

	// R17.10 the byte range that TargetRange computed for a candidate is used as it is: the bounds with which the
	// normalised text is sliced are the two results of TargetRange themselves, not values computed from them afterwards
	// (a range "widened to the length of the known text" runs past the end of the unknown text)
	{
		tr := p.Func(ssPkg, "(MatchRanges).TargetRange")
		nS, bad := 0, ""
		for _, f := range p.SrcFuncs(scPkg) {
			if core.FuncPkgPath(f) != scPkg {
				continue
			}
			var res []ssa.Value
			for _, call := range core.CallsIn(f) {
				if tr != nil && call.Common().StaticCallee() == tr {
					if cv, ok := call.(*ssa.Call); ok && cv.Referrers() != nil {
						for _, r := range *cv.Referrers() {
							if ex, isEx := r.(*ssa.Extract); isEx {
								res = append(res, ex)
							}
						}
					}
				}
			}
			if len(res) == 0 {
				continue
			}
			isRes := func(v ssa.Value) bool {
				for _, r := range res {
					if v == r {
						return true
					}
				}
				return false
			}
			for _, b := range f.Blocks {
				for _, in := range b.Instrs {
					sl, ok := in.(*ssa.Slice)
					if !ok || !isString(sl.X.Type()) || sl.Low == nil || sl.High == nil {
						continue
					}
					// slices whose bounds have to do with the candidate's range
					touches := false
					for _, bnd := range []ssa.Value{sl.Low, sl.High} {
						seen := map[ssa.Value]bool{}
						var walk func(v ssa.Value)
						walk = func(v ssa.Value) {
							if v == nil || seen[v] {
								return
							}
							seen[v] = true
							if isRes(v) {
								touches = true
							}
							if vi, ok := v.(ssa.Instruction); ok {
								for _, op := range vi.Operands(nil) {
									walk(*op)
								}
							}
						}
						walk(bnd)
					}
					if !touches {
						continue
					}
					nS++
					if !isRes(sl.Low) || !isRes(sl.High) {
						bad = core.ShortFn(f) + " (" + p.Pos(sl.Pos()) + ")"
					}
				}
			}
		}
		c.R.Check(bad == "", "R17.10", "stringclassifier: the text of a candidate is sliced with the bounds TargetRange returned", scPkg, fmt.Sprintf("%d slices of the unknown text by a candidate's range", nS),
			"in "+bad+" the unknown text is sliced with a bound that was computed from TargetRange's result, not with the result itself: the bound can lie outside the text (the slice panics) or outside the candidate")
		c.R.RequireMin("R17.10", "slices of the unknown text by a candidate's range", nS, 1)
	}

	// R17.2 candidates sorted by target position
	gm := p.Func(ssPkg, "getMatchedRanges")
	if c.R.Anchor(gm != nil, "searchset.getMatchedRanges") {
		oa := eng.NewOrderAnalysis(p, []*ssa.Function{gm})
		oa.FindSorts()
		var un ssa.CallInstruction
		for _, call := range core.CallsIn(gm) {
			if cal := call.Common().StaticCallee(); p.IsFn(cal, ssPkg, "untangleSourceRanges") {
				un = call
			}
		}
		ok, why := false, "getMatchedRanges does not sort the matched ranges before untangling them"
		for _, srt := range oa.Sorts {
			if un != nil && srt.Value == un.Common().Args[0] && instrBeforeI(srt.Call, un) {
				if srt.Cmp != nil && srt.Cmp.Undecided == "" && srt.Cmp.FirstKey == "TargetStart" && srt.Cmp.FirstDir == "asc" {
					ok, why = true, "sort.Sort by TargetStart ascending precedes untangleSourceRanges"
				} else {
					why = "the comparator's primary key is not TargetStart ascending (" + firstKeyDesc(srt.Cmp) + ")"
				}
			}
		}
		c.R.Check(ok, "R17.2", "getMatchedRanges orders the matched ranges by target position before untangling", p.Pos(gm.Pos()), why, why+": the untangling and splitting passes assume target order; candidates come back with TargetStart going backwards")
	}

	// R17.4 the byte range of a candidate: from the Offset of its first target token to the end (Offset + len(Text), in
	// bytes) of its last one, which is token TargetEnd-1 (TargetEnd is exclusive)
	if tr := p.Func(ssPkg, "(MatchRanges).TargetRange"); c.R.Anchor(tr != nil, "searchset.(MatchRanges).TargetRange") {
		// tokenField: v == Tokens[idx].F  ->  (idx, F)
		tokenField := func(v ssa.Value) (ssa.Value, string) {
			ld, ok := v.(*ssa.UnOp)
			if !ok {
				return nil, ""
			}
			fa, ok := ld.X.(*ssa.FieldAddr)
			if !ok {
				return nil, ""
			}
			tp, ok := fa.X.(*ssa.UnOp)
			if !ok {
				return nil, ""
			}
			ia, ok := tp.X.(*ssa.IndexAddr)
			if !ok || !strings.HasSuffix(core.AP(ia.X), "Tokens") {
				return nil, ""
			}
			return ia.Index, core.FieldName(fa)
		}
		isRangeField := func(v ssa.Value, field string) bool {
			ld, ok := v.(*ssa.UnOp)
			if !ok {
				return false
			}
			fa, ok := ld.X.(*ssa.FieldAddr)
			return ok && core.FieldName(fa) == field
		}
		okS, okE, whyE := false, false, "the end of the range is not Offset + len(Text) of token TargetEnd-1"
		n := 0
		for _, b := range tr.Blocks {
			ret, ok := b.Instrs[len(b.Instrs)-1].(*ssa.Return)
			if !ok || len(ret.Results) != 2 {
				continue
			}
			n++
			if idx, f := tokenField(ret.Results[0]); idx != nil && f == "Offset" && isRangeField(idx, "TargetStart") {
				okS = true
			}
			if bo, ok := ret.Results[1].(*ssa.BinOp); ok && bo.Op == token.ADD {
				for _, pair := range [][2]ssa.Value{{bo.X, bo.Y}, {bo.Y, bo.X}} {
					ia, fa := tokenField(pair[0])
					call, isCall := pair[1].(*ssa.Call)
					if ia == nil || fa != "Offset" || !isCall {
						continue
					}
					bi, isB := call.Call.Value.(*ssa.Builtin)
					if !isB || bi.Name() != "len" {
						whyE = "the length added to the last token's Offset is " + core.StaticCalleeName(&call.Call) + "(...), not the byte length len(Text): for non-ASCII text the range ends inside the token"
						continue
					}
					ib, fb := tokenField(call.Call.Args[0])
					if ib == nil || fb != "Text" || !sameExpr(ia, ib, 0) {
						whyE = "Offset and Text are not taken from the same token"
						continue
					}
					sub, isSub := ia.(*ssa.BinOp)
					if !isSub || sub.Op != token.SUB || !isRangeField(sub.X, "TargetEnd") {
						whyE = "the last token is taken at index " + core.AP(ia) + ", not TargetEnd-1 (TargetEnd is exclusive): the range includes a token that is not part of the candidate, or indexes past the end"
						continue
					}
					if k, isK := core.ConstInt(sub.Y); !isK || k != 1 {
						continue
					}
					okE, whyE = true, "Tokens[TargetEnd-1].Offset + len(Tokens[TargetEnd-1].Text)"
				}
			}
		}
		c.R.Check(n > 0 && okS, "R17.4", "TargetRange starts at the Offset of token TargetStart of the first range", p.Pos(tr.Pos()), "Tokens[m[0].TargetStart].Offset", "the start of the byte range is not the Offset of the candidate's first target token")
		c.R.Check(n > 0 && okE, "R17.4", "TargetRange ends at Offset + len(Text) of token TargetEnd-1 of the last range", p.Pos(tr.Pos()), whyE, whyE)
	}

	// R17.11: every candidate that is handed out is a non-empty list of ranges: a list of candidates that a function of the
	// search set returns is built by append - or, where it is allocated with a length (make([]T, n)) and filled by index, every
	// round of the filling loop stores (no round is skipped) - otherwise the cells that were not filled are empty candidates,
	// and TargetRange indexes their first range
	{
		nM, bad := 0, ""
		for _, fn := range pkgFuncs(p, ssPkg) {
			for _, b := range fn.Blocks {
				for _, in := range b.Instrs {
					ms, ok := in.(*ssa.MakeSlice)
					if !ok {
						continue
					}
					if k, isK := core.ConstInt(ms.Len); isK && k == 0 {
						continue
					}
					sl, isSl := ms.Type().Underlying().(*types.Slice)
					if !isSl {
						continue
					}
					if _, elemSl := sl.Elem().Underlying().(*types.Slice); !elemSl {
						continue // only lists of lists (candidates) matter here
					}
					nM++
					// is it returned as it is?
					returned := false
					for _, r := range *ms.Referrers() {
						switch u := r.(type) {
						case *ssa.Return:
							returned = true
						case *ssa.Phi:
							for _, r2 := range *u.Referrers() {
								if _, isRet := r2.(*ssa.Return); isRet {
									returned = true
								}
							}
						}
					}
					if !returned {
						continue
					}
					cd := core.NewPostDom(fn).TransitiveControlDeps()
					for _, r := range *ms.Referrers() {
						ia, isIA := r.(*ssa.IndexAddr)
						if !isIA {
							continue
						}
						// the store's block: controlled by anything but loop headers?
						for d := range cd[ia.Block()] {
							isHeader := false
							for _, pr := range d.Preds {
								if d.Dominates(pr) {
									isHeader = true
								}
							}
							if !isHeader && bad == "" {
								bad = core.ShortFn(fn) + ": the list allocated at " + p.Pos(ms.Pos()) + " is filled at " + p.Pos(ia.Pos()) + " only when the test at " + p.Pos(d.Instrs[len(d.Instrs)-1].Pos()) + " allows it, and is returned in its full length"
							}
						}
					}
				}
			}
		}
		c.R.Check(bad == "", "R17.11", "a list of candidates that is returned has no unfilled cells", ssPkg, fmt.Sprintf("%d lists of lists allocated with a length", nM),
			bad+": the cells of the skipped rounds stay empty - a candidate without ranges, whose first range TargetRange reads (index out of range)")
	}
	// R17.2b the candidates leave FindPotentialMatches in the order the pipeline produced them: no other sort
	if fpm := p.Func(ssPkg, "FindPotentialMatches"); c.R.Anchor(fpm != nil, "searchset.FindPotentialMatches") {
		oa := eng.NewOrderAnalysis(p, []*ssa.Function{fpm})
		oa.FindSorts()
		bad := ""
		for _, srt := range oa.Sorts {
			if srt.Cmp != nil && srt.Cmp.Undecided == "" && srt.Cmp.FirstKey == "TargetStart" && srt.Cmp.FirstDir == "asc" {
				continue
			}
			bad = p.Pos(srt.Call.Pos()) + " (" + firstKeyDesc(srt.Cmp) + ")"
		}
		c.R.Check(bad == "", "R17.2", "FindPotentialMatches does not reorder the candidates by anything but target position", p.Pos(fpm.Pos()), fmt.Sprintf("%d sort(s) in FindPotentialMatches, none by another key", len(oa.Sorts)),
			"the candidate list is sorted at "+bad+": callers receive candidates whose target positions go backwards")
	}

	// R17.3 the tokenised string is the string offsets are applied to
	nw := p.Func(ssPkg, "New")
	if c.R.Anchor(nw != nil, "searchset.New") {
		ok := false
		for _, call := range core.CallsIn(nw) {
			if call.Common().StaticCallee() == tk {
				ok = call.Common().Args[0] == ssa.Value(nw.Params[0])
			}
		}
		c.R.Check(ok, "R17.3", "searchset.New tokenises exactly the string it was given", p.Pos(nw.Pos()), "Tokenize(s) with s the parameter", "the search set is built from a modified copy of the string: token offsets index the copy while callers slice the original")
	}
	nm := p.Func(scPkg, "newMatcher")
	if c.R.Anchor(nm != nil, "stringclassifier.newMatcher") {
		for _, lit := range structLits([]*ssa.Function{nm}, "stringclassifier.matcher") {
			var ssArg ssa.Value
			if call, ok := lit.fields["unknown"].(*ssa.Call); ok && call.Call.StaticCallee() == nw {
				ssArg = call.Call.Args[0]
			}
			ok := ssArg != nil && ssArg == lit.fields["normUnknown"]
			c.R.Check(ok, "R17.3", "newMatcher: the search set and the string that offsets slice are built from the same value", p.Pos(lit.alloc.Pos()), "unknown: searchset.New(u), normUnknown: u", "offsets computed on one string are applied to another")
		}
	}
}

// isInputValue: v denotes the parameter prm, never reassigned: the parameter itself, a load of its spill cell, or a
// load of a closure variable bound to that cell, where the cell is stored only once (the parameter).
func isInputValue(v ssa.Value, prm *ssa.Parameter) bool {
	if v == ssa.Value(prm) {
		return true
	}
	ld, ok := v.(*ssa.UnOp)
	if !ok || ld.Op != token.MUL {
		return false
	}
	var cell *ssa.Alloc
	switch x := ld.X.(type) {
	case *ssa.Alloc:
		cell = x
	case *ssa.FreeVar:
		cell, _ = boundCell(x).(*ssa.Alloc)
	}
	if cell == nil || cell.Parent() != prm.Parent() {
		return false
	}
	// stores to the cell: directly, or through any closure variable bound to it
	n := 0
	okSrc := true
	for _, r := range *cell.Referrers() {
		switch y := r.(type) {
		case *ssa.Store:
			if y.Addr == ssa.Value(cell) {
				n++
				if y.Val != ssa.Value(prm) {
					okSrc = false
				}
			}
		case *ssa.MakeClosure:
			fn, _ := y.Fn.(*ssa.Function)
			for i, bd := range y.Bindings {
				if bd != ssa.Value(cell) || fn == nil || i >= len(fn.FreeVars) {
					continue
				}
				for _, u := range *fn.FreeVars[i].Referrers() {
					if st, ok := u.(*ssa.Store); ok && st.Addr == ssa.Value(fn.FreeVars[i]) {
						okSrc = false
					}
					if _, ok := u.(*ssa.MakeClosure); ok {
						okSrc = false // captured again by a nested closure: not followed
					}
				}
			}
		}
	}
	return n == 1 && okSrc
}

// cellOf: the variable an address denotes: a local cell, or the cell a closure variable is bound to.
func cellOf(addr ssa.Value) ssa.Value {
	switch x := addr.(type) {
	case *ssa.Alloc:
		return x
	case *ssa.FreeVar:
		if c := boundCell(x); c != nil {
			return c
		}
		return x
	}
	return nil
}

// boundCell: the value bound to a closure variable where the closure is created.
func boundCell(fv *ssa.FreeVar) ssa.Value {
	f := fv.Parent()
	if f.Parent() == nil {
		return nil
	}
	idx := -1
	for i, x := range f.FreeVars {
		if x == fv {
			idx = i
		}
	}
	var out ssa.Value
	for _, b := range f.Parent().Blocks {
		for _, in := range b.Instrs {
			if mc, ok := in.(*ssa.MakeClosure); ok && mc.Fn == ssa.Value(f) && idx >= 0 && idx < len(mc.Bindings) {
				if out != nil && out != mc.Bindings[idx] {
					return nil
				}
				out = mc.Bindings[idx]
			}
		}
	}
	return out
}

// sameValueAt: a and b are the same SSA value, or two loads of the same cell in one block with no store or call
// between them.
func sameValueAt(a, b ssa.Value) bool {
	if a == b {
		return true
	}
	la, ok1 := a.(*ssa.UnOp)
	lb, ok2 := b.(*ssa.UnOp)
	if !ok1 || !ok2 || la.Op != token.MUL || lb.Op != token.MUL || la.X != lb.X || la.Block() != lb.Block() {
		return false
	}
	in := false
	for _, x := range la.Block().Instrs {
		if x == ssa.Instruction(la) || x == ssa.Instruction(lb) {
			if in {
				return true
			}
			in = true
			continue
		}
		if !in {
			continue
		}
		switch x.(type) {
		case *ssa.Store, *ssa.Call, *ssa.Go, *ssa.Defer, *ssa.MapUpdate:
			return false
		}
	}
	return false
}

// sameExpr: a and b are the same SSA value or structurally identical side-effect-free expressions (loads, field and
// index addresses, arithmetic on constants and parameters).
func sameExpr(a, b ssa.Value, depth int) bool {
	if a == b {
		return true
	}
	if depth > 10 || a == nil || b == nil {
		return false
	}
	switch x := a.(type) {
	case *ssa.Const:
		y, ok := b.(*ssa.Const)
		return ok && x.Value != nil && y.Value != nil && x.Value.ExactString() == y.Value.ExactString()
	case *ssa.UnOp:
		y, ok := b.(*ssa.UnOp)
		return ok && x.Op == y.Op && sameExpr(x.X, y.X, depth+1)
	case *ssa.FieldAddr:
		y, ok := b.(*ssa.FieldAddr)
		return ok && x.Field == y.Field && sameExpr(x.X, y.X, depth+1)
	case *ssa.Field:
		y, ok := b.(*ssa.Field)
		return ok && x.Field == y.Field && sameExpr(x.X, y.X, depth+1)
	case *ssa.IndexAddr:
		y, ok := b.(*ssa.IndexAddr)
		return ok && sameExpr(x.X, y.X, depth+1) && sameExpr(x.Index, y.Index, depth+1)
	case *ssa.BinOp:
		y, ok := b.(*ssa.BinOp)
		return ok && x.Op == y.Op && sameExpr(x.X, y.X, depth+1) && sameExpr(x.Y, y.Y, depth+1)
	case *ssa.Call:
		y, ok := b.(*ssa.Call)
		if !ok {
			return false
		}
		bx, ok1 := x.Call.Value.(*ssa.Builtin)
		by, ok2 := y.Call.Value.(*ssa.Builtin)
		if !ok1 || !ok2 || bx.Name() != "len" || by.Name() != "len" || len(x.Call.Args) != 1 || len(y.Call.Args) != 1 {
			return false
		}
		return sameExpr(x.Call.Args[0], y.Call.Args[0], depth+1)
	}
	return false
}

// sliceFamilyThrough: like sliceFamily but also follows utf8.AppendRune(x, r) results (x -> result) and re-slicing.
func sliceFamilyThrough(v ssa.Value) map[ssa.Value]bool {
	fam := map[ssa.Value]bool{}
	var walk func(x ssa.Value)
	walk = func(x ssa.Value) {
		if x == nil || fam[x] {
			return
		}
		fam[x] = true
		switch y := x.(type) {
		case *ssa.Phi:
			for _, e := range y.Edges {
				walk(e)
			}
		case *ssa.Slice:
			walk(y.X)
		case *ssa.Call:
			if b, ok := y.Call.Value.(*ssa.Builtin); ok && b.Name() == "append" {
				walk(y.Call.Args[0])
			}
			if core.StaticCalleeName(&y.Call) == "unicode/utf8.AppendRune" {
				walk(y.Call.Args[0])
			}
		}
	}
	walk(v)
	return fam
}

func isString(t types.Type) bool {
	b, ok := t.Underlying().(*types.Basic)
	return ok && b.Info()&types.IsString != 0
}

// checkNormalizeEOLGuard: R11.5. Normalize re-creates line breaks from the tokens' line numbers; the
// end-of-line tokens themselves must never be written as text. Every write of a dictionary word into
// the output must therefore be dominated by the test `word != eol` (sibling consistency: the loop
// body has the test; any write without it emits an extra newline and shifts every following line).
// writeSite: a write into the output of Normalize - in Normalize itself, or in a helper of the package that Normalize calls
// (a writer type with methods): leaf is the write, top the instruction of Normalize it happens under (the write itself or
// the call of the helper), arg the value written, seen from Normalize (a helper's parameter is replaced by the argument).
type writeSite struct {
	leaf ssa.CallInstruction
	top  ssa.Instruction
	arg  ssa.Value
}

func normalizeWriteSites(nz *ssa.Function) []writeSite {
	var out []writeSite
	isWrite := func(call ssa.CallInstruction) bool {
		n := core.StaticCalleeName(call.Common())
		return (strings.HasSuffix(n, ").WriteString") || strings.HasSuffix(n, ").WriteByte") || strings.HasSuffix(n, ").WriteRune")) && len(call.Common().Args) == 2
	}
	for _, call := range core.CallsIn(nz) {
		if isWrite(call) {
			out = append(out, writeSite{call, call, call.Common().Args[1]})
			continue
		}
		h := call.Common().StaticCallee()
		if h == nil || core.FuncPkgPath(h) != v2pkg || len(h.Blocks) == 0 {
			continue
		}
		for _, hc := range core.CallsIn(h) {
			if !isWrite(hc) {
				continue
			}
			arg := hc.Common().Args[1]
			if prm, ok := arg.(*ssa.Parameter); ok {
				for k, q := range h.Params {
					if q == prm && k < len(call.Common().Args) {
						arg = call.Common().Args[k]
					}
				}
			}
			out = append(out, writeSite{hc, call, arg})
		}
	}
	return out
}

func checkNormalizeEOLGuard(c *Ctx, p *core.Prog, nz *ssa.Function) {
	eolG := p.Global(v2pkg, "eol")
	getWord := p.Func(v2pkg, "(*dictionary).getWord")
	if !c.R.Anchor(eolG != nil, "v2.eol") || !c.R.Anchor(getWord != nil, "v2.(*dictionary).getWord") {
		return
	}
	sites := normalizeWriteSites(nz)
	isWordWrite := func(ws writeSite) (*ssa.Call, bool) {
		if !strings.HasSuffix(core.StaticCalleeName(ws.leaf.Common()), ").WriteString") {
			return nil, false
		}
		w, isCall := ws.arg.(*ssa.Call)
		if !isCall || w.Call.StaticCallee() != getWord {
			return nil, false
		}
		return w, true
	}
	n := 0
	for _, ws := range sites {
		w, ok := isWordWrite(ws)
		if !ok {
			continue
		}
		n++
		guarded := false
		for _, f := range core.FactsAtInstr(ws.top) {
			cmp, ok := f.AsCmp()
			if !ok || cmp.Op != token.NEQ {
				continue
			}
			isEOL := func(v ssa.Value) bool {
				u, ok := v.(*ssa.UnOp)
				return ok && u.Op == token.MUL && u.X == ssa.Value(eolG)
			}
			if s, isS := core.ConstString(cmp.Y); (cmp.X == ssa.Value(w) && (isEOL(cmp.Y) || (isS && s == "\n"))) || (cmp.Y == ssa.Value(w) && isEOL(cmp.X)) {
				guarded = true
			}
		}
		// the test can also stand in the helper that writes, on the parameter the word is handed in
		if !guarded && ws.top != ssa.Instruction(ws.leaf) {
			if prm, isPrm := ws.leaf.Common().Args[1].(*ssa.Parameter); isPrm {
				for _, f := range core.FactsAtInstr(ws.leaf) {
					cmp, ok := f.AsCmp()
					if !ok || cmp.Op != token.NEQ {
						continue
					}
					isEOL := func(v ssa.Value) bool {
						u, ok := v.(*ssa.UnOp)
						return ok && u.Op == token.MUL && u.X == ssa.Value(eolG)
					}
					if s, isS := core.ConstString(cmp.Y); (cmp.X == ssa.Value(prm) && (isEOL(cmp.Y) || (isS && s == "\n"))) || (cmp.Y == ssa.Value(prm) && isEOL(cmp.X)) {
						guarded = true
					}
				}
			}
		}
		c.R.Check(guarded, "R11.5", "Normalize: a word is written out only after it was tested not to be the end-of-line token", p.Pos(ws.top.Pos()),
			"dominated by word != eol", "a token's text is written without the end-of-line test that the main loop applies: when that token is an end-of-line token (input starting with a blank or removed line) an extra newline is emitted and every following line of the output is shifted against the line numbers Match reports")
	}
	c.R.RequireMin("R11.5", "words written by Normalize", n, 1)

	// R11.9: a line break is written for every line a token lies behind the previous one: the write of the end-of-line
	// string sits under an ordering test on the token's line (a loop up to it), not under an equality with "previous+1"
	// (a hyphenated word can put the next token several lines further).
	nE := 0
	var eolWrites []writeSite
	for _, ws := range sites {
		name := core.StaticCalleeName(ws.leaf.Common())
		isEOLWrite := false
		if strings.HasSuffix(name, ").WriteString") {
			if u, ok := ws.arg.(*ssa.UnOp); ok && u.Op == token.MUL && u.X == ssa.Value(eolG) {
				isEOLWrite = true
			}
			if sv, ok := core.ConstString(ws.arg); ok && sv == "\n" {
				isEOLWrite = true
			}
		}
		if strings.HasSuffix(name, ").WriteByte") || strings.HasSuffix(name, ").WriteRune") {
			if k, ok := core.ConstInt(ws.arg); ok && k == '\n' {
				isEOLWrite = true
			}
		}
		if !isEOLWrite {
			continue
		}
		nE++
		// a line number: a Line field of a token, or - inside a helper - the parameter that is handed one
		isLine := func(v ssa.Value) bool {
			if strings.HasSuffix(core.AP(v), ".Line") {
				return true
			}
			if prm, ok := v.(*ssa.Parameter); ok && ws.top != ssa.Instruction(ws.leaf) {
				if tc, isCall := ws.top.(ssa.CallInstruction); isCall {
					for k, q := range prm.Parent().Params {
						if q == prm && k < len(tc.Common().Args) && strings.HasSuffix(core.AP(tc.Common().Args[k]), ".Line") {
							return true
						}
					}
				}
			}
			return false
		}
		ordered, equal := false, false
		facts := core.FactsAtInstr(ws.leaf)
		if ws.top != ssa.Instruction(ws.leaf) {
			facts = append(facts, core.FactsAtInstr(ws.top)...)
		}
		for _, f := range facts {
			cmp, ok := f.AsCmp()
			if !ok || !(isLine(cmp.X) || isLine(cmp.Y)) {
				continue
			}
			switch cmp.Op {
			case token.LSS, token.GTR, token.LEQ, token.GEQ:
				ordered = true
			case token.EQL:
				equal = true
			}
		}
		// ... and it is repeated: it sits in a loop of its own inside the loop over the tokens (one write under a
		// "line changed" test gives one line break however many lines the token lies further)
		depth := loopDepthOf(ws.leaf.Block())
		if ws.top != ssa.Instruction(ws.leaf) {
			depth += loopDepthOf(ws.top.Block())
		}
		if depth < 2 {
			ordered = false
		}
		eolWrites = append(eolWrites, ws)
		c.R.Check(ordered && !equal, "R11.9", "Normalize: a line break is written for every line the token lies behind the previous one", p.Pos(ws.leaf.Pos()),
			"the end-of-line write is repeated while the written line is behind the token's line", "the end-of-line write is guarded by an equality on the token's line (exactly one line further): after a word hyphenated over two line breaks the next token lies two lines further, no line break (and no blank) is written and the words are glued together")
	}
	c.R.RequireMin("R11.9", "end-of-line writes of Normalize", nE, 1)

	// R11.11: every word is written behind the line breaks that lead to its line - the first token too: its line is not
	// always 1 (lines can be removed without leaving an end-of-line token, e.g. a notice ending in a word hyphenated over the
	// line break). A word write outside the loop that writes the line breaks puts that word on the wrong line.
	nW := 0
	for _, ws := range sites {
		if _, ok := isWordWrite(ws); !ok {
			continue
		}
		nW++
		wb := ws.top.Block()
		inSameLoop := false
		for h := wb; h != nil; h = h.Idom() {
			isHeader := false
			for _, pr := range h.Preds {
				if h.Dominates(pr) {
					isHeader = true
				}
			}
			if !isHeader || !reaches(wb, h) {
				continue
			}
			for _, ew := range eolWrites {
				if h.Dominates(ew.top.Block()) && reaches(ew.top.Block(), h) {
					inSameLoop = true
				}
			}
		}
		c.R.Check(inSameLoop, "R11.11", "Normalize: a word is written in the loop that first writes the line breaks up to its line", p.Pos(ws.top.Pos()),
			"the word write shares a loop with an end-of-line write", "a token is written without the line breaks that lead to its line (a first token that is assumed to lie on line 1): when the first lines of the input were removed without an end-of-line token the word lands on an earlier line than Match attributes it to")
	}
	c.R.RequireMin("R11.11", "words written by Normalize", nW, 1)
}

// checkRunDetectorQ: shared by C01 and C10 (rule id R01.2).
func checkRunDetectorQ(c *Ctx, p *core.Prog) {
	// the run detector works with the q the source search set was built with (clamped for short documents)
	if fpm := p.Func(v2pkg, "(*Classifier).findPotentialMatches"); c.R.Anchor(fpm != nil, "v2.(*Classifier).findPotentialMatches") {
		gm := p.Func(v2pkg, "(*Classifier).getMatchedRanges")
		for _, call := range core.CallsIn(fpm) {
			if gm == nil || call.Common().StaticCallee() != gm {
				continue
			}
			args := call.Common().Args
			src := fpm.Params[1]
			okQ := false
			for _, a := range args {
				if ld, isLd := a.(*ssa.UnOp); isLd {
					if fa, isFA := ld.X.(*ssa.FieldAddr); isFA && fa.X == ssa.Value(src) {
						if bt, isB := ld.Type().Underlying().(*types.Basic); isB && bt.Kind() == types.Int {
							okQ = true
						}
					}
				}
			}
			c.R.Check(okQ, "R01.2", "findPotentialMatches: runs are detected with the source search set's own q", p.Pos(call.Pos()), "q argument is a field of the source search set", "the q handed to the run detector is not the (clamped) q the source document's q-grams were built with: for documents shorter than q, or thresholds close to 1, the window arithmetic works with a q that has nothing to do with the hashes")
		}
	}

}

// noTrailingDotValue: v cannot end in ".": strings.TrimRight(x, "."), a value returned under a failed
// strings.HasSuffix(v, ".") test, or the result of an in-repo function all of whose returns are such values.
func noTrailingValue(v ssa.Value, sfx string, depth int) bool {
	if depth > 3 {
		return false
	}
	call, isCall := v.(*ssa.Call)
	if !isCall {
		return false
	}
	if core.StaticCalleeName(&call.Call) == "strings.TrimRight" {
		if s, isS := core.ConstString(call.Call.Args[1]); isS && strings.Contains(s, sfx) {
			return true
		}
		return false
	}
	f := call.Call.StaticCallee()
	if f == nil || !core.InRepo(f) || len(f.Blocks) == 0 {
		return false
	}
	n := 0
	for _, b := range f.Blocks {
		ret, ok := b.Instrs[len(b.Instrs)-1].(*ssa.Return)
		if !ok || len(ret.Results) != 1 {
			continue
		}
		n++
		rv := ret.Results[0]
		good := noTrailingValue(rv, sfx, depth+1)
		for _, fct := range core.FactsAt(b) {
			if hc, isC := fct.Cond.(*ssa.Call); isC && !fct.Truth && core.StaticCalleeName(&hc.Call) == "strings.HasSuffix" && hc.Call.Args[0] == rv {
				if s, isS := core.ConstString(hc.Call.Args[1]); isS && s == sfx {
					good = true
				}
			}
		}
		if !good {
			return false
		}
	}
	return n > 0
}

// checkTruncationOrder: R01.8. A list that is cut at its first element below a bound (`for i, m := range l { if m.F < bound
// { l = l[:i]; break } }`) loses everything behind that element - which is only right if the list is in descending order
// of F. Two sites cooperate: the loop that cuts, and the sort in the function that produced the list. The rule finds the
// cut, follows the list back through the package's own functions to the slice that is returned, and requires a sort of
// that slice, before the return, whose first key is F, descending.
func checkTruncationOrder(c *Ctx, p *core.Prog) {
	n := 0
	for _, fn := range pkgFuncs(p, v2pkg) {
		for _, rl := range rangeLoopsOf(fn) {
			if _, isSl := rl.over.Type().Underlying().(*types.Slice); !isSl {
				continue
			}
			loop := naturalLoop(rl.header)
			for _, b := range fn.Blocks {
				if !loop[b] || b == rl.header {
					continue
				}
				ifi, ok := b.Instrs[len(b.Instrs)-1].(*ssa.If)
				if !ok {
					continue
				}
				bo, ok := ifi.Cond.(*ssa.BinOp)
				if !ok || (bo.Op != token.LSS && bo.Op != token.LEQ) {
					continue
				}
				field := ""
				switch x := bo.X.(type) {
				case *ssa.UnOp:
					if fa, isFA := x.X.(*ssa.FieldAddr); isFA {
						field = core.FieldName(fa)
					}
				case *ssa.Field:
					if st, isSt := x.X.Type().Underlying().(*types.Struct); isSt {
						field = st.Field(x.Field).Name()
					}
				}
				if field == "" {
					continue
				}
				// the true branch re-slices the ranged list from its start and leaves the loop (or returns the cut list)
				cuts := false
				for _, in := range b.Succs[0].Instrs {
					if sl, isSl := in.(*ssa.Slice); isSl && sl.X == rl.over && sl.Low == nil && sl.High != nil {
						cuts = true
					}
				}
				leaves := false
				for _, sc := range b.Succs[0].Succs {
					if !loop[sc] {
						leaves = true
					}
				}
				if _, isRet := b.Succs[0].Instrs[len(b.Succs[0].Instrs)-1].(*ssa.Return); isRet {
					leaves = true
				}
				if !cuts || !leaves {
					continue
				}
				n++
				var ok2 bool
				var why string
				if prm, isPrm := core.Unspill(rl.over).(*ssa.Parameter); isPrm {
					// the cut is a helper of its own: the list is what the callers hand it
					idx := -1
					for k, q := range fn.Params {
						if q == prm {
							idx = k
						}
					}
					sites, escapes := eng.CallSitesOf(fn)
					ok2, why = idx >= 0 && !escapes && len(sites) > 0, "the helper that cuts the list has no call sites that can be followed"
					for _, cs := range sites {
						if !ok2 {
							break
						}
						ok2, why = producerSortedBy(p, cs.Common().Args[idx], field, 1)
					}
				} else {
					ok2, why = producerSortedBy(p, rl.over, field, 0)
				}
				c.R.Check(ok2, "R01.8", core.ShortFn(fn)+": the list cut at the first element with a small "+field+" is in descending order of "+field, p.Pos(ifi.Cond.Pos()), why,
					why+": the cut drops every element behind the first small one, among them candidates that are large enough - a verbatim copy is never scored when a weaker candidate sorts in front of it")
			}
		}
	}
	// (no floor: the cut can be written in other ways - a counting loop and one re-slice behind it; then there is nothing
	// this rule recognises, and it says so)
	if n == 0 {
		c.R.Info("R01.8", "v2: lists cut at the first element below a bound", v2pkg, "none found in the shape `for i, m := range l { if m.F < bound { ... l[:i] ... } }`: not decided")
	}
}

// producerSortedBy: the slice v was, in the function that made it, sorted with first key `field` descending, and not
// re-ordered afterwards.
func producerSortedBy(p *core.Prog, v ssa.Value, field string, depth int) (bool, string) {
	if depth > 4 {
		return false, "the list's origin is more than four calls away"
	}
	switch x := v.(type) {
	case *ssa.Const:
		if x.IsNil() {
			return true, "nil"
		}
	case *ssa.Phi:
		why := ""
		for _, e := range x.Edges {
			ok, w := producerSortedBy(p, e, field, depth+1)
			if !ok {
				return false, w
			}
			why = w
		}
		return true, why
	case *ssa.Call:
		g := x.Call.StaticCallee()
		if g == nil || core.FuncPkgPath(g) != v2pkg || len(g.Blocks) == 0 {
			return false, "the list comes from a call that is not a function of the package (" + core.StaticCalleeName(&x.Call) + ")"
		}
		oa := eng.NewOrderAnalysis(p, []*ssa.Function{g})
		oa.FindSorts()
		why := "no return"
		for _, b := range g.Blocks {
			ret, ok := b.Instrs[len(b.Instrs)-1].(*ssa.Return)
			if !ok || len(ret.Results) == 0 {
				continue
			}
			r := ret.Results[0]
			if cst, isC := r.(*ssa.Const); isC && cst.IsNil() {
				continue
			}
			if inner, isCall := r.(*ssa.Call); isCall {
				if cal := inner.Call.StaticCallee(); cal != nil && core.FuncPkgPath(cal) == v2pkg {
					ok2, w := producerSortedBy(p, inner, field, depth+1)
					if !ok2 {
						return false, w
					}
					why = w
					continue
				}
			}
			// the last sort of this slice (or of a member of its append web) before the return
			fam := sliceFamily(r)
			var last *eng.SortSite
			for i := range oa.Sorts {
				srt := oa.Sorts[i]
				if (srt.Value == r || fam[srt.Value]) && srt.Call.Block().Dominates(b) {
					if last == nil || instrBeforeI(last.Call, srt.Call) {
						last = srt
					}
				}
			}
			if last == nil {
				return false, core.ShortFn(g) + " returns the list without sorting it (" + p.Pos(ret.Pos()) + ")"
			}
			if last.Cmp == nil || last.Cmp.Undecided != "" || last.Cmp.FirstKey != field || last.Cmp.FirstDir != "desc" {
				return false, "the last sort of the list in " + core.ShortFn(g) + " (" + p.Pos(last.Call.Pos()) + ") orders by " + firstKeyDesc(last.Cmp) + ", not by " + field + " descending"
			}
			why = "sorted in " + core.ShortFn(g) + " by " + field + " descending before it is returned"
		}
		return true, why
	}
	return false, "the list's origin is not a call of a function of the package"
}

// checkLineStringifier: two rules on the function that turns the words of a line into tokens (it returns the tokens and,
// if the line is a notice, the pseudo-match that reports it).
// R06.14 both results are used wherever it is called: a caller that takes the tokens and drops the match ignores a notice
// without reporting it (on the last line of an input that does not end in a line break, say).
// R06.15 the position it gives the word clean-up is the position in the line: it includes the offset of the words that were
// handed over earlier from the same line. (Without it the word behind the remainder of a hyphenated word counts as the
// first of its line and is dropped when it looks like a list marker.)
func checkLineStringifier(c *Ctx, p *core.Prog) {
	var sf *ssa.Function
	var cands []*ssa.Function
	for _, f := range pkgFuncs(p, v2pkg) {
		if f.Parent() != nil || f.Signature.Results().Len() != 2 {
			continue
		}
		r0, r1 := f.Signature.Results().At(0).Type(), f.Signature.Results().At(1).Type()
		if sl, ok := r0.Underlying().(*types.Slice); ok && core.StructOf(sl.Elem()) != nil && strings.HasSuffix(core.TypeName(r1), "/v2.Match") {
			cands = append(cands, f)
		}
	}
	// the stringifier split into phases: the phase with the same results is called by the stringifier, not the other way round
	for _, f := range cands {
		inner := false
		sites, _ := eng.CallSitesOf(f)
		for _, cs := range sites {
			for _, g := range cands {
				if g != f && cs.Parent() == g {
					inner = true
				}
			}
		}
		if !inner {
			sf = f
		}
	}
	if !c.R.Anchor(sf != nil, "v2: the function that turns a line's words into tokens and a notice match") {
		return
	}
	sites, _ := eng.CallSitesOf(sf)
	for _, cs := range sites {
		cv, ok := cs.(*ssa.Call)
		if !ok {
			continue
		}
		used := false
		if cv.Referrers() != nil {
			for _, r := range *cv.Referrers() {
				if ex, isEx := r.(*ssa.Extract); isEx && ex.Index == 1 && ex.Referrers() != nil && len(*ex.Referrers()) > 0 {
					for _, u := range *ex.Referrers() {
						if _, isDbg := u.(*ssa.DebugRef); !isDbg {
							used = true
						}
					}
				}
			}
		}
		c.R.Check(used, "R06.14", core.ShortFn(cs.Parent())+": the notice match of a line is taken from "+sf.Name(), p.Pos(cs.Pos()), "the second result is used",
			"the match that "+sf.Name()+" returns for a notice line is dropped at this call: the line's words are ignored but no Copyright match reports them")
	}
	c.R.RequireMin("R06.14", "calls of the line stringifier", len(sites), 1)
	// R06.15
	var clean *ssa.Function
	nC := 0
	isCleanup := func(cal *ssa.Function) bool {
		if cal == nil || core.FuncPkgPath(cal) != v2pkg || len(cal.Params) < 2 {
			return false
		}
		// the clean-up: (position int, word string, ...) string
		bt, ok := cal.Params[0].Type().Underlying().(*types.Basic)
		return ok && bt.Kind() == types.Int && isString(cal.Params[1].Type()) && cal.Signature.Results().Len() == 1 && isString(cal.Signature.Results().At(0).Type())
	}
	intOffsets := func(f *ssa.Function) []*ssa.Parameter {
		var offs []*ssa.Parameter
		for i, prm := range f.Params {
			if bt, ok := prm.Type().Underlying().(*types.Basic); ok && bt.Kind() == types.Int && !isLineParam(f, i, 0) {
				offs = append(offs, prm)
			}
		}
		return offs
	}
	dependsOn := func(v ssa.Value, roots []*ssa.Parameter) bool {
		dep := false
		seen := map[ssa.Value]bool{}
		var walk func(v ssa.Value)
		walk = func(v ssa.Value) {
			if v == nil || seen[v] {
				return
			}
			seen[v] = true
			for _, o := range roots {
				if v == ssa.Value(o) {
					dep = true
				}
			}
			if in, ok := v.(ssa.Instruction); ok {
				for _, op := range in.Operands(nil) {
					walk(*op)
				}
			}
		}
		walk(v)
		return dep
	}
	const r15bad = "the position given to the word clean-up does not include the offset of the words already handed over from this line: the word behind the remainder of a hyphenated word is taken for the first word of its line, and dropped if it looks like a list marker"
	for _, call := range core.CallsIn(sf) {
		cal := call.Common().StaticCallee()
		if isCleanup(cal) {
			clean = cal
			nC++
			offs := intOffsets(sf)
			c.R.Check(len(offs) > 0 && dependsOn(call.Common().Args[0], offs), "R06.15", sf.Name()+": the position given to "+cal.Name()+" includes the offset of the words handed over before", p.Pos(call.Pos()),
				"the position is computed from the offset parameter", r15bad)
			continue
		}
		// a helper of the stringifier that cleans the words of the line: the position it computes includes the offset it
		// is handed, and it is handed the stringifier's offset
		if cal == nil || core.FuncPkgPath(cal) != v2pkg || len(cal.Blocks) == 0 {
			continue
		}
		for _, inner := range core.CallsIn(cal) {
			ic := inner.Common().StaticCallee()
			if !isCleanup(ic) {
				continue
			}
			clean = ic
			nC++
			hOffs := intOffsets(cal)
			okH := len(hOffs) > 0 && dependsOn(inner.Common().Args[0], hOffs)
			okS := false
			for k, q := range cal.Params {
				for _, ho := range hOffs {
					if q == ho && k < len(call.Common().Args) && dependsOn(inner.Common().Args[0], []*ssa.Parameter{ho}) && dependsOn(call.Common().Args[k], intOffsets(sf)) {
						okS = true
					}
				}
			}
			c.R.Check(okH && okS, "R06.15", sf.Name()+": the position given to "+ic.Name()+" (in "+cal.Name()+") includes the offset of the words handed over before", p.Pos(inner.Pos()),
				"the helper computes the position from its offset parameter, which is handed the stringifier's offset", r15bad)
		}
	}
	_ = clean
	c.R.RequireMin("R06.15", "calls of the word clean-up in the line stringifier", nC, 1)
}

// checkNoCandidateCap: R01.9. Every copy in the input is a candidate of its own: the lists of candidates (match ranges,
// matches) have no fixed capacity. An append that only happens while the list is shorter than a constant, or a list that
// is re-sliced to a constant length, loses the candidates beyond it - the 33rd copy of a document, the licenses behind
// 512 notice lines.
func checkNoCandidateCap(c *Ctx, p *core.Prog) {
	isCandList := func(t types.Type) bool {
		sl, ok := t.Underlying().(*types.Slice)
		if !ok {
			return false
		}
		n := core.TypeName(sl.Elem())
		return strings.HasSuffix(n, "/v2.Match") || strings.HasSuffix(n, "/v2.matchRange")
	}
	nApp, bad := 0, ""
	for _, fn := range pkgFuncs(p, v2pkg) {
		if isTraceFn(fn) {
			continue
		}
		cdeps := core.NewPostDom(fn).TransitiveControlDeps()
		for _, b := range fn.Blocks {
			for _, in := range b.Instrs {
				switch x := in.(type) {
				case *ssa.Call:
					bi, ok := x.Call.Value.(*ssa.Builtin)
					if !ok || bi.Name() != "append" || !isCandList(x.Type()) {
						continue
					}
					nApp++
					fam := sliceFamily(x)
					for d := range cdeps[b] {
						ifi, ok := d.Instrs[len(d.Instrs)-1].(*ssa.If)
						if !ok {
							continue
						}
						// a test of len(the list) against a constant
						var visit func(v ssa.Value, depth int)
						visit = func(v ssa.Value, depth int) {
							if depth > 4 {
								return
							}
							bo, ok := v.(*ssa.BinOp)
							if !ok {
								return
							}
							for _, pair := range [][2]ssa.Value{{bo.X, bo.Y}, {bo.Y, bo.X}} {
								lc, isCall := pair[0].(*ssa.Call)
								k, isK := core.ConstInt(pair[1])
								if !isCall || !isK || k <= 1 {
									continue
								}
								if lb, isB := lc.Call.Value.(*ssa.Builtin); isB && lb.Name() == "len" && fam[lc.Call.Args[0]] {
									bad = fmt.Sprintf("%s: the append at %s happens only while the list is shorter than %d", core.ShortFn(fn), p.Pos(x.Pos()), k)
								}
							}
							visit(bo.X, depth+1)
							visit(bo.Y, depth+1)
						}
						visit(ifi.Cond, 0)
					}
				case *ssa.Slice:
					if !isCandList(x.Type()) || x.High == nil {
						continue
					}
					if k, isK := core.ConstInt(x.High); isK && k > 0 && x.Low == nil {
						bad = fmt.Sprintf("%s: the list is cut to its first %d elements at %s", core.ShortFn(fn), k, p.Pos(x.Pos()))
					}
				}
			}
		}
	}
	c.R.Check(bad == "", "R01.9", "v2: no list of candidates has a fixed capacity", v2pkg, fmt.Sprintf("%d appends to lists of matches and match ranges, none under a test of the list's length against a constant, no cut to a constant length", nApp),
		bad+": the candidates beyond that number are lost, however well they match - a copy that is planted often enough, or behind enough notice lines, is not reported")
	c.R.RequireMin("R01.9", "appends to candidate lists", nApp, 3)
}

// checkFirstPassAdmission: R01.10. Which corpus documents are compared with the input in detail is decided by their token
// similarity alone: in the loop over the corpus, the store that admits a document to the second pass stands behind tests
// of the similarity (and of nothing else - not of the document's length, its name or a counter).
func checkFirstPassAdmission(c *Ctx, p *core.Prog) {
	m := p.Func(v2pkg, "(*Classifier).match")
	if m == nil {
		return
	}
	sim := p.Func(v2pkg, "(*indexedDocument).tokenSimilarity")
	n := 0
	for _, fn := range pkgClosure(m, v2pkg) {
		cdeps := core.NewPostDom(fn).TransitiveControlDeps()
		for _, rl := range rangeLoopsOf(fn) {
			mt, isMap := rl.over.Type().Underlying().(*types.Map)
			if !isMap || !strings.HasSuffix(core.TypeName(mt.Elem()), "/v2.indexedDocument") {
				continue
			}
			loop := naturalLoop(rl.header)
			for _, b := range fn.Blocks {
				if !loop[b] {
					continue
				}
				for _, in := range b.Instrs {
					mu, ok := in.(*ssa.MapUpdate)
					if !ok || !strings.HasSuffix(core.TypeName(mu.Value.Type()), "/v2.indexedDocument") {
						continue
					}
					n++
					bad := ""
					for d := range cdeps[b] {
						if !loop[d] || d == rl.header {
							continue
						}
						ifi, ok := d.Instrs[len(d.Instrs)-1].(*ssa.If)
						if !ok {
							continue
						}
						// the condition is computed from the similarity
						dep := false
						seen := map[ssa.Value]bool{}
						var walk func(v ssa.Value)
						walk = func(v ssa.Value) {
							if v == nil || seen[v] {
								return
							}
							seen[v] = true
							if call, isCall := v.(*ssa.Call); isCall && sim != nil && call.Call.StaticCallee() == sim {
								dep = true
							}
							if vi, ok := v.(ssa.Instruction); ok {
								for _, op := range vi.Operands(nil) {
									walk(*op)
								}
							}
						}
						walk(ifi.Cond)
						if !dep {
							bad = p.Pos(ifi.Cond.Pos())
						}
					}
					c.R.Check(bad == "", "R01.10", core.ShortFn(fn)+": a corpus document is admitted to the detailed comparison by its token similarity alone", p.Pos(mu.Pos()), "the admitting store stands behind tests of tokenSimilarity only",
						"whether a document is admitted also depends on a test that does not involve its similarity (at "+bad+"): documents are left out for another reason - their length, say - and their copies are never found")
				}
			}
		}
	}
	c.R.RequireMin("R01.10", "admissions to the second pass in the loop over the corpus", n, 1)
}

// checkTokenTextProvenance: R06.5 (shared by C06 and C01).
func checkTokenTextProvenance(c *Ctx, p *core.Prog) {
	// R06.5 token text provenance (by role: wherever cleanupToken is called)
	if ct := p.Func(v2pkg, "cleanupToken"); c.R.Anchor(ct != nil, "v2.cleanupToken") {
		n := 0
		for _, fn := range v2Funcs(p) {
			for _, call := range core.CallsIn(fn) {
				cv, isCall := call.(*ssa.Call)
				if !isCall || cv.Call.StaticCallee() != ct {
					continue
				}
				n++
				// the position: the index of the loop over the words, plus (optionally) the position of the buffer's first
				// word in its line, handed in as an integer parameter
				posArg := cv.Call.Args[0]
				if bo, isBo := posArg.(*ssa.BinOp); isBo && bo.Op == token.ADD {
					if _, isPrm := core.Unspill(bo.X).(*ssa.Parameter); isPrm {
						posArg = bo.Y
					} else if _, isPrm := core.Unspill(bo.Y).(*ssa.Parameter); isPrm {
						posArg = bo.X
					}
				}
				okPos := ascendingIndex(posArg)
				// the cleaned text must go straight to the dictionary (or to the caller), not into a cache
				cached := false
				for _, r := range *cv.Referrers() {
					if mu, isMU := r.(*ssa.MapUpdate); isMU && mu.Value == ssa.Value(cv) {
						cached = true
					}
				}
				// the value finally interned for this token must be this call's result on every path: every phi it
				// flows into may only merge it with other cleanupToken results / empty constants
				mixed := ""
				for _, r := range *cv.Referrers() {
					if ph, isPhi := r.(*ssa.Phi); isPhi {
						for _, e := range ph.Edges {
							if e == ssa.Value(cv) {
								continue
							}
							if _, isConst := e.(*ssa.Const); isConst {
								continue
							}
							if ec, isC := e.(*ssa.Call); isC && ec.Call.StaticCallee() == ct {
								continue
							}
							mixed = eng.Describe(e)
						}
					}
				}
				ok := okPos && !cached && mixed == ""
				why := "cleanupToken(i, word, normalize) with i the index of the loop over the line's words; result used directly"
				if !okPos {
					why = "the position handed to cleanupToken is not the index of the loop over the line's words"
				} else if cached {
					why = "the result of cleanupToken is stored in a map keyed by something else than its position (a cache): list-marker removal depends on the position in the line, so a cached result is wrong for other positions"
				} else if mixed != "" {
					why = "the text interned for a token can come from " + mixed + " instead of cleanupToken at the token's own position (a cached or shared result)"
				}
				c.R.Check(ok, "R06.5", core.ShortFn(fn)+": the text interned for a token is cleanupToken(its position in the line, its word)", p.Pos(call.Pos()), why, why)
			}
		}
		c.R.RequireMin("R06.5", "cleanupToken call sites", n, 1)
	}

}

// checkNumberWordsAndLocalDictionary: R11.14, R11.15.
func checkNumberWordsAndLocalDictionary(c *Ctx, p *core.Prog) {
	// R11.14: a word is cleaned as a number because its first rune is a digit in the sense of unicode.IsDigit; the runes that
	// are kept on that path are chosen with the same predicate. With a narrower one (ASCII digits only) a word such as "２.0"
	// is cleaned to ".0" - a word that starts with punctuation, which is skipped when the cleaned text is tokenized again.
	if ct := p.Func(v2pkg, "cleanupToken"); ct != nil {
		callsIsDigit := func(f *ssa.Function) bool {
			for _, g := range pkgClosure(f, v2pkg) {
				for _, call := range core.CallsIn(g) {
					if core.StaticCalleeName(call.Common()) == "unicode.IsDigit" {
						return true
					}
				}
			}
			return false
		}
		nP := 0
		for _, b := range ct.Blocks {
			ifi, ok := b.Instrs[len(b.Instrs)-1].(*ssa.If)
			if !ok {
				continue
			}
			call, ok := ifi.Cond.(*ssa.Call)
			if !ok || core.StaticCalleeName(call.Common()) != "unicode.IsDigit" {
				continue
			}
			// the rune tested is the first rune of the word (decoded outside any loop)
			if loopDepthOf(b) > 0 {
				continue
			}
			nP++
			yes := b.Succs[0]
			found := false
			for _, nb := range ct.Blocks {
				if !yes.Dominates(nb) {
					continue
				}
				for _, in := range nb.Instrs {
					cv, isCall := in.(*ssa.Call)
					if !isCall {
						continue
					}
					if core.StaticCalleeName(cv.Common()) == "unicode.IsDigit" {
						found = true
					}
					if g := cv.Call.StaticCallee(); g != nil && core.FuncPkgPath(g) == v2pkg && callsIsDigit(g) {
						found = true
					}
				}
			}
			c.R.Check(found, "R11.14", "cleanupToken: the digits kept in a number are chosen with the predicate that made the word a number", p.Pos(ifi.Cond.Pos()),
				"unicode.IsDigit decides the path and selects the runes on it", "the path taken for a word whose first rune satisfies unicode.IsDigit never asks unicode.IsDigit again: the runes are selected with another test, so a number written with non-ASCII digits loses its first rune and the cleaned word starts with '.' or '-' - Normalize writes a word that is read back differently")
		}
		if nP == 0 {
			c.R.Info("R11.14", "cleanupToken: number words", p.Pos(ct.Pos()), "not decided: no branch on unicode.IsDigit of the word's first rune")
		}
	}
	// R11.15: the word maps of a dictionary are assigned where the dictionary is created and nowhere else. The tokenizer holds
	// token ids of the current line that refer to its local dictionary: a dictionary that is started afresh in the middle of
	// a text turns those ids into other words (or UNKNOWN), at a point that depends on the number of distinct raw words - which
	// differs between a text and its normalised form.
	{
		nS, bad := 0, ""
		for _, fn := range v2Funcs(p) {
			for _, b := range fn.Blocks {
				for _, in := range b.Instrs {
					st, ok := in.(*ssa.Store)
					if !ok {
						continue
					}
					fa, ok := st.Addr.(*ssa.FieldAddr)
					if !ok {
						continue
					}
					stT := core.StructOf(fa.X.Type())
					var nm *types.Named
					if pt, isPtr := fa.X.Type().Underlying().(*types.Pointer); isPtr {
						nm, _ = pt.Elem().(*types.Named)
					}
					if stT == nil || nm == nil || nm.Obj().Name() != "dictionary" {
						continue
					}
					if _, isMap := stT.Field(fa.Field).Type().Underlying().(*types.Map); !isMap {
						continue
					}
					nS++
					if _, fresh := core.Unspill(fa.X).(*ssa.Alloc); !fresh && bad == "" {
						bad = core.ShortFn(fn) + " assigns " + stT.Field(fa.Field).Name() + " of an existing dictionary at " + p.Pos(st.Pos())
					}
				}
			}
		}
		c.R.Check(bad == "", "R11.15", "the word maps of a dictionary are assigned only where it is created", v2pkg, fmt.Sprintf("%d stores into the map fields of a dictionary, all into a struct allocated by the same function", nS),
			bad+": token ids handed out before that point now name other words - the words of the line being assembled are garbled, and where that happens differs between a text and its normalised form")
	}
}

// checkDictLookupsOnCleanWord: R04.12. In the function that turns the words of a line into tokens (the one that calls
// cleanupToken), the dictionary is asked for the id of the cleaned word itself: the string handed to getIndex/add is a cleaned
// word - an element of the list of cleaned words or the result of cleanupToken - never a string computed from it (a stem, a
// re-cased form). A second look-up under another spelling makes the id of an input word depend on which other words the
// corpus happens to contain: an unrelated document that holds the plural changes the tokens, and the confidence, of the input.
func checkDictLookupsOnCleanWord(c *Ctx, p *core.Prog) {
	ct := p.Func(v2pkg, "cleanupToken")
	if ct == nil {
		return // anchor reported by R06.5
	}
	n := 0
	for _, fn := range v2Funcs(p) {
		callsCT := false
		for _, call := range core.CallsIn(fn) {
			if call.Common().StaticCallee() == ct {
				callsCT = true
			}
		}
		if !callsCT {
			continue
		}
		for _, call := range core.CallsIn(fn) {
			g := call.Common().StaticCallee()
			if g == nil || g.Signature.Recv() == nil || !strings.HasSuffix(g.Signature.Recv().Type().String(), "dictionary") || (g.Name() != "getIndex" && g.Name() != "add") {
				continue
			}
			n++
			bad := ""
			seen := map[ssa.Value]bool{}
			var walk func(v ssa.Value)
			walk = func(v ssa.Value) {
				v = core.Unspill(v)
				if seen[v] || bad != "" {
					return
				}
				seen[v] = true
				switch x := v.(type) {
				case *ssa.Phi:
					for _, e := range x.Edges {
						walk(e)
					}
				case *ssa.Extract, *ssa.Parameter, *ssa.Const:
				case *ssa.UnOp:
					if _, ok := x.X.(*ssa.IndexAddr); !ok && x.Op == token.MUL {
						bad = eng.Describe(x)
					}
				case *ssa.Call:
					if x.Call.StaticCallee() != ct {
						bad = eng.Describe(x)
					}
				default:
					bad = eng.Describe(v)
				}
			}
			walk(call.Common().Args[len(call.Common().Args)-1])
			c.R.Check(bad == "", "R04.12", core.ShortFn(fn)+": the dictionary is asked for the id of the cleaned word itself", p.Pos(call.Pos()), "the argument is a cleaned word (list element / cleanupToken result)",
				"the word handed to "+g.Name()+" is "+bad+", a string computed from the cleaned word: whether that look-up succeeds depends on the other documents of the corpus, so an unrelated document changes the tokens - and the confidence - of an input")
		}
	}
	if n == 0 {
		c.R.Info("R04.12", "dictionary look-ups of the tokenizer", v2pkg, "not decided: no function both cleans the words of a line and looks them up (the two steps were separated)")
	}
}

// checkCandidateLinesTraversed: R05.11. Where match walks over the lines of a candidate (a loop whose exit test compares its
// counter with the candidate's EndLine), the walk ends only when the lines are exhausted: the loop has no second way out (a
// cap on the number of lines looked at, a break). The overlap filter finds the earlier candidates of a candidate through its
// lines; lines that are skipped hide candidates from it, so inserting blank lines changes which matches survive.
func checkCandidateLinesTraversed(c *Ctx, p *core.Prog) {
	mf := p.Func(v2pkg, "(*Classifier).match")
	if mf == nil {
		return
	}
	nL, bad := 0, ""
	for _, fn := range pkgClosure(mf, v2pkg) {
		if isTraceFn(fn) {
			continue
		}
		seenHdr := map[*ssa.BasicBlock]bool{}
		for _, b := range fn.Blocks {
			ifi, ok := b.Instrs[len(b.Instrs)-1].(*ssa.If)
			if !ok {
				continue
			}
			bo, ok := ifi.Cond.(*ssa.BinOp)
			if !ok || !(strings.HasSuffix(core.AP(bo.X), ".EndLine") || strings.HasSuffix(core.AP(bo.Y), ".EndLine")) {
				continue
			}
			// b is the header of a loop (a back edge reaches it) and one of its successors leaves the loop
			isHeader := false
			for _, pr := range b.Preds {
				if b.Dominates(pr) {
					isHeader = true
				}
			}
			if !isHeader || seenHdr[b] {
				continue
			}
			seenHdr[b] = true
			loop := naturalLoop(b)
			// the counter must be the other operand's phi at the header
			nL++
			for lb := range loop {
				for _, sc := range lb.Succs {
					if !loop[sc] && lb != b && bad == "" {
						last := lb.Instrs[len(lb.Instrs)-1]
						pos := p.Pos(last.Pos())
						if i2, isIf := last.(*ssa.If); isIf {
							pos = p.Pos(i2.Cond.Pos())
						}
						bad = core.ShortFn(fn) + ": the loop over the lines of a candidate at " + p.Pos(bo.Pos()) + " can also be left at " + pos
					}
				}
			}
		}
	}
	c.R.Check(bad == "", "R05.11", "match: a walk over the lines of a candidate ends only when the lines are exhausted", v2pkg, fmt.Sprintf("%d loops bounded by a candidate's EndLine, each with that test as its only exit", nL),
		bad+": the lines behind that point are not looked at, so an earlier candidate that shares only those lines is not found - blank lines inserted in front of a notice inside a license text move it out of reach, and the notice is reported although the license covers it")
	if nL == 0 {
		c.R.Info("R05.11", "match: walks over the lines of a candidate", p.Pos(mf.Pos()), "no loop bounded by a candidate's EndLine found")
	}
}

// checkEveryRangeScored: R01.11. Every range of the input that the search set proposes for a document is scored: between the
// loop over the proposed ranges and the call of score stand only the loops themselves and trace tests. A cheaper pre-test (a
// count of unknown words against an error budget) rejects ranges the score would accept - and what counts as unknown depends
// on every document of the corpus, so an unrelated document flips the result.
func checkEveryRangeScored(c *Ctx, p *core.Prog) {
	mf := p.Func(v2pkg, "(*Classifier).match")
	sc := p.Func(v2pkg, "(*Classifier).score")
	if mf == nil || sc == nil {
		return
	}
	n, bad := 0, ""
	for _, fn := range pkgClosure(mf, v2pkg) {
		cd := core.NewPostDom(fn).TransitiveControlDeps()
		for _, call := range core.CallsIn(fn) {
			if call.Common().StaticCallee() != sc {
				continue
			}
			n++
			for d := range cd[call.Block()] {
				ifi, ok := d.Instrs[len(d.Instrs)-1].(*ssa.If)
				if !ok {
					continue
				}
				isHeader := false
				for _, pr := range d.Preds {
					if d.Dominates(pr) {
						isHeader = true
					}
				}
				if isHeader {
					continue
				}
				if cl, isCall := ifi.Cond.(*ssa.Call); isCall && isTraceFn(cl.Call.StaticCallee()) {
					continue
				}
				if _, isErr := ifi.Cond.(*ssa.BinOp); isErr {
					if bo := ifi.Cond.(*ssa.BinOp); bo.X.Type().String() == "error" {
						continue
					}
				}
				if bad == "" {
					bad = core.ShortFn(fn) + ": " + p.Pos(ifi.Cond.Pos()) + " (" + eng.Describe(ifi.Cond) + ")"
				}
			}
		}
	}
	if n == 0 {
		return
	}
	c.R.Check(bad == "", "R01.11", "match: every proposed range is scored", v2pkg, fmt.Sprintf("%d calls of score, each reached from its loops without a further test", n),
		"whether a proposed range is scored depends on "+bad+": ranges that the score would accept are dropped by a cheaper pre-test - one that counts words unknown to the dictionary depends on the whole corpus, so an unrelated document changes the Results of the same input")
}

// checkIndexCompleteAndCountersWide: R01.12, R01.13.
func checkIndexCompleteAndCountersWide(c *Ctx, p *core.Prog) {
	// R01.12: the q-gram index of a text records every occurrence of a q-gram: where a list kept under a map key is extended
	// (m[k] = append(m[k], x)), the extension does not stand behind a test whether the key is present already. With only the
	// first occurrence recorded a repeated phrase cuts the run of a verbatim copy in two - at threshold 1.0 nothing fuses the
	// pieces and the copy is not reported.
	{
		n, bad := 0, ""
		for _, fn := range v2LibFuncs(p) {
			if isTraceFn(fn) {
				continue
			}
			for _, b := range fn.Blocks {
				for _, in := range b.Instrs {
					mu, ok := in.(*ssa.MapUpdate)
					if !ok {
						continue
					}
					ap, isCall := mu.Value.(*ssa.Call)
					if !isCall {
						continue
					}
					if bi, isB := ap.Call.Value.(*ssa.Builtin); !isB || bi.Name() != "append" {
						continue
					}
					lk, isLk := core.Unspill(ap.Call.Args[0]).(*ssa.Lookup)
					if !isLk || core.Unspill(lk.X) != core.Unspill(mu.Map) {
						continue
					}
					n++
					for _, f := range core.FactsAt(b) {
						if ex, isEx := core.Unspill(f.Cond).(*ssa.Extract); isEx && !f.Truth {
							if l2, isL2 := ex.Tuple.(*ssa.Lookup); isL2 && core.Unspill(l2.X) == core.Unspill(mu.Map) && bad == "" {
								bad = core.ShortFn(fn) + ": " + p.Pos(mu.Pos())
							}
						}
					}
				}
			}
		}
		c.R.Check(bad == "", "R01.12", "v2: a list kept under a map key is extended whether or not the key is present", v2pkg, fmt.Sprintf("%d extensions of a list under a map key", n),
			"the list under a key is only started, never extended ("+bad+" stands behind a test that the key is absent): later occurrences are not recorded - a document that repeats a phrase of q words is matched in pieces, and at threshold 1.0 its verbatim copy is not reported")
	}
	// R01.13: nothing is counted in an integer narrower than int: no addition, subtraction or multiplication of the library has
	// an 8- or 16-bit integer type. A count of the input's words that wraps at 65536 makes a large input look unlike every
	// document, and all its copies go unreported.
	{
		n, bad := 0, ""
		for _, fn := range v2LibFuncs(p) {
			for _, b := range fn.Blocks {
				for _, in := range b.Instrs {
					bo, ok := in.(*ssa.BinOp)
					if !ok || (bo.Op != token.ADD && bo.Op != token.SUB && bo.Op != token.MUL) {
						continue
					}
					bt, isB := bo.Type().Underlying().(*types.Basic)
					if !isB || bt.Info()&types.IsInteger == 0 {
						continue
					}
					n++
					switch bt.Kind() {
					case types.Int8, types.Int16, types.Uint16:
						if bad == "" {
							bad = core.ShortFn(fn) + ": " + p.Pos(bo.Pos()) + " (" + bt.Name() + ")"
						}
					case types.Uint8:
						// byte arithmetic on characters is common and not a count
					}
				}
			}
		}
		c.R.Check(bad == "", "R01.13", "v2: no arithmetic in an integer type narrower than 32 bits", v2pkg, fmt.Sprintf("%d integer additions, subtractions and multiplications", n),
			"a value is computed in a 16-bit (or 8-bit) integer type at "+bad+": a count or a line number wraps round for large inputs - a word that occurs 65536 times is counted as absent, the input fails the similarity pre-filter of every document and no copy in it is reported")
	}
}

// checkIndexKeysAgree: R05.12. An index that match fills in one loop and consults in another is consulted under the keys it is
// filled under: the loop that looks candidates up in a map and the loop that registers a candidate in the same map run over the
// same keys - same start, same bound, same step, same key expression. Keys that are registered but never looked up (or the
// other way round) hide earlier candidates from the overlap filter for some line numbers only, so inserting blank lines changes
// which matches survive.
func checkIndexKeysAgree(c *Ctx, p *core.Prog) {
	mf := p.Func(v2pkg, "(*Classifier).match")
	if mf == nil {
		return
	}
	var show func(v ssa.Value, ind *ssa.Phi, d int) string
	show = func(v ssa.Value, ind *ssa.Phi, d int) string {
		v = core.Unspill(v)
		if d > 6 {
			return "?"
		}
		if ph, ok := v.(*ssa.Phi); ok && ph == ind {
			return "i"
		}
		switch x := v.(type) {
		case *ssa.Const:
			if x.Value != nil {
				return x.Value.ExactString()
			}
			return "nil"
		case *ssa.BinOp:
			return "(" + show(x.X, ind, d+1) + x.Op.String() + show(x.Y, ind, d+1) + ")"
		case *ssa.UnOp:
			if fa, ok := x.X.(*ssa.FieldAddr); ok {
				return "." + core.FieldName(fa)
			}
		case *ssa.Field:
			if st := core.StructOf(x.X.Type()); st != nil {
				return "." + st.Field(x.Field).Name()
			}
		case *ssa.Convert:
			return show(x.X, ind, d+1)
		}
		return "?" + v.Name()
	}
	type use struct {
		desc string
		pos  string
	}
	nM, bad := 0, ""
	for _, fn := range pkgClosure(mf, v2pkg) {
		if isTraceFn(fn) {
			continue
		}
		reads, writes := map[ssa.Value][]use{}, map[ssa.Value][]use{}
		for _, b := range fn.Blocks {
			for _, in := range b.Instrs {
				var m, key ssa.Value
				isWrite := false
				switch x := in.(type) {
				case *ssa.Lookup:
					if _, isMap := x.X.Type().Underlying().(*types.Map); isMap {
						m, key = core.Unspill(x.X), x.Index
					}
				case *ssa.MapUpdate:
					m, key, isWrite = core.Unspill(x.Map), x.Key, true
				}
				if m == nil {
					continue
				}
				// the induction variable the key depends on: a phi at the header of an enclosing loop
				var ind *ssa.Phi
				var find func(v ssa.Value, d int)
				find = func(v ssa.Value, d int) {
					v = core.Unspill(v)
					if d > 5 || ind != nil {
						return
					}
					switch y := v.(type) {
					case *ssa.Phi:
						for _, pr := range y.Block().Preds {
							if y.Block().Dominates(pr) {
								ind = y
								return
							}
						}
					case *ssa.BinOp:
						find(y.X, d+1)
						find(y.Y, d+1)
					case *ssa.Convert:
						find(y.X, d+1)
					}
				}
				find(key, 0)
				if ind == nil {
					continue
				}
				h := ind.Block()
				// start value, step and exit test of the loop
				start, step := "?", "?"
				for i, e := range ind.Edges {
					if h.Dominates(h.Preds[i]) {
						step = show(e, ind, 0)
					} else {
						start = show(e, ind, 0)
					}
				}
				bound := "?"
				if ifi, ok := h.Instrs[len(h.Instrs)-1].(*ssa.If); ok {
					bound = show(ifi.Cond, ind, 0)
				}
				u := use{desc: "for i = " + start + "; " + bound + "; i = " + step + " { key " + show(key, ind, 0) + " }", pos: p.Pos(in.Pos())}
				if isWrite {
					writes[m] = append(writes[m], u)
				} else {
					reads[m] = append(reads[m], u)
				}
			}
		}
		for m, ws := range writes {
			rs := reads[m]
			if len(rs) == 0 {
				continue
			}
			nM++
			for _, w := range ws {
				for _, r := range rs {
					if w.desc != r.desc && bad == "" {
						bad = core.ShortFn(fn) + ": registered with `" + w.desc + "` (" + w.pos + ") but looked up with `" + r.desc + "` (" + r.pos + ")"
					}
				}
			}
		}
	}
	if nM == 0 {
		c.R.Info("R05.12", "match: indexes filled and consulted in loops", p.Pos(mf.Pos()), "no map that is both filled and consulted under loop-dependent keys")
		return
	}
	c.R.Check(bad == "", "R05.12", "match: an index is consulted under the keys it is filled under", v2pkg, fmt.Sprintf("%d maps filled in one loop and consulted in another, same start, bound, step and key", nM),
		bad+": for some line numbers a candidate is registered under a key that is never looked up - an earlier, better candidate is not found, so the same text with a few blank lines in front keeps a match that is otherwise struck out")
}

// checkTokenizerCallArgsAgree: R06.19, R11.16.
func checkTokenizerCallArgsAgree(c *Ctx, p *core.Prog) {
	ts := p.Func(v2pkg, "tokenizeStream")
	if ts == nil {
		return
	}
	// R06.19: the words of a line are handed over with the position of the first of them in its line - the loop-carried offset -
	// at every place where they are handed over: the call sites of one helper inside the tokenizer agree on whether an integer
	// argument is a variable or a constant. A constant at one site (0 at the final flush) makes the last line of an input lose
	// the offset a hyphenated word left behind, so its second word is dropped as a list marker.
	{
		type site struct {
			call ssa.CallInstruction
		}
		byCallee := map[*ssa.Function][]ssa.CallInstruction{}
		for _, call := range core.CallsIn(ts) {
			if g := call.Common().StaticCallee(); g != nil && core.FuncPkgPath(g) == v2pkg && !isTraceFn(g) {
				byCallee[g] = append(byCallee[g], call)
			}
		}
		nP, bad := 0, ""
		for g, calls := range byCallee {
			if len(calls) < 2 {
				continue
			}
			for k := range g.Params {
				if bt, ok := g.Params[k].Type().Underlying().(*types.Basic); !ok || bt.Info()&types.IsInteger == 0 {
					continue
				}
				nP++
				nConst, nVar := 0, 0
				var constAt ssa.CallInstruction
				for _, call := range calls {
					if k >= len(call.Common().Args) {
						continue
					}
					if _, isK := core.Unspill(call.Common().Args[k]).(*ssa.Const); isK {
						nConst++
						constAt = call
					} else {
						nVar++
					}
				}
				if nConst > 0 && nVar > 0 && bad == "" {
					bad = "parameter " + g.Params[k].Name() + " of " + core.ShortFn(g) + " is a constant at " + p.Pos(constAt.Pos()) + " and a variable at the other " + fmt.Sprint(nVar) + " call site(s)"
				}
			}
		}
		c.R.Check(bad == "", "R06.19", "tokenizeStream: the call sites of a helper agree on which integer arguments are variables", p.Pos(ts.Pos()), fmt.Sprintf("%d integer parameters of helpers called from two or more sites", nP),
			bad+": at that site the loop-carried value (the line number, the position offset of the line) is replaced by a fixed one - the words handed over there are treated as if they started their line, or stood on another line")
	}
	// R11.16: whether a word's spelling is normalised is decided by the tokenizer's normalize flag: the flag that reaches
	// cleanupToken is, followed back through the call chain, the first bool parameter of tokenizeStream - not the flag next to
	// it (updateDict), which is true exactly where normalize is false in Normalize and the other way round in Match.
	if ct := p.Func(v2pkg, "cleanupToken"); ct != nil {
		var firstBool *ssa.Parameter
		for _, prm := range ts.Params {
			if bt, ok := prm.Type().Underlying().(*types.Basic); ok && bt.Kind() == types.Bool {
				firstBool = prm
				break
			}
		}
		if firstBool != nil {
			var origin func(v ssa.Value, fn *ssa.Function, d int) (string, bool)
			origin = func(v ssa.Value, fn *ssa.Function, d int) (string, bool) {
				v = core.Unspill(v)
				if d > 5 {
					return "", false
				}
				prm, ok := v.(*ssa.Parameter)
				if !ok {
					return "", false
				}
				if fn == ts {
					return prm.Name(), prm == firstBool
				}
				idx := -1
				for i, q := range fn.Params {
					if q == prm {
						idx = i
					}
				}
				res, okAll, n := "", true, 0
				for _, g := range v2Funcs(p) {
					for _, call := range core.CallsIn(g) {
						if call.Common().StaticCallee() != fn || idx >= len(call.Common().Args) {
							continue
						}
						n++
						name, ok := origin(call.Common().Args[idx], g, d+1)
						if name == "" {
							return "", false
						}
						res = name
						okAll = okAll && ok
					}
				}
				if n == 0 {
					return "", false
				}
				return res, okAll
			}
			nF := 0
			for _, fn := range v2Funcs(p) {
				for _, call := range core.CallsIn(fn) {
					if call.Common().StaticCallee() != ct {
						continue
					}
					for k, a := range call.Common().Args {
						if bt, ok := ct.Params[k].Type().Underlying().(*types.Basic); !ok || bt.Kind() != types.Bool {
							continue
						}
						name, ok := origin(a, fn, 0)
						if name == "" {
							c.R.Info("R11.16", core.ShortFn(fn)+": the flag handed to cleanupToken", p.Pos(call.Pos()), "not decided: the flag does not trace back to a parameter of tokenizeStream")
							continue
						}
						nF++
						c.R.Check(ok, "R11.16", core.ShortFn(fn)+": the flag handed to cleanupToken is the tokenizer's normalize flag", p.Pos(call.Pos()), "traces back to parameter "+firstBool.Name()+" of tokenizeStream",
							"the flag traces back to parameter "+name+" of tokenizeStream, not to "+firstBool.Name()+": Match stops mapping interchangeable spellings and Normalize starts to - the normalised text no longer holds the words of the original and matches differently")
					}
				}
			}
			_ = nF
		}
	}
}

// checkRejectedCandidateHasNoEffect: R06.20. In the overlap filter a candidate strikes out earlier candidates only if it is kept
// itself: a store into the list of retain flags at another index than the current candidate's stands behind the test of the
// current candidate's own verdict. Otherwise a candidate that the filter rejects (it lies inside a better one) still removes
// what it overlaps - a notice pseudo-match on a line it spans disappears although the license that is reported does not
// cover that line.
func checkRejectedCandidateHasNoEffect(c *Ctx, p *core.Prog) {
	mf := p.Func(v2pkg, "(*Classifier).match")
	if mf == nil {
		return
	}
	for _, fn := range pkgClosure(mf, v2pkg) {
		if isTraceFn(fn) {
			continue
		}
		// the retain list: a []bool made by this function
		type st struct {
			store *ssa.Store
			ia    *ssa.IndexAddr
		}
		bySlice := map[ssa.Value][]st{}
		for _, b := range fn.Blocks {
			for _, in := range b.Instrs {
				s2, ok := in.(*ssa.Store)
				if !ok {
					continue
				}
				ia, ok := s2.Addr.(*ssa.IndexAddr)
				if !ok {
					continue
				}
				sl, isSl := ia.X.Type().Underlying().(*types.Slice)
				if !isSl {
					continue
				}
				if bt, isB := sl.Elem().Underlying().(*types.Basic); !isB || bt.Kind() != types.Bool {
					continue
				}
				if _, isMake := core.Unspill(ia.X).(*ssa.MakeSlice); !isMake {
					continue
				}
				bySlice[core.Unspill(ia.X)] = append(bySlice[core.Unspill(ia.X)], st{s2, ia})
			}
		}
		for _, stores := range bySlice {
			// the outer loop: the range loop whose index is used by one of the stores
			var own []st
			var others []st
			isRangeIndex := func(v ssa.Value) bool {
				v = core.Unspill(v)
				bo, ok := v.(*ssa.BinOp)
				if !ok || bo.Op != token.ADD {
					return false
				}
				ph, ok := bo.X.(*ssa.Phi)
				if !ok {
					return false
				}
				for _, e := range ph.Edges {
					if k, isK := core.ConstInt(e); isK && k == -1 {
						return true
					}
				}
				return false
			}
			for _, x := range stores {
				// the index of the OUTERMOST range loop that contains the store
				if isRangeIndex(x.ia.Index) && loopDepthOf(x.store.Block()) == 1 {
					own = append(own, x)
				} else {
					others = append(others, x)
				}
			}
			if len(own) == 0 || len(others) == 0 {
				continue
			}
			// the verdict K of the current candidate
			var K ssa.Value
			for _, o := range own {
				if _, isC := o.store.Val.(*ssa.Const); !isC {
					K = core.Unspill(o.store.Val)
				} else {
					for _, f := range core.FactsAt(o.store.Block()) {
						if _, isPhi := f.Cond.(*ssa.Phi); isPhi && f.Truth {
							K = f.Cond
						}
					}
				}
			}
			if K == nil {
				c.R.Info("R06.20", core.ShortFn(fn)+": the verdict of the current candidate", p.Pos(fn.Pos()), "not decided: the value stored for the current candidate could not be identified")
				continue
			}
			// R06.21: every candidate gets its verdict: the place where the current candidate's verdict is used (the test of
			// K, or the store of K) lies on every way round the loop over the candidates - no `continue` in front of it.
			{
				var kb *ssa.BasicBlock
				for _, b := range fn.Blocks {
					if ifi, isIf := b.Instrs[len(b.Instrs)-1].(*ssa.If); isIf && core.Unspill(ifi.Cond) == K {
						kb = b
					}
				}
				if kb == nil {
					for _, o := range own {
						if core.Unspill(o.store.Val) == K {
							kb = o.store.Block()
						}
					}
				}
				if kb != nil {
					// the outermost loop around kb
					var hdr *ssa.BasicBlock
					for h := kb; h != nil; h = h.Idom() {
						for _, pr := range h.Preds {
							if h.Dominates(pr) && naturalLoop(h)[kb] {
								hdr = h
							}
						}
					}
					if hdr != nil {
						skipped := ""
						loop := naturalLoop(hdr)
						for _, pr := range hdr.Preds {
							if loop[pr] && !(kb == pr || kb.Dominates(pr)) {
								skipped = p.Pos(pr.Instrs[len(pr.Instrs)-1].Pos())
								if skipped == "-" && len(pr.Instrs) > 1 {
									skipped = p.Pos(pr.Instrs[0].Pos())
								}
							}
						}
						c.R.Check(skipped == "", "R06.21", core.ShortFn(fn)+": every candidate reaches its verdict", p.Pos(fn.Pos()), "the use of the verdict dominates every way back to the head of the loop over the candidates",
							"the loop over the candidates comes round again (from "+skipped+") without passing the verdict of the current candidate: a candidate that is skipped is never retained - a notice or date behind the last line that holds a word loses its Copyright match")
					}
				}
			}
			bad := ""
			for _, o := range others {
				ok := false
				for _, f := range core.FactsAt(o.store.Block()) {
					if core.Unspill(f.Cond) == K && f.Truth {
						ok = true
					}
				}
				if !ok && bad == "" {
					bad = p.Pos(o.store.Pos())
				}
			}
			c.R.Check(bad == "", "R06.20", core.ShortFn(fn)+": a candidate changes the verdict on earlier candidates only if it is kept itself", p.Pos(fn.Pos()), fmt.Sprintf("%d stores into the retain flags of other candidates, each behind the current candidate's own verdict", len(others)),
				"the retain flag of another candidate is written at "+bad+" before (or regardless of) the verdict on the current one: a candidate that is rejected still strikes out what it overlaps - an inserted notice vanishes although the match that is reported does not cover its line")
		}
	}
}

// checkMidLineNotNotice: R06.22. The notice patterns are anchored at the start of a line. The words behind the remainder of a
// hyphen-split word reach the function that applies them as a buffer of their own, together with the position of their first
// word in the line (the integer that is added to the loop index for cleanupToken): a buffer whose first word does not start
// its line is text, whatever it begins with. Fails on the pinned tree (known finding D56): the position is ignored, so
// `... the no-\ntice Copyright 1999 Jane Doe in all copies` loses seven words and gains a Copyright match.
func checkMidLineNotNotice(c *Ctx, p *core.Prog) {
	ct := p.Func(v2pkg, "cleanupToken")
	if ct == nil {
		return
	}
	for _, fn := range v2Funcs(p) {
		var pos *ssa.Parameter
		for _, call := range core.CallsIn(fn) {
			if call.Common().StaticCallee() != ct {
				continue
			}
			if bo, ok := core.Unspill(call.Common().Args[0]).(*ssa.BinOp); ok && bo.Op == token.ADD {
				for _, o := range []ssa.Value{bo.X, bo.Y} {
					if prm, isPrm := core.Unspill(o).(*ssa.Parameter); isPrm {
						pos = prm
					}
				}
			}
		}
		if pos == nil {
			continue
		}
		nT, unguarded := 0, ""
		for _, call := range core.CallsIn(fn) {
			n := core.StaticCalleeName(call.Common())
			if n != "(*regexp.Regexp).MatchString" && n != "(*regexp.Regexp).Match" {
				continue
			}
			nT++
			ok := false
			for _, f := range core.FactsAt(call.Block()) {
				if cmp, isCmp := f.AsCmp(); isCmp {
					if core.Unspill(cmp.X) == ssa.Value(pos) || core.Unspill(cmp.Y) == ssa.Value(pos) {
						ok = true
					}
				}
			}
			if !ok && unguarded == "" {
				unguarded = p.Pos(call.Pos())
			}
		}
		if nT == 0 {
			continue
		}
		c.R.Check(unguarded == "", "R06.22", "v2: the line-anchored notice patterns are applied only to words that start their line", p.Pos(fn.Pos()), fmt.Sprintf("%d pattern tests, each behind a test of the position of the buffer's first word", nT),
			"the patterns are tested at "+unguarded+" whatever the position of the buffer's first word in its line ("+pos.Name()+"): the words behind the remainder of a hyphen-split word are taken for a line of their own, so a split in front of words that look like a notice removes the rest of the line from the text")
	}
}

// checkCarriageReturnEndsWords: R06.23. A carriage return is white space: it ends the word in front of it, except where that
// word ends in a hyphen (then the line feed behind it joins the word with its remainder). In the tokenizer every test
// `r == '\r'` that lets the rune be skipped is paired with a test for the hyphen: on its own it makes a lone carriage return -
// old Mac line ends, captured progress output - glue the words on either side of it together.
func checkCarriageReturnEndsWords(c *Ctx, p *core.Prog) {
	ts := p.Func(v2pkg, "tokenizeStream")
	if ts == nil {
		return
	}
	nCR, bad := 0, ""
	for _, fn := range pkgClosure(ts, v2pkg) {
		if isTraceFn(fn) {
			continue
		}
		var hyph []*ssa.BasicBlock
		testsHyphen := func(g *ssa.Function) bool {
			for _, h := range pkgClosure(g, v2pkg) {
				for _, hb := range h.Blocks {
					for _, in := range hb.Instrs {
						if bo, ok := in.(*ssa.BinOp); ok && (bo.Op == token.EQL || bo.Op == token.NEQ) {
							if k, isK := core.ConstInt(bo.Y); isK && k == '-' {
								return true
							}
						}
					}
				}
			}
			return false
		}
		for _, b := range fn.Blocks {
			for _, in := range b.Instrs {
				if bo, ok := in.(*ssa.BinOp); ok && (bo.Op == token.EQL || bo.Op == token.NEQ) {
					if k, isK := core.ConstInt(bo.Y); isK && k == '-' {
						hyph = append(hyph, b)
					}
				}
				// ... or the hyphen test is made by a helper that is called there
				if cl, ok := in.(*ssa.Call); ok {
					if g := cl.Call.StaticCallee(); g != nil && g != fn && core.FuncPkgPath(g) == v2pkg && len(g.Blocks) > 0 && !isTraceFn(g) && testsHyphen(g) {
						hyph = append(hyph, b)
					}
				}
			}
		}
		direct := core.NewPostDom(fn).ControlDeps()
		cd := map[*ssa.BasicBlock]map[*ssa.BasicBlock]bool{}
		for b2, ds := range direct {
			cd[b2] = map[*ssa.BasicBlock]bool{}
			for _, d := range ds {
				cd[b2][d] = true
			}
		}
		for _, b := range fn.Blocks {
			ifi, ok := b.Instrs[len(b.Instrs)-1].(*ssa.If)
			if !ok {
				continue
			}
			bo, ok := ifi.Cond.(*ssa.BinOp)
			if !ok || bo.Op != token.EQL {
				continue
			}
			if k, isK := core.ConstInt(bo.Y); !isK || k != '\r' {
				continue
			}
			if bt, isB := bo.X.Type().Underlying().(*types.Basic); !isB || bt.Kind() != types.Int32 {
				continue
			}
			nCR++
			paired := false
			for _, h := range hyph {
				// the hyphen test stands behind the true branch of the CR test, or the CR test stands behind the hyphen test
				t := b.Succs[0]
				tIsHeader := false
				for _, pr := range t.Preds {
					if t.Dominates(pr) {
						tIsHeader = true
					}
				}
				if (!tIsHeader && (t == h || t.Dominates(h))) || cd[b][h] {
					paired = true
				}
			}
			if !paired && bad == "" {
				bad = core.ShortFn(fn) + ": " + p.Pos(bo.Pos())
			}
		}
	}
	if nCR == 0 {
		return
	}
	c.R.Check(bad == "", "R06.23", "tokenizeStream: a carriage return is skipped only together with a test for a trailing hyphen", p.Pos(ts.Pos()), fmt.Sprintf("%d tests of the rune against the carriage return, each paired with a hyphen test", nCR),
		"the test at "+bad+" lets a carriage return pass without looking for a hyphen at the end of the open word: a carriage return no longer ends a word, so a lone CR between two words glues them together")
}

// checkRound12Tokenizer: R05.13, R06.24, R11.18.
func checkRound12Tokenizer(c *Ctx, p *core.Prog, rules map[string]bool) {
	ts := p.Func(v2pkg, "tokenizeStream")
	if ts == nil {
		return
	}
	// R05.13: a finished word goes into the words of its line the same way wherever it is finished - at a blank, at a line feed,
	// at the end of the input: the results of the word flush are consumed alike at every site (all appended directly, or all
	// handed to the same helper). A helper that joins two-word spellings at one site only makes trailing blanks or CR LF decide
	// whether the last two words of a line are joined.
	if rules["R05.13"] {
		fb := p.Func(v2pkg, "flushBuf")
		if fb != nil {
			kinds := map[string]string{}
			n := 0
			for _, call := range core.CallsIn(ts) {
				cv, ok := call.(*ssa.Call)
				if !ok || cv.Call.StaticCallee() != fb {
					continue
				}
				n++
				kind := "unused"
				var follow func(v ssa.Value, d int)
				follow = func(v ssa.Value, d int) {
					if v.Referrers() == nil || d > 4 {
						return
					}
					for _, r := range *v.Referrers() {
						switch u := r.(type) {
						case *ssa.Store:
							if ia, isIA := u.Addr.(*ssa.IndexAddr); isIA {
								// the varargs array of append
								if al, isAl := ia.X.(*ssa.Alloc); isAl {
									for _, r2 := range *al.Referrers() {
										if sl, isSl := r2.(*ssa.Slice); isSl {
											follow(sl, d+1)
										}
									}
								}
							}
						case *ssa.Call:
							if bi, isB := u.Call.Value.(*ssa.Builtin); isB {
								kind = "builtin " + bi.Name()
							} else if g := u.Call.StaticCallee(); g != nil {
								kind = "call of " + core.ShortFn(g)
							}
						}
					}
				}
				follow(cv, 0)
				kinds[kind] = p.Pos(cv.Pos())
			}
			bad := ""
			if len(kinds) > 1 {
				for k, pos := range kinds {
					bad += k + " (" + pos + "); "
				}
			}
			if n > 0 {
				c.R.Check(bad == "", "R05.13", "tokenizeStream: a finished word is added to its line the same way at every site", p.Pos(ts.Pos()), fmt.Sprintf("%d word flushes, consumed alike", n),
					"the results of the word flush are consumed differently: "+bad+"what happens to a word depends on whether a blank, a line feed or the end of the input finished it - trailing blanks or CR LF line ends change the tokens")
			}
		}
	}
	// R06.24: the position offset of a line becomes non-zero only where words of the line were just handed over (behind the
	// remainder of a hyphenated word): an assignment of a non-zero constant to the integer that is passed as the position of
	// the buffer's first word stands behind a hand-over call in the same iteration. Set anywhere else (for a bullet character
	// at the start of a line, say), it switches the list-marker rule off for lines with that decoration only.
	if rules["R06.24"] {
		atd := p.Func(v2pkg, "appendToDoc")
		if atd != nil {
			var posArgs []ssa.Value
			var calls []*ssa.Call
			for _, call := range core.CallsIn(ts) {
				if cv, ok := call.(*ssa.Call); ok && cv.Call.StaticCallee() == atd {
					calls = append(calls, cv)
					posArgs = append(posArgs, cv.Call.Args[len(cv.Call.Args)-1])
				}
			}
			web := map[ssa.Value]bool{}
			var walk func(v ssa.Value)
			walk = func(v ssa.Value) {
				v = core.Unspill(v)
				if v == nil || web[v] {
					return
				}
				web[v] = true
				if ph, ok := v.(*ssa.Phi); ok {
					for _, e := range ph.Edges {
						walk(e)
					}
				}
			}
			for _, a := range posArgs {
				walk(a)
			}
			nSet, bad := 0, ""
			for v := range web {
				ph, ok := v.(*ssa.Phi)
				if !ok {
					continue
				}
				for i, e := range ph.Edges {
					k, isK := core.ConstInt(e)
					if !isK || k == 0 {
						continue
					}
					nSet++
					pred := ph.Block().Preds[i]
					behind := false
					for _, cv := range calls {
						if (cv.Block() == pred || cv.Block().Dominates(pred)) && loopDepthOf(cv.Block()) == loopDepthOf(pred) {
							behind = true
						}
					}
					if !behind && bad == "" {
						bad = p.Pos(pred.Instrs[len(pred.Instrs)-1].Pos())
						if bad == "-" {
							bad = p.Pos(ph.Pos())
						}
					}
				}
			}
			if nSet > 0 {
				c.R.Check(bad == "", "R06.24", "tokenizeStream: the position offset of a line is set only where words of the line were just handed over", p.Pos(ts.Pos()), fmt.Sprintf("%d assignments of a non-zero constant, each behind a hand-over in the same iteration", nSet),
					"the position offset becomes non-zero at "+bad+" without a hand-over of the line's words: the first word of such a line is no longer taken for a list marker - a marker behind `- ` or a bullet stays a token while the same text without that decoration drops it")
			}
		}
	}
	// R11.18: the clean-up of a word keeps letters, and digits where the word is a number - no other class of runes: the only
	// predicates of package unicode it asks are IsLetter and IsDigit. A class that can be kept inside a word but cannot start
	// one (combining marks) gives a cleaned word that is read back differently.
	if rules["R11.18"] {
		if ct := p.Func(v2pkg, "cleanupToken"); ct != nil {
			bad := ""
			n := 0
			for _, f := range pkgClosure(ct, v2pkg) {
				for _, call := range core.CallsIn(f) {
					nm := core.StaticCalleeName(call.Common())
					if !strings.HasPrefix(nm, "unicode.Is") && nm != "unicode.In" {
						continue
					}
					n++
					switch nm {
					case "unicode.IsLetter", "unicode.IsDigit", "unicode.IsSpace":
					default:
						if bad == "" {
							bad = nm + " at " + p.Pos(call.Pos())
						}
					}
				}
			}
			c.R.Check(bad == "", "R11.18", "cleanupToken keeps letters and digits only", p.Pos(ct.Pos()), fmt.Sprintf("%d class tests, all IsLetter/IsDigit", n),
				"the clean-up also asks "+bad+": runes of that class are kept inside a word but a word cannot begin with one, so a cleaned word that starts with such a rune is tokenized again as another word - Match of the normalised text differs")
		}
	}
}
