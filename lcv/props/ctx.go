// Package props holds one check per property (C01..C20), built from the engines.
package props

import (
	"fmt"
	"os"
	"sort"
	"sync"

	"lcv/core"
)

// Ctx is the state of one check run.
type Ctx struct {
	Repo     string
	VerifDir string
	Tier     string
	R        *core.Report
	GOOS     string
	GOARCH   string

	mu    sync.Mutex
	progs map[string]*core.Prog
	errs  map[string]error
}

func NewCtx(repo, verif, prop, tier string) *Ctx {
	return &Ctx{Repo: repo, VerifDir: verif, Tier: tier, R: core.NewReport(prop, tier), progs: map[string]*core.Prog{}, errs: map[string]error{}}
}

// Prog loads (once) the root module ("") or the v2 module ("v2").
func (c *Ctx) Prog(sub string) *core.Prog {
	c.mu.Lock()
	defer c.mu.Unlock()
	if p, ok := c.progs[sub]; ok {
		return p
	}
	if err, ok := c.errs[sub]; ok && err != nil {
		return nil
	}
	p, err := core.Load(core.LoadOpts{Repo: c.Repo, Sub: sub, GOOS: c.GOOS, GOARCH: c.GOARCH})
	if err != nil {
		c.errs[sub] = err
		name := "root"
		if sub != "" {
			name = sub
		}
		c.R.Fail("load", "module:"+name, "-", "cannot load/type-check the module from the current tree: "+err.Error())
		return nil
	}
	c.progs[sub] = p
	progMu.Lock()
	progOf[p.SSA] = p
	progMu.Unlock()
	name := "root"
	if sub != "" {
		name = sub
	}
	c.R.Count("packages_"+name, len(p.All))
	c.R.Count("module_packages_"+name, len(p.Roots))
	c.R.Count("ssa_functions_"+name, p.NumFuncs)
	if len(p.Roots) == 0 {
		c.R.Fail("load", "module:"+name, "-", "no packages loaded")
	}
	return p
}

// Preload loads both modules in parallel.
func (c *Ctx) Preload(subs ...string) {
	var wg sync.WaitGroup
	for _, s := range subs {
		wg.Add(1)
		go func(s string) {
			defer wg.Done()
			// Load outside the ctx lock; store afterwards.
			p, err := core.Load(core.LoadOpts{Repo: c.Repo, Sub: s, GOOS: c.GOOS, GOARCH: c.GOARCH})
			c.mu.Lock()
			if err != nil {
				c.errs[s] = err
			} else {
				c.progs[s] = p
				progMu.Lock()
				progOf[p.SSA] = p
				progMu.Unlock()
			}
			c.mu.Unlock()
		}(s)
	}
	wg.Wait()
	for _, s := range subs {
		name := "root"
		if s != "" {
			name = s
		}
		if err := c.errs[s]; err != nil {
			c.R.Fail("load", "module:"+name, "-", "cannot load/type-check the module from the current tree: "+err.Error())
			continue
		}
		p := c.progs[s]
		c.R.Count("packages_"+name, len(p.All))
		c.R.Count("module_packages_"+name, len(p.Roots))
		c.R.Count("ssa_functions_"+name, p.NumFuncs)
	}
}

var progMu sync.Mutex

// Check is one property's checker.
type Check struct {
	ID          string
	Explanation string
	Run         func(c *Ctx)
	Modules     []string
}

var Registry = map[string]*Check{}

func register(ch *Check) { Registry[ch.ID] = ch }

func IDs() []string {
	var ids []string
	for k := range Registry {
		ids = append(ids, k)
	}
	sort.Strings(ids)
	return ids
}

// RunCheck executes a property check and returns the exit code.
func RunCheck(repo, verif, id, tier string) (code int) {
	ch := Registry[id]
	if ch == nil {
		fmt.Fprintf(os.Stderr, "unknown property %s (known: %v)\n", id, IDs())
		return 2
	}
	c := NewCtx(repo, verif, id, tier)
	c.R.Explanation = ch.Explanation
	c.R.CheckerCmd = fmt.Sprintf("./check %s %s  (bin/lcverif check %s %s; static analysis of %s as it is now)", id, tier, id, tier, repo)
	defer func() {
		if r := recover(); r != nil {
			c.R.Fail("internal", "analyser-panic", "-", fmt.Sprintf("the analyser panicked: %v", r))
			code = c.R.Finish(verif)
			if code == 0 {
				code = 1
			}
		}
	}()
	c.Preload(ch.Modules...)
	if os.Getenv("LCV_GEN_ANCHORS") != "" {
		for _, m := range ch.Modules {
			if pr := c.progs[m]; pr != nil {
				core.RecordNames(pr)
			}
		}
	}
	ch.Run(c)
	if tier == "thorough" {
		runThoroughExtras(c, ch)
		if os.Getenv("LCV_REPO") == "" || os.Getenv("LCV_SELFTEST") != "" {
			selfTest(c, ch)
		}
	}
	return c.R.Finish(verif)
}

// runThoroughExtras re-runs the rules on other GOOS/GOARCH configurations so that
// build-tagged files and platform-dependent constants (os.PathSeparator, int
// width) are covered. Obligations are tagged with the configuration.
func runThoroughExtras(c *Ctx, ch *Check) {
	for _, cfg := range [][2]string{{"windows", "amd64"}, {"linux", "386"}} {
		sub := NewCtx(c.Repo, c.VerifDir, ch.ID, c.Tier)
		sub.GOOS, sub.GOARCH = cfg[0], cfg[1]
		sub.Preload(ch.Modules...)
		ch.Run(sub)
		tag := fmt.Sprintf(" [%s/%s]", cfg[0], cfg[1])
		for _, o := range sub.R.Obls {
			// identical constructs are de-duplicated in Finish; keep failures visible per configuration
			if o.Status == core.Discharged || o.Status == core.Info {
				o.Construct += tag
			}
			c.R.Obls = append(c.R.Obls, o)
		}
		for k, v := range sub.R.Counts {
			c.R.Counts[k+tag] = v
		}
		for k := range sub.R.Trusted {
			c.R.Trusted[k] = true
		}
		for k := range sub.R.Assumptions {
			c.R.Assumptions[k] = true
		}
	}
}
