package props

import (
	"fmt"
	"go/token"
	"strings"

	"golang.org/x/tools/go/ssa"

	"lcv/core"
	"lcv/eng"
)

func init() {
	register(&Check{
		ID:      "C08",
		Modules: []string{"v2"},
		Explanation: "Path rules on the streaming tokenizer and its callers: (R08.1) error flow: on every path from the reader call on which its error is neither nil nor end-of-input class, the first effect is `return nil, thatError`; the end-of-input test is an EOF classifier (a boolean combination of == io.EOF / io.ErrUnexpectedEOF only); in match a tokenizer error is returned with a zero Results before anything else, and MatchFrom passes match's results through; " +
			"(R08.2) Match is a pure delegation to MatchFrom(bytes.NewReader(in)); (R08.3) the only call that consumes the reader is io.ReadFull (full window or end-of-input error, so fragmentation cannot show); (R08.4) the bytes left over after a window are copied to the front of the buffer and the next read continues exactly after them; " +
			"(R08.5) the rune decoder is given the bytes beyond the window target (the 4 carry-over bytes), never a slice capped at the window; (R06.3) the tokenizer's boolean state is carried across buffer refills. Necessary conditions for all inputs, fragmentations, pad widths and failure offsets; index arithmetic of the buffer is not otherwise decided.",
		Run: runC08,
	})
}

// errLit classifies a path literal with respect to the error value: +1 = establishes EOF-class or nil
// (the path is not an 'other error' path), 0 = says nothing.
func errLitExcludesOther(l eng.PathLit, errVal ssa.Value, isClassifier func(*ssa.Function) bool) bool {
	if l.Truth && isEOFDisjunction(l.Cond, errVal, isClassifier, 0) {
		return true
	}
	switch x := l.Cond.(type) {
	case *ssa.Call:
		if f := eng.ResolveCallee(x.Call.Value); f != nil && isClassifier(f) && len(x.Call.Args) >= 1 && x.Call.Args[len(x.Call.Args)-1] == errVal {
			return l.Truth // classifier true => EOF class
		}
	case *ssa.BinOp:
		var other ssa.Value
		if x.X == errVal {
			other = x.Y
		} else if x.Y == errVal {
			other = x.X
		} else {
			return false
		}
		if cst, ok := other.(*ssa.Const); ok && cst.Value == nil {
			// err != nil false / err == nil true => nil class
			return (x.Op == token.NEQ && !l.Truth) || (x.Op == token.EQL && l.Truth)
		}
		if isEOFSentinel(other) {
			// err == io.EOF true / err != io.EOF false => EOF class
			return (x.Op == token.EQL && l.Truth) || (x.Op == token.NEQ && !l.Truth)
		}
	}
	return false
}

func isEOFSentinel(v ssa.Value) bool {
	if ld, ok := v.(*ssa.UnOp); ok && ld.Op == token.MUL {
		if g, ok := ld.X.(*ssa.Global); ok && g.Pkg != nil && g.Pkg.Pkg.Path() == "io" {
			return g.Name() == "EOF"
		}
	}
	return false
}

// eofClassifier: body is only a boolean combination of == against io.EOF of its parameter. (io.ErrUnexpectedEOF is what
// readers of compressed or framed streams return for a truncated input: it is a failure, not the end of the input.)
func eofClassifier(fn *ssa.Function) bool {
	if fn == nil || len(fn.Params) != 1 || len(fn.Blocks) == 0 {
		return false
	}
	n := 0
	for _, b := range fn.Blocks {
		for _, in := range b.Instrs {
			switch x := in.(type) {
			case *ssa.BinOp:
				if x.Op != token.EQL || x.X != fn.Params[0] || !isEOFSentinel(x.Y) {
					return false
				}
				n++
			case *ssa.UnOp:
				if x.Op != token.MUL && x.Op != token.NOT {
					return false
				}
			case *ssa.If, *ssa.Jump, *ssa.Return, *ssa.Phi, *ssa.DebugRef:
			default:
				return false
			}
		}
	}
	return n > 0
}

// firstEffectOnOtherPaths: from the block of `from`, every path on which errVal may still be an
// 'other' error must reach, as its first effect, a return whose results satisfy okReturn.
func firstEffectOnOtherPaths(fn *ssa.Function, from ssa.Instruction, errVal ssa.Value, okReturn func(*ssa.Return) bool) (bool, string, int) {
	isCl := eofClassifier
	type item struct {
		b    *ssa.BasicBlock
		from int // instruction index to start at
	}
	seen := map[*ssa.BasicBlock]bool{}
	paths := 0
	var bad string
	var walk func(b *ssa.BasicBlock, start int)
	walk = func(b *ssa.BasicBlock, start int) {
		if bad != "" {
			return
		}
		for i := start; i < len(b.Instrs); i++ {
			switch x := b.Instrs[i].(type) {
			case *ssa.Return:
				paths++
				if !okReturn(x) {
					bad = "a path on which the error may be a real reader error returns something else: " + x.String()
				}
				return
			case *ssa.Store, *ssa.MapUpdate, *ssa.Send, *ssa.Go, *ssa.Defer, *ssa.Panic:
				paths++
				bad = "a path on which the error may be a real reader error performs " + fmt.Sprintf("%T", x) + " before returning it"
				return
			case *ssa.Call:
				if f := eng.ResolveCallee(x.Call.Value); f != nil && isCl(f) {
					continue
				}
				if bi, ok := x.Call.Value.(*ssa.Builtin); ok && (bi.Name() == "len" || bi.Name() == "cap") {
					continue
				}
				paths++
				bad = "a path on which the error may be a real reader error calls " + core.StaticCalleeName(&x.Call) + " before returning it"
				return
			}
		}
		last := b.Instrs[len(b.Instrs)-1]
		for k, s := range b.Succs {
			if ifi, ok := last.(*ssa.If); ok {
				cond, truth := ifi.Cond, k == 0
				for {
					if u, isU := cond.(*ssa.UnOp); isU && u.Op == token.NOT {
						cond, truth = u.X, !truth
						continue
					}
					break
				}
				if errLitExcludesOther(eng.PathLit{Cond: cond, Truth: truth}, errVal, isCl) {
					continue // not an 'other error' path
				}
			}
			if seen[s] {
				continue
			}
			seen[s] = true
			walk(s, 0)
		}
	}
	// start after `from`
	idx := 0
	for i, in := range from.Block().Instrs {
		if in == from {
			idx = i + 1
		}
	}
	walk(from.Block(), idx)
	if bad != "" {
		return false, bad, paths
	}
	if paths == 0 {
		return false, "no path returns the error", 0
	}
	return true, fmt.Sprintf("%d other-error path(s), each returns the error first", paths), paths
}

func runC08(c *Ctx) {
	p := c.Prog("v2")
	if p == nil {
		return
	}
	ts := p.Func(v2pkg, "tokenizeStream")
	if !c.R.Anchor(ts != nil, "v2.tokenizeStream") {
		return
	}
	src := ts.Params[0]
	// ---- R08.3: single consuming call, a fill loop that reports the reader's own error ----------
	var read *ssa.Call
	nUses := 0
	for _, r := range *src.Referrers() {
		switch x := r.(type) {
		case *ssa.DebugRef:
		case *ssa.Call:
			nUses++
			n := core.StaticCalleeName(&x.Call)
			f := x.Call.StaticCallee()
			switch {
			case len(x.Call.Args) >= 2 && x.Call.Args[0] == ssa.Value(src) && f != nil && core.FuncPkgPath(f) == v2pkg:
				read = x
				okF, whyF := fillHelperShape(f)
				c.R.Check(okF, "R08.3", "tokenizeStream: the reader is consumed through a loop that fills the window and reports the reader's own error", p.Pos(x.Pos()), whyF, whyF)
			case (n == "io.ReadFull" || n == "io.ReadAtLeast") && x.Call.Args[0] == ssa.Value(src):
				read = x
				c.R.Fail("R08.3", "tokenizeStream: the reader is consumed through a loop that fills the window and reports the reader's own error", p.Pos(x.Pos()),
					n+" reports a short final read as io.ErrUnexpectedEOF and passes the reader's own error through unchanged, so a reader that fails with io.ErrUnexpectedEOF (a truncated gzip/tar/HTTP stream) cannot be told from the end of the input; it also drops an error that arrives together with the bytes that complete the buffer")
			default:
				c.R.Fail("R08.3", "tokenizeStream: the reader is consumed through "+n, p.Pos(x.Pos()), "only a loop that fills the whole window (or stops at the reader's error) makes the result independent of how the reader delivers its bytes: with short reads the window logic sees fragments")
			}
		default:
			nUses++
			c.R.Fail("R08.3", "tokenizeStream: the reader escapes", p.Pos(r.Pos()), "src is used by "+r.String())
		}
	}
	c.R.RequireMin("R08.3", "uses of the reader", nUses, 1)
	if read == nil {
		return
	}
	var errVal, nVal ssa.Value
	for _, r := range *read.Referrers() {
		if ex, ok := r.(*ssa.Extract); ok {
			if ex.Index == 1 {
				errVal = ex
			} else {
				nVal = ex
			}
		}
	}
	if errVal == nil {
		c.R.Fail("R08.1", "tokenizeStream: the reader's error is examined", p.Pos(read.Pos()), "the error result of the window read is discarded")
		return
	}
	_ = nVal
	// ---- R08.1: error flow ---------------------------------------------------------------
	ok, why, _ := firstEffectOnOtherPaths(ts, read, errVal, func(r *ssa.Return) bool {
		if len(r.Results) != 2 || r.Results[1] != errVal {
			return false
		}
		cst, isConst := r.Results[0].(*ssa.Const)
		return isConst && cst.Value == nil
	})
	c.R.Check(ok, "R08.1", "tokenizeStream: a non-EOF reader error is returned, with a nil document, before any other effect", p.Pos(read.Pos()), why, why)
	// ... and it is the only error there is: the callers that read from memory treat an error of the tokenizer as impossible
	// (Normalize panics on it, AddContent goes on with the nil document), so the tokenizer must not fail on its own account
	{
		nRet, own := 0, ""
		for _, b := range ts.Blocks {
			ret, isRet := b.Instrs[len(b.Instrs)-1].(*ssa.Return)
			if !isRet || len(ret.Results) != 2 {
				continue
			}
			nRet++
			e := ret.Results[1]
			if cst, isC := e.(*ssa.Const); isC && cst.Value == nil {
				continue
			}
			if e != errVal {
				own = p.Pos(ret.Pos())
			}
		}
		c.R.Check(own == "" && nRet > 0, "R08.7", "tokenizeStream: the only error it returns is the reader's", p.Pos(ts.Pos()), fmt.Sprintf("%d returns: nil or the error of the window read", nRet),
			"an error that is not the reader's is returned at "+own+": Normalize, Match and AddContent read from memory and treat a tokenizer error as impossible - Normalize panics, AddContent dereferences the nil document")
	}
	// classifiers used on the error are genuine EOF classifiers
	nCl := 0
	for _, call := range core.CallsIn(ts) {
		cv, isCall := call.(*ssa.Call)
		if !isCall || len(cv.Call.Args) == 0 || cv.Call.Args[len(cv.Call.Args)-1] != errVal {
			continue
		}
		f := eng.ResolveCallee(cv.Call.Value)
		if f == nil {
			continue
		}
		nCl++
		c.R.Check(eofClassifier(f), "R08.1", "tokenizeStream: end of input is recognised by an EOF classifier ("+f.Name()+")", p.Pos(cv.Pos()),
			"body is a boolean combination of == io.EOF", "the function that decides `end of input` accepts other errors or looks at something else: a failing reader is mistaken for the end of the stream")
	}
	for _, b := range ts.Blocks {
		for _, in := range b.Instrs {
			if bo, ok := in.(*ssa.BinOp); ok && bo.Op == token.EQL && (bo.X == errVal && isEOFSentinel(bo.Y) || bo.Y == errVal && isEOFSentinel(bo.X)) {
				nCl++
			}
		}
	}
	c.R.RequireMin("R08.1", "end-of-input tests on the reader's error", nCl, 1)
	_ = nVal

	// match: tokenizer error => return Results{}, err first
	if m := p.Func(v2pkg, "(*Classifier).match"); c.R.Anchor(m != nil, "v2.(*Classifier).match") {
		for _, call := range core.CallsIn(m) {
			cv, isCall := call.(*ssa.Call)
			if !isCall || cv.Call.StaticCallee() != ts {
				continue
			}
			var ev ssa.Value
			for _, r := range *cv.Referrers() {
				if ex, ok := r.(*ssa.Extract); ok && ex.Index == 1 {
					ev = ex
				}
			}
			if ev == nil {
				c.R.Fail("R08.1", "match: the tokenizer's error is examined", p.Pos(cv.Pos()), "the error of tokenizeStream is discarded in match")
				continue
			}
			ok, why, _ := firstEffectOnOtherPaths(m, cv, ev, func(r *ssa.Return) bool {
				if len(r.Results) != 2 || r.Results[1] != ev {
					return false
				}
				_, isConst := r.Results[0].(*ssa.Const)
				return isConst // zero Results
			})
			c.R.Check(ok, "R08.1", "match: a tokenizer error is returned with zero Results before any other effect", p.Pos(cv.Pos()), why, why)
		}
	}
	// R08.10: a fault of the reader can only surface if the reader is read: in match no return comes before the call of the
	// tokenizer (an early "nothing to match against" return hands back a nil error for a reader that would have failed)
	if m := p.Func(v2pkg, "(*Classifier).match"); m != nil {
		var tcall ssa.Instruction
		for _, call := range core.CallsIn(m) {
			if g := call.Common().StaticCallee(); g != nil && g.Name() == "tokenizeStream" {
				tcall = call.(ssa.Instruction)
			}
		}
		if tcall != nil {
			bad := ""
			for _, b := range m.Blocks {
				if r, isRet := b.Instrs[len(b.Instrs)-1].(*ssa.Return); isRet && !(tcall.Block() == b || tcall.Block().Dominates(b)) {
					bad = p.Pos(r.Pos())
				}
			}
			c.R.Check(bad == "", "R08.10", "match: the input is tokenized before anything is returned", p.Pos(m.Pos()), "the call of tokenizeStream dominates every return",
				"match returns at "+bad+" without having read its input: a reader that fails gets a nil error and empty Results (for an empty corpus, say) where the same bytes through a healthy reader and the fault at any offset must give that error")
		}
	}
	// MatchFrom passes match's results through
	if mf := p.Func(v2pkg, "(*Classifier).MatchFrom"); c.R.Anchor(mf != nil, "v2.(*Classifier).MatchFrom") {
		ok, why := passThrough(mf, p.Func(v2pkg, "(*Classifier).match"), -1)
		c.R.Check(ok, "R08.1", "MatchFrom returns match's results and error unchanged", p.Pos(mf.Pos()), why, why)
	}
	// ---- R08.2 ----------------------------------------------------------------------------
	if mt := p.Func(v2pkg, "(*Classifier).Match"); c.R.Anchor(mt != nil, "v2.(*Classifier).Match") {
		ok, why := passThrough(mt, p.Func(v2pkg, "(*Classifier).MatchFrom"), 0)
		if ok {
			// argument is bytes.NewReader(in)
			for _, call := range core.CallsIn(mt) {
				if cal := call.Common().StaticCallee(); cal != nil && cal == p.Func(v2pkg, "(*Classifier).MatchFrom") {
					a := call.Common().Args[1]
					if mi, isMI := a.(*ssa.MakeInterface); isMI {
						a = mi.X
					}
					rc, isCall := a.(*ssa.Call)
					if !isCall || core.StaticCalleeName(&rc.Call) != "bytes.NewReader" || rc.Call.Args[0] != mt.Params[1] {
						ok, why = false, "Match does not hand MatchFrom a bytes.Reader over exactly its argument"
					}
				}
			}
		}
		c.R.Check(ok, "R08.2", "Match is MatchFrom(bytes.NewReader(in)) with the result passed through", p.Pos(mt.Pos()), why, why)
	}
	// ---- R08.4 carry-over -----------------------------------------------------------------
	checkCarryOver(c, p, ts, read)
	// ---- R08.5 decoder window --------------------------------------------------------------
	checkDecoderWindow(c, p, ts, read)
	checkAllBytesAtEOF(c, p, ts, read)
	// ---- R06.3 tokenizer state survives a buffer refill (padding moves text across refill boundaries)
	checkFlagsSurviveRefill(c, p)
}

func dependsOnValue(v, target ssa.Value, depth int) bool {
	if target == nil {
		return false
	}
	return dependsOn(v, target, depth)
}

// passThrough: fn has exactly one call of `callee` and returns its result(s) unchanged (idx = -1: all
// results in order; idx >= 0: that single result), with no other call or store.
func passThrough(fn *ssa.Function, target *ssa.Function, idx int) (bool, string) {
	if target == nil {
		return false, "delegation target not found"
	}
	callee := target.Name()
	var the *ssa.Call
	for _, b := range fn.Blocks {
		for _, in := range b.Instrs {
			switch x := in.(type) {
			case *ssa.Call:
				cal := x.Call.StaticCallee()
				if cal != nil && cal == target {
					if the != nil {
						return false, "more than one call of " + callee
					}
					the = x
				} else if core.StaticCalleeName(&x.Call) != "bytes.NewReader" {
					return false, "does more than delegate: calls " + core.StaticCalleeName(&x.Call)
				}
			case *ssa.Store, *ssa.MapUpdate, *ssa.Go, *ssa.Defer:
				return false, "does more than delegate: " + fmt.Sprintf("%T", x)
			}
		}
	}
	if the == nil {
		return false, "no call of " + callee
	}
	for _, b := range fn.Blocks {
		ret, ok := b.Instrs[len(b.Instrs)-1].(*ssa.Return)
		if !ok {
			continue
		}
		for i, r := range ret.Results {
			ex, isEx := r.(*ssa.Extract)
			if r == the {
				continue
			}
			want := i
			if idx >= 0 {
				want = idx
			}
			if !isEx || ex.Tuple != the || ex.Index != want {
				return false, fmt.Sprintf("result %d is not result %d of %s", i, want, callee)
			}
		}
	}
	return true, "single call of " + callee + ", results returned unchanged"
}

// checkCarryOver: the phi of the read offset receives, on the back edge of the read loop, the result of
// copy(buf, buf[consumed:]) on the same buffer.
func checkCarryOver(c *Ctx, p *core.Prog, ts *ssa.Function, read *ssa.Call) {
	sl, ok := read.Call.Args[1].(*ssa.Slice)
	if !ok || sl.Low == nil {
		c.R.Fail("R08.4", "tokenizeStream: read offset", p.Pos(read.Pos()), "the window passed to the reader is not buf[offset:]")
		return
	}
	buf := sl.X
	off, ok := sl.Low.(*ssa.Phi)
	if !ok {
		c.R.Fail("R08.4", "tokenizeStream: read offset", p.Pos(read.Pos()), "the read offset is not a loop variable")
		return
	}
	okAll, why := true, ""
	nBack := 0
	for i, e := range off.Edges {
		pred := off.Block().Preds[i]
		if !off.Block().Dominates(pred) {
			if k, isK := core.ConstInt(e); !isK || k != 0 {
				okAll, why = false, "the first read does not start at offset 0"
			}
			continue
		}
		nBack++
		call, isCall := e.(*ssa.Call)
		if !isCall {
			okAll, why = false, "after a window the next read offset is "+core.AP(e)+", not the number of bytes carried over by copy(): bytes are skipped or stale bytes are re-read when a rune straddles the window edge"
			continue
		}
		bi, isB := call.Call.Value.(*ssa.Builtin)
		if !isB || bi.Name() != "copy" {
			okAll, why = false, "the next read offset is not the result of copy()"
			continue
		}
		dst, srcS := call.Call.Args[0], call.Call.Args[1]
		ss, isS := srcS.(*ssa.Slice)
		if dst != buf && !sameSliceBase(dst, buf) {
			okAll, why = false, "the leftover bytes are copied into a different buffer"
		} else if !isS || !sameSliceBase(ss.X, buf) || ss.Low == nil || ss.High != nil {
			okAll, why = false, "the bytes carried over are not buf[consumed:]"
		} else if scan := scanPosition(ts); scan != nil && core.Unspill(ss.Low) != scan {
			okAll, why = false, "the bytes carried over start at "+core.AP(ss.Low)+", not at the position the rune loop stopped at: the bytes between the two are lost or decoded twice (a rune that straddles the window edge is torn)"
		}
	}
	if nBack == 0 {
		okAll, why = false, "the read offset never changes"
	}
	if okAll {
		why = "offset = copy(buf, buf[consumed:]) on the loop's back edge, 0 initially"
	}
	c.R.Check(okAll, "R08.4", "tokenizeStream: the next read continues exactly after the bytes carried over from the previous window", p.Pos(read.Pos()), why, why)
}

// scanPosition: the loop-carried index of the rune loop - the low bound of the slice the rune decoder is given.
func scanPosition(ts *ssa.Function) ssa.Value {
	for _, call := range core.CallsIn(ts) {
		if !strings.HasPrefix(core.StaticCalleeName(call.Common()), "unicode/utf8.DecodeRune") {
			continue
		}
		if arg, ok := call.Common().Args[0].(*ssa.Slice); ok && arg.Low != nil {
			if ph, isPhi := core.Unspill(arg.Low).(*ssa.Phi); isPhi {
				return ph
			}
		}
	}
	return nil
}

// checkAllBytesAtEOF: R08.8. When the reader reports the end of the input, everything that is in the buffer is consumed: on
// every way from the end-of-input branch to the rune loop, the bound that the scan position is compared with is the end of
// the valid bytes. (A bound that stays at the window target leaves the last bytes of the input behind whenever they
// happen to lie beyond it.)
func checkAllBytesAtEOF(c *Ctx, p *core.Prog, ts *ssa.Function, read *ssa.Call) {
	scan, _ := scanPosition(ts).(*ssa.Phi)
	if scan == nil {
		return
	}
	header := scan.Block()
	ifi, ok := header.Instrs[len(header.Instrs)-1].(*ssa.If)
	if !ok {
		return
	}
	cmp, ok := ifi.Cond.(*ssa.BinOp)
	if !ok || cmp.Op != token.LSS || cmp.X != ssa.Value(scan) {
		c.R.Info("R08.8", "tokenizeStream: bound of the rune loop", p.Pos(header.Instrs[0].Pos()), "the rune loop is not of the form `for idx < bound`")
		return
	}
	bound := cmp.Y
	// the end of the valid bytes: the high bound of the decoder's slice
	var endV ssa.Value
	for _, call := range core.CallsIn(ts) {
		if strings.HasPrefix(core.StaticCalleeName(call.Common()), "unicode/utf8.DecodeRune") {
			if arg, ok := call.Common().Args[0].(*ssa.Slice); ok {
				endV = arg.High
			}
		}
	}
	if endV == nil {
		return
	}
	// blocks entered on the true edge of an end-of-input test on the reader's error
	var errVal ssa.Value
	for _, r := range *read.Referrers() {
		if ex, ok := r.(*ssa.Extract); ok && ex.Index == 1 {
			errVal = ex
		}
	}
	nPaths, bad := 0, ""
	for _, b := range ts.Blocks {
		bi, ok := b.Instrs[len(b.Instrs)-1].(*ssa.If)
		if !ok {
			continue
		}
		bo, ok := bi.Cond.(*ssa.BinOp)
		if !ok || bo.Op != token.EQL || bo.X != errVal || !isEOFSentinel(bo.Y) {
			continue
		}
		if !b.Dominates(header) && !reaches(b, header) {
			continue
		}
		from := b.Succs[0]
		paths, okP := eng.EnumPaths(from, header, func(x *ssa.BasicBlock) bool { return x == b }, 64)
		if !okP {
			c.R.Undecided("R08.8", "tokenizeStream: end of input", p.Pos(bi.Pos()), "too many paths from the end-of-input branch to the rune loop")
			return
		}
		for _, pa := range paths {
			// only first entries into the rune loop (not its own back edges)
			if len(pa.Blocks) >= 2 && header.Dominates(pa.Blocks[len(pa.Blocks)-2]) {
				continue
			}
			nPaths++
			full := append([]*ssa.BasicBlock{b}, pa.Blocks...)
			v := bound
			for d := 0; d < 8; d++ {
				ph, isPhi := v.(*ssa.Phi)
				if !isPhi {
					break
				}
				next := v
				for i, blk := range full {
					if blk == ph.Block() && i > 0 {
						for k, pr := range blk.Preds {
							if pr == full[i-1] {
								next = ph.Edges[k]
							}
						}
					}
				}
				if next == v {
					break
				}
				v = next
			}
			if v != endV {
				bad = "on a way from the end-of-input branch into the rune loop the loop runs up to " + core.AP(v) + ", not up to the end of the valid bytes"
			}
		}
	}
	if nPaths == 0 {
		c.R.Info("R08.8", "tokenizeStream: end of input", p.Pos(header.Instrs[0].Pos()), "no path from an end-of-input test to the rune loop found")
		return
	}
	c.R.Check(bad == "", "R08.8", "tokenizeStream: at the end of the input the rune loop consumes every valid byte of the buffer", p.Pos(header.Instrs[0].Pos()),
		fmt.Sprintf("%d way(s) from the end-of-input branch into the rune loop, the bound is the end of the valid bytes on each", nPaths),
		bad+": the last bytes of an input whose length puts them beyond the window target are never tokenized")
}

func sameSliceBase(a, b ssa.Value) bool {
	base := func(v ssa.Value) ssa.Value {
		for {
			if s, ok := v.(*ssa.Slice); ok {
				v = s.X
				continue
			}
			return v
		}
	}
	return base(a) == base(b)
}

// checkDecoderWindow: the slice handed to utf8.DecodeRune is buf[i:] (not capped at the window target).
func checkDecoderWindow(c *Ctx, p *core.Prog, ts *ssa.Function, read *ssa.Call) {
	sl, _ := read.Call.Args[1].(*ssa.Slice)
	n := 0
	for _, call := range core.CallsIn(ts) {
		if !strings.HasPrefix(core.StaticCalleeName(call.Common()), "unicode/utf8.DecodeRune") {
			continue
		}
		n++
		arg, ok := call.Common().Args[0].(*ssa.Slice)
		// the decoder's slice ends where the valid bytes of the buffer end: offset of the read + number of bytes read.
		// Ending it earlier (at the window target) tears a rune that straddles the window edge; not ending it at all lets
		// the decoder complete a truncated rune at the end of the input with bytes left over from earlier reads.
		validEnd := func(v ssa.Value) bool {
			bo, isBo := v.(*ssa.BinOp)
			if !isBo || bo.Op != token.ADD || sl == nil {
				return false
			}
			isN := func(x ssa.Value) bool {
				ex, isEx := x.(*ssa.Extract)
				return isEx && ex.Index == 0 && ex.Tuple == ssa.Value(read)
			}
			return (bo.X == sl.Low && isN(bo.Y)) || (bo.Y == sl.Low && isN(bo.X))
		}
		good := ok && sl != nil && sameSliceBase(arg.X, sl.X) && arg.High != nil && validEnd(arg.High)
		why := "DecodeRune(buf[i:end]) with end = read offset + bytes read"
		if !good {
			switch {
			case !ok || sl == nil || !sameSliceBase(arg.X, sl.X):
				why = "the decoder is not given a slice of the read buffer"
			case arg.High == nil:
				why = "the slice given to the decoder runs to the end of the buffer's capacity: at the end of the input the bytes behind the valid ones are left over from earlier reads, so a truncated multi-byte sequence at the very end is completed (or not) by stale bytes and the result depends on how the content is aligned to the buffer"
			default:
				why = "the slice given to the decoder is capped at " + core.AP(arg.High) + " instead of the end of the valid bytes: a multi-byte rune that straddles the window edge is decoded as U+FFFD, so shifting the text by a few bytes changes the tokens"
			}
		}
		c.R.Check(good, "R08.5", "tokenizeStream: the rune decoder sees exactly the valid bytes of the read buffer (carry-over included, stale bytes excluded)", p.Pos(call.Pos()), why, why)
	}
	c.R.RequireMin("R08.5", "rune decode sites", n, 1)

	// R08.9 the read buffer is looked at through the rune decoder only: a byte fetched from it directly (a look-ahead at
	// the next byte, say) is only there if it happens to lie in the current window - behind the last byte of a window it is
	// a byte of an earlier read, or the test that protects the access fails - so what the tokenizer does depends on how
	// the text is aligned to the windows
	if sl != nil {
		nIdx, bad := 0, ""
		for _, b := range ts.Blocks {
			for _, in := range b.Instrs {
				ia, ok := in.(*ssa.IndexAddr)
				if !ok {
					continue
				}
				nIdx++
				if sameSliceBase(ia.X, sl.X) {
					bad = p.Pos(ia.Pos())
				}
			}
		}
		c.R.Check(bad == "", "R08.9", "tokenizeStream: no byte of the read buffer is fetched past the decoder", p.Pos(ts.Pos()), fmt.Sprintf("%d indexing operations, none into the read buffer", nIdx),
			"a byte of the read buffer is fetched directly at "+bad+": whether it is there depends on where the read window ends, so padding the input by a few bytes changes the tokens")
	}

	// R08.6 the scan position moves only by the size of the rune that was decoded: every byte of the input is seen by the
	// decoder and by the dispatch that follows it (newlines, blanks, word characters), none is stepped over.
	for _, call := range core.CallsIn(ts) {
		if !strings.HasPrefix(core.StaticCalleeName(call.Common()), "unicode/utf8.DecodeRune") {
			continue
		}
		arg, ok := call.Common().Args[0].(*ssa.Slice)
		if !ok || arg.Low == nil {
			continue
		}
		var size ssa.Value
		if cv, isCall := call.(*ssa.Call); isCall {
			for _, r := range *cv.Referrers() {
				if ex, isEx := r.(*ssa.Extract); isEx && ex.Index == 1 {
					size = ex
				}
			}
		}
		// the web of the scan position: phis and additions connected to the slicing index
		web := map[ssa.Value]bool{}
		var ops []*ssa.BinOp
		var walk func(v ssa.Value)
		walk = func(v ssa.Value) {
			if v == nil || web[v] {
				return
			}
			switch x := v.(type) {
			case *ssa.Phi:
				web[v] = true
				for _, e := range x.Edges {
					walk(e)
				}
			case *ssa.BinOp:
				if x.Op != token.ADD && x.Op != token.SUB {
					return
				}
				web[v] = true
				ops = append(ops, x)
				walk(x.X)
			default:
				return
			}
			if refs := v.Referrers(); refs != nil {
				for _, r := range *refs {
					switch u := r.(type) {
					case *ssa.Phi:
						walk(u)
					case *ssa.BinOp:
						if (u.Op == token.ADD || u.Op == token.SUB) && u.X == v {
							walk(u)
						}
					}
				}
			}
		}
		walk(arg.Low)
		nOps := 0
		for _, bo := range ops {
			if !web[bo.X] {
				continue
			}
			if bo.Referrers() == nil {
				continue
			}
			// only updates that flow back into the position (not `idx + n` computed for another purpose)
			flowsBack := false
			for _, r := range *bo.Referrers() {
				if ph, isPhi := r.(*ssa.Phi); isPhi && web[ph] {
					flowsBack = true
				}
				if b2, isB := r.(*ssa.BinOp); isB && web[b2] {
					flowsBack = true
				}
			}
			if !flowsBack {
				continue
			}
			nOps++
			okStep := size != nil && bo.Y == size
			c.R.Check(okStep, "R08.6", "tokenizeStream: the scan position moves only by the size of the decoded rune", p.Pos(bo.Pos()), "position +/- size of the rune just decoded",
				"the scan position is moved by "+core.AP(bo.Y)+" instead of the size of a decoded rune: bytes are stepped over without being decoded and dispatched, so a newline (or any other significant byte) among them is lost")
		}
		c.R.RequireMin("R08.6", "updates of the scan position", nOps, 1)
	}
}

// isEOFDisjunction: v is true only if errVal is io.EOF or io.ErrUnexpectedEOF: a direct comparison, an
// EOF classifier call, or the boolean phi of a short-circuit `a || b` over such tests (possibly
// stored in a local variable).
func isEOFDisjunction(v ssa.Value, errVal ssa.Value, isClassifier func(*ssa.Function) bool, depth int) bool {
	if depth > 4 {
		return false
	}
	switch x := v.(type) {
	case *ssa.BinOp:
		if x.Op != token.EQL {
			return false
		}
		return (x.X == errVal && isEOFSentinel(x.Y)) || (x.Y == errVal && isEOFSentinel(x.X))
	case *ssa.Call:
		f := eng.ResolveCallee(x.Call.Value)
		return f != nil && isClassifier(f) && len(x.Call.Args) >= 1 && x.Call.Args[len(x.Call.Args)-1] == errVal
	case *ssa.Phi:
		if !isBool(x.Type()) {
			return false
		}
		for i, e := range x.Edges {
			if cst, ok := e.(*ssa.Const); ok && cst.Value != nil {
				if cst.Value.String() == "false" {
					continue
				}
				// const true: the predecessor must have taken the true edge of an EOF test
				pb := x.Block().Preds[i]
				ifi, ok := pb.Instrs[len(pb.Instrs)-1].(*ssa.If)
				if !ok || pb.Succs[0] != x.Block() || !isEOFDisjunction(ifi.Cond, errVal, isClassifier, depth+1) {
					return false
				}
				continue
			}
			if !isEOFDisjunction(e, errVal, isClassifier, depth+1) {
				return false
			}
		}
		return true
	}
	return false
}

// windowRead finds the call of tokenizeStream that fills the read window from the reader parameter: io.ReadFull /
// io.ReadAtLeast, or a function of the package that takes the reader and the window (a fill loop).
func windowRead(ts *ssa.Function) *ssa.Call {
	if len(ts.Params) == 0 {
		return nil
	}
	src := ts.Params[0]
	var read *ssa.Call
	for _, call := range core.CallsIn(ts) {
		cv, ok := call.(*ssa.Call)
		if !ok || len(cv.Call.Args) < 2 || cv.Call.Args[0] != ssa.Value(src) {
			continue
		}
		if _, isSlice := cv.Call.Args[1].(*ssa.Slice); !isSlice {
			continue
		}
		n := core.StaticCalleeName(&cv.Call)
		f := cv.Call.StaticCallee()
		if n == "io.ReadFull" || n == "io.ReadAtLeast" || (f != nil && core.FuncPkgPath(f) == v2pkg) {
			read = cv
		}
	}
	return read
}

// fillHelperShape: f(src io.Reader, buf []byte) (n int, err error) is
//
//	for n < len(buf) && err == nil { m, err = src.Read(buf[n:]); n += m }; return n, err
//
// i.e. the reader is only used through Read on the unfilled rest of buf, the loop goes on exactly while the buffer is
// not full and no error was reported, the count is the sum of the counts and the error is the reader's own.
func fillHelperShape(f *ssa.Function) (bool, string) {
	if len(f.Params) != 2 || len(f.Blocks) == 0 || f.Signature.Results().Len() != 2 {
		return false, "the window is not filled by a function (reader, buffer) -> (count, error)"
	}
	src, buf := f.Params[0], f.Params[1]
	var read *ssa.Call
	for _, r := range *src.Referrers() {
		switch x := r.(type) {
		case *ssa.DebugRef:
		case *ssa.Call:
			if x.Call.IsInvoke() && x.Call.Value == ssa.Value(src) && x.Call.Method.Name() == "Read" && read == nil {
				read = x
			} else {
				return false, "the fill loop uses the reader through something else than one Read call site"
			}
		default:
			return false, "the reader escapes from the fill loop"
		}
	}
	if read == nil {
		return false, "the fill function does not call Read on the reader"
	}
	sl, ok := read.Call.Args[0].(*ssa.Slice)
	if !ok || sl.X != ssa.Value(buf) || sl.High != nil || sl.Low == nil {
		return false, "Read is not given the unfilled rest of the buffer (buf[n:])"
	}
	nPhi, ok := sl.Low.(*ssa.Phi)
	if !ok {
		return false, "the fill position is not a loop-carried count"
	}
	var cnt, errV ssa.Value
	for _, r := range *read.Referrers() {
		if ex, ok := r.(*ssa.Extract); ok {
			if ex.Index == 0 {
				cnt = ex
			} else {
				errV = ex
			}
		}
	}
	if cnt == nil || errV == nil {
		return false, "a result of Read is discarded in the fill loop"
	}
	for _, e := range nPhi.Edges {
		if k, isK := core.ConstInt(e); isK && k == 0 {
			continue
		}
		bo, isBo := e.(*ssa.BinOp)
		if !isBo || bo.Op != token.ADD || !((bo.X == ssa.Value(nPhi) && bo.Y == cnt) || (bo.Y == ssa.Value(nPhi) && bo.X == cnt)) {
			return false, "the fill position is not the sum of the counts returned by Read"
		}
	}
	// the loop goes on only while the buffer is not full ...
	full := false
	isNil := func(v ssa.Value) bool { cst, ok := v.(*ssa.Const); return ok && cst.Value == nil }
	// errLike: the error of the last Read, or a loop-carried copy of it (nil before the first Read)
	errLike := func(v ssa.Value) bool {
		if v == errV {
			return true
		}
		if ph, ok := v.(*ssa.Phi); ok {
			for k, e := range ph.Edges {
				if !isNil(e) && e != errV && e != ssa.Value(ph) {
					return false
				}
				// nil is the value before the first Read only: on a way that has passed the Read, the value is that Read's
				// error (an error that is set back to nil behind a Read is an error swallowed)
				if isNil(e) && read.Block().Dominates(ph.Block().Preds[k]) {
					return false
				}
			}
			return true
		}
		return false
	}
	for _, ft := range core.FactsAt(read.Block()) {
		cmp, ok := ft.AsCmp()
		if !ok {
			continue
		}
		if cmp.Op == token.LSS && cmp.X == ssa.Value(nPhi) {
			if call, isCall := cmp.Y.(*ssa.Call); isCall {
				if bi, isB := call.Call.Value.(*ssa.Builtin); isB && bi.Name() == "len" && call.Call.Args[0] == ssa.Value(buf) {
					full = true
				}
			}
		}
	}
	if !full {
		return false, "the fill loop does not go on while the buffer is not full (n < len(buf)): short reads show through as partial windows"
	}
	// ... and no error was reported: Read is called again only where the last error is known to be nil - tested before
	// the call (loop condition) or on every way back to the loop head (return inside the loop)
	header := nPhi.Block()
	noErrBefore := false
	for _, ft := range core.FactsAt(read.Block()) {
		if cmp, ok := ft.AsCmp(); ok && cmp.Op == token.EQL && isNil(cmp.Y) && errLike(cmp.X) && cmp.X != errV {
			noErrBefore = true
		}
	}
	noErrBack := true
	nBack := 0
	for _, pr := range header.Preds {
		if !header.Dominates(pr) {
			continue
		}
		nBack++
		okEdge := false
		fs := append([]core.Fact{}, core.FactsAt(pr)...)
		if ifi, ok := pr.Instrs[len(pr.Instrs)-1].(*ssa.If); ok && len(pr.Succs) == 2 {
			fs = append(fs, core.Fact{Cond: ifi.Cond, Truth: pr.Succs[0] == header, If: ifi})
		}
		for _, ft := range fs {
			if cmp, ok := ft.AsCmp(); ok && cmp.Op == token.EQL && isNil(cmp.Y) && cmp.X == errV {
				okEdge = true
			}
		}
		if !okEdge {
			noErrBack = false
		}
	}
	if !noErrBefore && !(noErrBack && nBack > 0) {
		return false, "the fill loop does not stop at the first error the reader reports"
	}
	// what is returned: the bytes filled so far - including those of the last Read - and the reader's own error or nil
	for _, b := range f.Blocks {
		ret, ok := b.Instrs[len(b.Instrs)-1].(*ssa.Return)
		if !ok {
			continue
		}
		if len(ret.Results) != 2 {
			return false, "the fill function does not return (count, error)"
		}
		cntOK := ret.Results[0] == ssa.Value(nPhi)
		if bo, isBo := ret.Results[0].(*ssa.BinOp); isBo && bo.Op == token.ADD && ((bo.X == ssa.Value(nPhi) && bo.Y == cnt) || (bo.Y == ssa.Value(nPhi) && bo.X == cnt)) {
			cntOK = true
		}
		if read.Block().Dominates(b) && b != header && ret.Results[0] == ssa.Value(nPhi) {
			cntOK = false // returned after a Read without its bytes
		}
		if !cntOK {
			return false, "the fill function does not return the number of bytes filled, the bytes of the last Read included (bytes delivered together with an error are dropped)"
		}
		if !(isNil(ret.Results[1]) || errLike(ret.Results[1])) {
			return false, "the fill function does not return the reader's own error unchanged"
		}
		if isNil(ret.Results[1]) && read.Block().Dominates(b) && b != header {
			// a nil error after a Read: only where that Read's error was nil
			known := false
			for _, ft := range core.FactsAt(b) {
				if cmp, ok := ft.AsCmp(); ok && cmp.Op == token.EQL && isNil(cmp.Y) && cmp.X == errV {
					known = true
				}
			}
			if !known {
				return false, "the fill function can return a nil error after a Read that failed"
			}
		}
	}
	return true, "Read(buf[n:]) while n < len(buf) and no error was reported; returns the bytes filled and the reader's own error"
}
