package props

import (
	"fmt"
	"go/token"
	"go/types"
	"os"
	"path/filepath"
	"strings"

	"golang.org/x/tools/go/ssa"

	"lcv/core"
	"lcv/eng"
)

// assetTreeShape: every file selected by the //go:embed patterns of v2/assets has exactly three path
// components and ends in "txt", so DefaultClassifier's unguarded splits[0..2] cannot fail and
// LoadLicenses on the assets directory accepts exactly the same set of files.
func assetTreeShape(c *Ctx, p *core.Prog) (bool, string) {
	pk := p.Pkg(core.V2Mod + "/assets")
	if pk == nil {
		return false, "package v2/assets not loaded"
	}
	if len(pk.EmbedFiles) == 0 {
		return false, "no embedded files found for v2/assets"
	}
	dir := filepath.Join(p.Dir, "assets")
	for _, f := range pk.EmbedFiles {
		rel, err := filepath.Rel(dir, f)
		if err != nil {
			return false, err.Error()
		}
		comps := strings.Split(filepath.ToSlash(rel), "/")
		if len(comps) != 3 {
			return false, fmt.Sprintf("embedded file %s has %d path components (need exactly 3: category/name/variant)", rel, len(comps))
		}
		if !strings.HasSuffix(rel, "txt") {
			return false, fmt.Sprintf("embedded file %s does not end in txt: DefaultClassifier loads it but LoadLicenses on the same directory skips it", rel)
		}
	}
	// ... and the other way round: every file of the assets directory that LoadLicenses would load (depth 3, ends in txt) is
	// embedded - a pattern that leaves a category out makes DefaultClassifier poorer than LoadLicenses on the same directory
	embedded := map[string]bool{}
	for _, f := range pk.EmbedFiles {
		embedded[filepath.Clean(f)] = true
	}
	missing, nDisk := "", 0
	cats, _ := os.ReadDir(dir)
	for _, cat := range cats {
		if !cat.IsDir() {
			continue
		}
		names, _ := os.ReadDir(filepath.Join(dir, cat.Name()))
		for _, nm := range names {
			if !nm.IsDir() {
				continue
			}
			files, _ := os.ReadDir(filepath.Join(dir, cat.Name(), nm.Name()))
			for _, f := range files {
				if f.IsDir() || !strings.HasSuffix(f.Name(), "txt") {
					continue
				}
				nDisk++
				full := filepath.Join(dir, cat.Name(), nm.Name(), f.Name())
				if !embedded[filepath.Clean(full)] && missing == "" {
					missing = filepath.Join(cat.Name(), nm.Name(), f.Name())
				}
			}
		}
	}
	if missing != "" {
		return false, fmt.Sprintf("the file %s of the assets directory is not embedded (patterns %v): LoadLicenses on the directory loads it, DefaultClassifier does not", missing, pk.EmbedPatterns)
	}
	return true, fmt.Sprintf("all %d embedded files (patterns %v) have exactly 3 components and end in txt; all %d such files of the directory are embedded", len(pk.EmbedFiles), pk.EmbedPatterns, nDisk)
}

func init() {
	register(&Check{
		ID:      "C12",
		Modules: []string{"v2"},
		Explanation: "Static rules on the two corpus loaders: (R12.1) every constant-position access to the path segments in LoadLicenses is covered by a dominating length guard; (R12.2) taint: the raw directory argument reaches only path-aware functions (filepath.Walk/Rel/Clean/Abs/Join), never string arithmetic, so the result cannot depend on how the directory is spelled; " +
			"(R12.3) a path is accepted by the walk exactly under the guard strings.HasSuffix(path, \"txt\"); (R12.5) the walk callback returns nil on every path (a non-nil result aborts the walk or prunes a directory); (R12.6) the callback touches its FileInfo argument only where err == nil (it is nil otherwise); (R12.7) the corpus map is assigned only by the constructor, so loading never discards documents; (R12.4) every embedded asset has exactly three path components and ends in txt, both loaders pass (component 0, 1, 2, bytes) to AddContent in that order, and DefaultClassifier returns a classifier that is fresh on every call. " +
			"Necessary conditions of the equivalence for all trees and spellings; equality of the resulting Match behaviour additionally rests on C04.",
		Run: runC12,
	})
}

func runC12(c *Ctx) {
	p := c.Prog("v2")
	if p == nil {
		return
	}
	ll := p.Func(v2pkg, "(*Classifier).LoadLicenses")
	if !c.R.Anchor(ll != nil, "v2.(*Classifier).LoadLicenses") {
		return
	}
	// LoadLicenses and the unexported helpers it is split into (up to, not including, AddContent)
	ac := p.Func(v2pkg, "(*Classifier).AddContent")
	var fns []*ssa.Function
	seenFn := map[*ssa.Function]bool{}
	var collect func(f *ssa.Function, depth int)
	collect = func(f *ssa.Function, depth int) {
		if f == nil || seenFn[f] || f == ac || depth > 3 || core.FuncPkgPath(f) != v2pkg || len(f.Blocks) == 0 || isTraceFn(f) {
			return
		}
		seenFn[f] = true
		fns = append(fns, f)
		for _, a := range f.AnonFuncs {
			collect(a, depth)
		}
		for _, call := range core.CallsIn(f) {
			collect(eng.ResolveCallee(call.Common().Value), depth+1)
		}
	}
	collect(ll, 0)

	// R12.1
	obls := eng.FindNonEmpty(fns)
	for _, o := range obls {
		if ok, how := dischargeNE(c, p, o); ok {
			c.R.OK("R12.1", o.Key, p.Pos(o.Instr.Pos()), how)
		} else {
			c.R.Fail("R12.1", o.Key, p.Pos(o.Instr.Pos()), fmt.Sprintf("no dominating guard establishes len >= %d: a file that lies shallower than category/name/variant makes LoadLicenses panic", o.Need))
		}
	}
	c.R.RequireMin("R12.1", "constant-position segment accesses in LoadLicenses", len(obls), 1)

	// R12.12: a file that lies shallower than category/name/variant is left out, it is not an error: the branch taken when the
	// path has too few segments goes on with the next file - it does not end the load (every license behind the stray
	// AUTHORS.txt would be missing)
	{
		nG, bad := 0, ""
		nCls, badCls := 0, ""
		for _, f := range fns {
			for _, b := range f.Blocks {
				ifi, ok := b.Instrs[len(b.Instrs)-1].(*ssa.If)
				if !ok {
					continue
				}
				bo, ok := ifi.Cond.(*ssa.BinOp)
				if !ok {
					continue
				}
				lc, isCall := bo.X.(*ssa.Call)
				k, isK := core.ConstInt(bo.Y)
				if !isCall || !isK {
					continue
				}
				bi, isB := lc.Call.Value.(*ssa.Builtin)
				if !isB || bi.Name() != "len" || !strings.Contains(lc.Call.Args[0].Type().String(), "[]string") {
					continue
				}
				// the "too few" side of the test
				var few *ssa.BasicBlock
				switch {
				case bo.Op == token.LSS && k == 3, bo.Op == token.LEQ && k == 2, bo.Op == token.NEQ && k == 3:
					few = b.Succs[0]
				case bo.Op == token.GEQ && k == 3, bo.Op == token.GTR && k == 2, bo.Op == token.EQL && k == 3:
					few = b.Succs[1]
				default:
					continue
				}
				nG++
				// R12.13: a file that is left out leaves no trace in the classifier: inside the loop, every call that is
				// handed the classifier (or something loaded from it) stands behind the "enough segments" side of the test
				{
					enough := b.Succs[0]
					if enough == few {
						enough = b.Succs[1]
					}
					isCls := func(v ssa.Value) bool {
						v = core.Unspill(v)
						if ld, ok := v.(*ssa.UnOp); ok && ld.Op == token.MUL {
							if fa, ok := ld.X.(*ssa.FieldAddr); ok {
								v = core.Unspill(fa.X)
							}
						}
						pt, ok := v.Type().(*types.Pointer)
						if !ok {
							return false
						}
						nm, ok := pt.Elem().(*types.Named)
						return ok && nm.Obj().Name() == "Classifier" && nm.Obj().Pkg() != nil && nm.Obj().Pkg().Path() == v2pkg
					}
					for _, bb := range f.Blocks {
						if !(bb == b || (reaches(bb, b) && reaches(b, bb))) {
							continue
						}
						for _, call := range core.CallsIn(bb.Parent()) {
							if call.Block() != bb {
								continue
							}
							g := call.Common().StaticCallee()
							if g == nil || core.FuncPkgPath(g) != v2pkg || isTraceFn(g) || onlyTraces(g) {
								continue
							}
							takes := false
							for _, a := range call.Common().Args {
								if isCls(a) {
									takes = true
								}
							}
							if !takes {
								continue
							}
							nCls++
							if !(enough.Dominates(bb) && enough != b) && badCls == "" {
								badCls = core.ShortFn(g) + " at " + p.Pos(call.Pos())
							}
						}
					}
				}
				seen := map[*ssa.BasicBlock]bool{}
				for x := few; x != nil && !seen[x]; {
					seen[x] = true
					last := x.Instrs[len(x.Instrs)-1]
					if ret, isRet := last.(*ssa.Return); isRet {
						if n := len(ret.Results); n > 0 {
							if cst, isC := ret.Results[n-1].(*ssa.Const); !isC || !cst.IsNil() {
								bad = core.ShortFn(f) + " (" + p.Pos(ret.Pos()) + ")"
							}
						}
						break
					}
					if _, isJ := last.(*ssa.Jump); isJ && !x.Succs[0].Dominates(x) {
						x = x.Succs[0]
						continue
					}
					break
				}
			}
		}
		c.R.Check(bad == "", "R12.12", "LoadLicenses: a path with fewer than three segments is skipped, not an error", p.Pos(ll.Pos()), fmt.Sprintf("%d tests of the number of path segments", nG),
			"the branch for a path with too few segments returns an error in "+bad+": one stray file above the category/name/variant depth ends the load, and the licenses walked after it are missing")
		c.R.RequireMin("R12.12", "tests of the number of path segments", nG, 1)
		c.R.Check(badCls == "", "R12.13", "LoadLicenses: a file with too few path segments leaves no trace in the classifier", p.Pos(ll.Pos()), fmt.Sprintf("%d calls in the loop over the files that are handed the classifier, each behind the test of the number of segments", nCls),
			"the classifier is handed to "+badCls+" before the number of path segments is tested: a file that is then left out has already put its words into the classifier's dictionary (or more), so inputs are tokenized differently than with a classifier built by AddContent per file")
	}

	// R12.16: LoadLicenses never panics, also for a classifier whose trace configuration is nil (SetTraceConfiguration(nil)): the
	// methods of TraceConfiguration agree on testing their receiver - where most of them start with `tc == nil`, every method
	// that LoadLicenses can reach and that reads a field of its receiver does so behind that test.
	{
		var tcMethods []*ssa.Function
		for _, fn := range v2Funcs(p) {
			if isTraceFn(fn) && fn.Signature.Recv() != nil && len(fn.Params) > 0 {
				if _, isPtr := fn.Params[0].Type().Underlying().(*types.Pointer); isPtr {
					tcMethods = append(tcMethods, fn)
				}
			}
		}
		guarded := func(fn *ssa.Function) (derefs int, unguarded string) {
			recv := fn.Params[0]
			for _, b := range fn.Blocks {
				for _, in := range b.Instrs {
					fa, ok := in.(*ssa.FieldAddr)
					if !ok || core.Unspill(fa.X) != ssa.Value(recv) {
						continue
					}
					derefs++
					okG := false
					for _, f := range core.FactsAt(b) {
						if cmp, isCmp := f.AsCmp(); isCmp && cmp.Op == token.NEQ {
							if k, isK := cmp.Y.(*ssa.Const); isK && k.IsNil() && core.Unspill(cmp.X) == ssa.Value(recv) {
								okG = true
							}
						}
					}
					if !okG && unguarded == "" {
						unguarded = p.Pos(fa.Pos())
					}
				}
			}
			return
		}
		nGuard := 0
		for _, m := range tcMethods {
			if d, u := guarded(m); d > 0 && u == "" {
				nGuard++
			}
		}
		if nGuard >= 2 {
			bad := ""
			reach := map[*ssa.Function]bool{}
			for _, f := range fns {
				for _, g := range pkgClosure(f, v2pkg) {
					reach[g] = true
				}
			}
			for _, m := range tcMethods {
				if !reach[m] {
					continue
				}
				if d, u := guarded(m); d > 0 && u != "" && bad == "" {
					bad = core.ShortFn(m) + " reads a field of its receiver at " + u
				}
			}
			c.R.Check(bad == "", "R12.16", "LoadLicenses: the trace methods it reaches test their receiver against nil like their siblings", p.Pos(ll.Pos()), fmt.Sprintf("%d methods of TraceConfiguration guard their receiver", nGuard),
				bad+" without the nil test the other methods start with: a classifier whose trace configuration is nil panics in LoadLicenses for a tree with a file that lies too shallow")
		}
	}
	// R12.11: what is opened for one file of the corpus is released before the next file is looked at: no deferred call is
	// queued inside a loop (a deferred Close runs when LoadLicenses returns - a corpus with more files than the process may
	// have open descriptors then fails half way, unlike one AddContent per file)
	{
		nDefer, bad := 0, ""
		for _, f := range fns {
			for _, b := range f.Blocks {
				for _, in := range b.Instrs {
					if d, ok := in.(*ssa.Defer); ok {
						nDefer++
						if loopDepthOf(b) > 0 {
							bad = p.Pos(d.Pos())
						}
					}
				}
			}
		}
		c.R.Check(bad == "", "R12.11", "LoadLicenses: nothing is deferred inside a loop over the files", p.Pos(ll.Pos()), fmt.Sprintf("%d deferred calls, none in a loop", nDefer),
			"a call is deferred inside a loop at "+bad+": the resource of every file stays open until LoadLicenses returns, so a large corpus exhausts the file descriptors and the files behind that point are missing")
	}

	// R12.2
	checkDirTaint(c, p, ll)

	// R12.3
	checkSuffixFilter(c, p, fns)

	// R12.5 / R12.6 the walk callback
	checkWalkCallback(c, p, fns)

	// R12.7 the corpus map is assigned only by the constructor
	checkDocsSingleWriter(c, p)

	// R12.4
	ok, why := assetTreeShape(c, p)
	c.R.Check(ok, "R12.4", "embedded asset tree: every file is category/name/variant and ends in txt", "v2/assets", why, why)
	for _, f := range fns {
		checkAddContentArgs(c, p, f, "segments")
	}
	if dc := p.Func(core.V2Mod+"/assets", "DefaultClassifier"); c.R.Anchor(dc != nil, "v2/assets.DefaultClassifier") {
		for _, f := range core.WithAnon(dc) {
			checkAddContentArgs(c, p, f, "splits")
		}
		// freshness: the classifier returned is allocated by this call
		e := eng.NewExplorer(p, matchScope...)
		ret := e.Run(dc, nil)
		fresh := len(ret) > 0 && ret[0] == eng.Fresh
		c.R.Check(fresh, "R12.4", "DefaultClassifier returns a classifier allocated by this call", p.Pos(dc.Pos()),
			"result provenance: Fresh", fmt.Sprintf("result provenance %v: the classifier is shared between callers (a later AddContent on one result changes what other callers get), so it is no longer equivalent to LoadLicenses on the assets directory", provOf(ret)))
	}
}

func provOf(ps []eng.Prov) string {
	if len(ps) == 0 {
		return "-"
	}
	return ps[0].String()
}

var pathAware = map[string]bool{
	"path/filepath.Walk": true, "path/filepath.WalkDir": true, "path/filepath.Rel": true, "path/filepath.Clean": true, "path/filepath.Abs": true,
	"path/filepath.Join": true, "path/filepath.EvalSymlinks": true, "os.ReadDir": true, "io/ioutil.ReadDir": true, "os.Stat": true, "os.Open": true, "os.DirFS": true, "io/fs.WalkDir": true,
}

// checkDirTaint: R12.2.
func checkDirTaint(c *Ctx, p *core.Prog, ll *ssa.Function) {
	if len(ll.Params) < 2 {
		c.R.Fail("R12.2", "LoadLicenses: dir parameter", p.Pos(ll.Pos()), "unexpected signature")
		return
	}
	dir := ll.Params[1]
	tainted := map[ssa.Value]bool{dir: true}
	var work []ssa.Value
	work = append(work, dir)
	// spilled copies (captured by closures)
	uses := 0
	bad := 0
	report := func(in ssa.Instruction, what string) {
		bad++
		c.R.Fail("R12.2", "LoadLicenses: raw dir argument reaches "+what, p.Pos(in.Pos()), "the directory argument as spelled by the caller (trailing separator, ./ prefix, relative/absolute) is used in string arithmetic; it may only be handed to path-aware functions (filepath.Rel/Clean/Abs/Join/Walk)")
	}
	seenInstr := map[ssa.Instruction]bool{}
	for len(work) > 0 {
		v := work[len(work)-1]
		work = work[:len(work)-1]
		refs := v.Referrers()
		if refs == nil {
			continue
		}
		for _, r := range *refs {
			if seenInstr[r] {
				continue
			}
			seenInstr[r] = true
			switch x := r.(type) {
			case *ssa.DebugRef:
			case *ssa.Store:
				// spill to a captured variable: all loads of that cell are tainted
				if x.Val == v {
					if al, ok := x.Addr.(*ssa.Alloc); ok {
						for _, rr := range *al.Referrers() {
							if ld, ok := rr.(*ssa.UnOp); ok && !tainted[ld] {
								tainted[ld] = true
								work = append(work, ld)
							}
							if mc, ok := rr.(*ssa.MakeClosure); ok {
								// captured by reference: loads of the free variable in the closure
								fnc := mc.Fn.(*ssa.Function)
								for i, b := range mc.Bindings {
									if b == al {
										fv := fnc.FreeVars[i]
										for _, fr := range *fv.Referrers() {
											if ld, ok := fr.(*ssa.UnOp); ok && !tainted[ld] {
												tainted[ld] = true
												work = append(work, ld)
											}
										}
									}
								}
							}
						}
					} else {
						report(x, "a store ("+x.Addr.String()+")")
					}
				}
			case *ssa.Phi:
				if !tainted[x] {
					tainted[x] = true
					work = append(work, x)
				}
			case *ssa.BinOp:
				if x.Op == token.ADD {
					if !tainted[x] {
						tainted[x] = true
						work = append(work, x)
					}
				} else {
					report(x, "a string comparison ("+x.Op.String()+")")
				}
			case *ssa.Slice:
				report(x, "a slice expression")
			case *ssa.Lookup, *ssa.Index:
				report(x, "an index expression")
			case *ssa.MakeInterface:
				if !tainted[x] {
					tainted[x] = true
					work = append(work, x)
				}
			case *ssa.MakeClosure:
				fnc := x.Fn.(*ssa.Function)
				for i, b := range x.Bindings {
					if b == v && i < len(fnc.FreeVars) {
						if !tainted[fnc.FreeVars[i]] {
							tainted[fnc.FreeVars[i]] = true
							work = append(work, fnc.FreeVars[i])
						}
					}
				}
			case *ssa.IndexAddr:
				// element of a varargs array
				if !tainted[x] {
					tainted[x] = true
					work = append(work, x)
				}
			case *ssa.Convert, *ssa.ChangeType:
				if !tainted[x.(ssa.Value)] {
					tainted[x.(ssa.Value)] = true
					work = append(work, x.(ssa.Value))
				}
			case ssa.CallInstruction:
				uses++
				cc := x.Common()
				name := core.StaticCalleeName(cc)
				if b, ok := cc.Value.(*ssa.Builtin); ok {
					report(x, "builtin "+b.Name())
					continue
				}
				if pathAware[name] {
					continue // result is a cleaned / resolved path
				}
				if f := cc.StaticCallee(); f != nil && isTraceFn(f) {
					continue
				}
				// an unexported helper of the same package: the parameter that receives it is raw too
				if f := cc.StaticCallee(); f != nil && core.FuncPkgPath(f) == v2pkg && len(f.Blocks) > 0 && (f.Object() == nil || !f.Object().Exported()) {
					for i, a := range cc.Args {
						if a == v && i < len(f.Params) && !tainted[f.Params[i]] {
							tainted[f.Params[i]] = true
							work = append(work, f.Params[i])
						}
					}
					continue
				}
				switch name {
				case "fmt.Sprintf", "fmt.Sprint", "fmt.Errorf":
					if call, ok := x.(*ssa.Call); ok {
						if name == "fmt.Errorf" {
							continue // error text only
						}
						if !tainted[call] {
							tainted[call] = true
							work = append(work, call)
						}
					}
					continue
				case "log.Printf", "log.Println":
					continue
				}
				if name == "" {
					name = "a dynamic call"
				}
				report(x, name)
			}
		}
	}
	c.R.Count("R12.2:uses of dir", uses)
	if bad == 0 {
		c.R.OK("R12.2", "LoadLicenses: the raw dir argument only reaches path-aware functions", p.Pos(ll.Pos()), fmt.Sprintf("%d call sites receive it, all of filepath.Walk/Rel/Clean/Abs/Join kind", uses))
	}
	c.R.RequireMin("R12.2", "uses of the dir argument", uses, 1)
}

// checkSuffixFilter: R12.3.
func checkSuffixFilter(c *Ctx, p *core.Prog, fns []*ssa.Function) {
	n := 0
	for _, f := range fns {
		if f.Parent() == nil {
			continue // the walk callback is a closure
		}
		for _, call := range core.CallsIn(f) {
			b, ok := call.Common().Value.(*ssa.Builtin)
			if !ok || b.Name() != "append" {
				continue
			}
			el := singleVarargElem(call.Common().Args[1])
			if el == nil {
				continue
			}
			if _, isParam := core.Unspill(el).(*ssa.Parameter); !isParam {
				continue
			}
			n++
			okSuffix := false
			for _, fct := range core.FactsAtInstr(call) {
				cl, ok := fct.Cond.(*ssa.Call)
				if !ok || !fct.Truth || core.StaticCalleeName(&cl.Call) != "strings.HasSuffix" {
					continue
				}
				if s, ok := core.ConstString(cl.Call.Args[1]); ok && s == "txt" && core.Unspill(cl.Call.Args[0]) == core.Unspill(el) {
					okSuffix = true
				}
			}
			c.R.Check(okSuffix, "R12.3", core.ShortFn(f)+": a path is collected only under strings.HasSuffix(path, \"txt\")", p.Pos(call.Pos()),
				"append(files, path) is dominated by the true edge of strings.HasSuffix(path, \"txt\")",
				"the acceptance condition of the walk is not `path ends in \"txt\"`: the set of files loaded differs from the documented one (files whose name merely ends in txt, or other suffixes)")
		}
	}
	c.R.RequireMin("R12.3", "collect sites in the walk callback", n, 1)
}

// checkAddContentArgs: the loader passes split[0], split[1], split[2] as category, name, variant.
func checkAddContentArgs(c *Ctx, p *core.Prog, fn *ssa.Function, what string) {
	// what may stand between the loop over the files and the statement that adds a file: error tests, tests of a length
	// (the number of path segments), the bound of a range loop
	gate := func(call ssa.CallInstruction) string {
		bad := ""
		for _, ft := range core.FactsAtInstr(call.(ssa.Instruction)) {
			cmp, isCmp := ft.AsCmp()
			if isCmp {
				if cst, isNil := cmp.Y.(*ssa.Const); isNil && (cmp.Op == token.EQL || cmp.Op == token.NEQ) && cst.Value == nil && cmp.X.Type().String() == "error" {
					continue
				}
				isLen := func(v ssa.Value) bool {
					call2, ok := v.(*ssa.Call)
					if !ok {
						return false
					}
					bi, isB := call2.Call.Value.(*ssa.Builtin)
					return isB && bi.Name() == "len"
				}
				if isLen(cmp.X) || isLen(cmp.Y) {
					continue
				}
				if _, isPhi := cmp.X.(*ssa.Phi); isPhi && (cmp.Op == token.LSS || cmp.Op == token.GEQ) {
					continue
				}
			}
			if _, isEx := ft.Cond.(*ssa.Extract); isEx {
				continue
			}
			bad = eng.Describe(ft.Cond)
		}
		return bad
	}
	for _, call := range core.CallsIn(fn) {
		cal := call.Common().StaticCallee()
		if cal != nil && cal.Name() == "addDocument" && fn.Name() != "AddContent" && core.FuncPkgPath(cal) == v2pkg {
			// the loader adds the tokenized file itself instead of calling AddContent: the same gate applies
			bad := gate(call)
			c.R.Check(bad == "", "R12.10", core.ShortFn(fn)+": every collected file of sufficient depth is added (addDocument called directly)", p.Pos(call.Pos()), "only the segment count and error tests stand between the loop over the files and the addition",
				"whether a file is added also depends on "+bad+" (its size, what the corpus already holds): AddContent adds every text, LoadLicenses would skip some, so loading is no longer equivalent to AddContent for each file")
		}
		if cal == nil || cal.Name() != "AddContent" {
			continue
		}
		args := call.Common().Args
		ok, why := true, "AddContent(x[0], x[1], x[2], bytes) on one split of the relative path"
		if len(args) < 4 {
			continue
		}
		vals := []ssa.Value{core.Unspill(args[1]), core.Unspill(args[2]), core.Unspill(args[3])}
		for _, tup := range callSiteTuples(p, vals) {
			var split ssa.Value
			for i := 1; i <= 3; i++ {
				ld, isLd := tup[i-1].(*ssa.UnOp)
				if !isLd {
					ok, why = false, fmt.Sprintf("argument %d of AddContent is not a path component", i)
					break
				}
				ia, isIA := ld.X.(*ssa.IndexAddr)
				if !isIA {
					ok, why = false, fmt.Sprintf("argument %d of AddContent is not a path component", i)
					break
				}
				k, isK := core.ConstInt(ia.Index)
				if !isK || k != int64(i-1) {
					ok, why = false, fmt.Sprintf("argument %d of AddContent is path component %d, expected %d", i, k, i-1)
					break
				}
				if split == nil {
					split = ia.X
				} else if split != ia.X {
					ok, why = false, "the three components come from different splits"
				}
			}
			if ok && split != nil {
				src, isSplit := splitOperand(split)
				if !isSplit {
					ok, why = false, "the components are not taken from strings.Split of the relative path"
				} else if core.FuncPkgPath(fn) == v2pkg {
					// the string split must be the result of filepath.Rel
					if ex, isEx := src.(*ssa.Extract); !isEx || !isCallTo(ex.Tuple, "path/filepath.Rel") {
						ok, why = false, "the path that is split is not the result of filepath.Rel(dir, file)"
					}
				}
			}
		}
		c.R.Check(ok, "R12.4", core.ShortFn(fn)+": AddContent receives path components 0, 1, 2 in order", p.Pos(call.Pos()), why, why)
		if core.FuncPkgPath(fn) != v2pkg || len(args) < 5 {
			continue
		}
		// R12.9 the content handed to AddContent is the whole file: the bytes ReadFile returned (through conversions)
		cont := args[4]
		for d := 0; d < 4; d++ {
			if cv, isCv := cont.(*ssa.Convert); isCv {
				cont = cv.X
				continue
			}
			break
		}
		okC, whyC := false, "the content is not the result of ioutil.ReadFile / os.ReadFile of the collected path"
		for _, tup := range callSiteTuples(p, []ssa.Value{core.Unspill(cont)}) {
			v := tup[0]
			for d := 0; d < 4; d++ {
				if cv, isCv := v.(*ssa.Convert); isCv {
					v = cv.X
					continue
				}
				break
			}
			if ex, isEx := v.(*ssa.Extract); isEx && ex.Index == 0 {
				if rc, isCall := ex.Tuple.(*ssa.Call); isCall {
					if n := core.StaticCalleeName(&rc.Call); n == "io/ioutil.ReadFile" || n == "os.ReadFile" {
						okC, whyC = true, "AddContent(..., contents) with contents, err := ReadFile(f)"
					}
				}
			}
		}
		c.R.Check(okC, "R12.9", core.ShortFn(fn)+": AddContent receives the whole contents of the file", p.Pos(call.Pos()), whyC,
			whyC+" (a slice of a buffer, a partial read): a corpus file that is larger than the buffer is silently truncated, so the loaded document differs from the one AddContent would be given")
		// R12.10 every collected file of sufficient depth is added: between the loop over the files and AddContent only the
		// segment-count test and error tests decide
		bad := ""
		for _, ft := range core.FactsAtInstr(call) {
			cmp, isCmp := ft.AsCmp()
			if isCmp {
				// len(segments) >= 3 ; err == nil ; loop index < len(files)
				if cst, isNil := cmp.Y.(*ssa.Const); isNil && (cmp.Op == token.EQL || cmp.Op == token.NEQ) && cst.Value == nil && cmp.X.Type().String() == "error" {
					continue
				}
				if call2, isLen := cmp.X.(*ssa.Call); isLen {
					if bi, isB := call2.Call.Value.(*ssa.Builtin); isB && bi.Name() == "len" {
						continue
					}
				}
				if call2, isLen := cmp.Y.(*ssa.Call); isLen {
					if bi, isB := call2.Call.Value.(*ssa.Builtin); isB && bi.Name() == "len" {
						continue
					}
				}
				if _, isPhi := cmp.X.(*ssa.Phi); isPhi && (cmp.Op == token.LSS || cmp.Op == token.GEQ) {
					continue // range loop bound
				}
			}
			if _, isEx := ft.Cond.(*ssa.Extract); isEx {
				continue // ok of a range/next
			}
			bad = eng.Describe(ft.Cond)
		}
		c.R.Check(bad == "", "R12.10", core.ShortFn(fn)+": every collected file of sufficient depth reaches AddContent", p.Pos(call.Pos()), "only the segment count and error tests stand between the loop over the files and AddContent",
			"whether a file is added also depends on "+bad+" (e.g. on what the corpus already holds): AddContent replaces an existing document, LoadLicenses would skip it, so loading is no longer equivalent to AddContent for each file")
	}
}

// checkWalkCallback: R12.5 and R12.6.
func checkWalkCallback(c *Ctx, p *core.Prog, fns []*ssa.Function) {
	n := 0
	for _, f := range fns {
		if f.Parent() == nil || f.Signature.Params().Len() != 3 || f.Signature.Results().Len() != 1 {
			continue
		}
		// filepath.WalkFunc / fs.WalkDirFunc: (path string, info, err error) error
		if !isString(f.Signature.Params().At(0).Type()) {
			continue
		}
		n++
		okNil := true
		for _, b := range f.Blocks {
			if ret, ok := b.Instrs[len(b.Instrs)-1].(*ssa.Return); ok {
				if cst, isC := ret.Results[0].(*ssa.Const); !isC || cst.Value != nil {
					okNil = false
					c.R.Fail("R12.5", core.ShortFn(f)+": the walk callback returns nil on every path", p.Pos(ret.Pos()), "the callback can return "+ret.Results[0].String()+": a non-nil result aborts the walk, and filepath.SkipDir returned for a file skips the rest of its directory, so files that should be loaded are silently dropped")
				}
			}
		}
		if okNil {
			c.R.OK("R12.5", core.ShortFn(f)+": the walk callback returns nil on every path", p.Pos(f.Pos()), "every return is the nil error")
		}
		// R12.6
		info, errP := f.Params[1], f.Params[2]
		okInfo := true
		if refs := info.Referrers(); refs != nil {
			for _, r := range *refs {
				if _, isDbg := r.(*ssa.DebugRef); isDbg {
					continue
				}
				guarded := false
				for _, fct := range core.FactsAtInstr(r) {
					cmp, ok := fct.AsCmp()
					if !ok {
						continue
					}
					isNil := func(v ssa.Value) bool { cst, ok := v.(*ssa.Const); return ok && cst.Value == nil }
					if cmp.Op == token.EQL && ((cmp.X == ssa.Value(errP) && isNil(cmp.Y)) || (cmp.Y == ssa.Value(errP) && isNil(cmp.X))) {
						guarded = true
					}
				}
				if !guarded {
					okInfo = false
					c.R.Fail("R12.6", core.ShortFn(f)+": the walk callback uses its FileInfo only where err == nil", p.Pos(r.Pos()), "filepath.Walk passes a nil FileInfo together with a non-nil error (unreadable or vanished entry): using it before the error test panics")
				}
			}
		}
		if okInfo {
			c.R.OK("R12.6", core.ShortFn(f)+": the walk callback uses its FileInfo only where err == nil", p.Pos(f.Pos()), "no unguarded use")
		}
		// R12.15 what the callback decides for an entry depends on that entry alone: the only variable of the enclosing function
		// it assigns is the list it collects into. A flag carried from one entry to the next ("the directory being walked is a
		// category/name directory") is stale after the walk comes back out of a sub-directory, and the files behind it are lost.
		{
			badV := ""
			nSt := 0
			for _, b := range f.Blocks {
				for _, in := range b.Instrs {
					st, isSt := in.(*ssa.Store)
					if !isSt {
						continue
					}
					fv, isFV := st.Addr.(*ssa.FreeVar)
					if !isFV {
						continue
					}
					nSt++
					if _, isSl := st.Val.Type().Underlying().(*types.Slice); isSl {
						if ap, isCall := st.Val.(*ssa.Call); isCall {
							if bi, isB := ap.Call.Value.(*ssa.Builtin); isB && bi.Name() == "append" {
								continue
							}
						}
					}
					if badV == "" {
						badV = fv.Name() + " (" + p.Pos(st.Pos()) + ")"
					}
				}
			}
			c.R.Check(badV == "", "R12.15", core.ShortFn(f)+": the walk callback carries nothing from one entry to the next but the list of files", p.Pos(f.Pos()), fmt.Sprintf("%d assignments of captured variables, all appends to the list", nSt),
				"the callback assigns the captured variable "+badV+": what it does with an entry depends on which entries came before it - after the walk has left a sub-directory the value is stale, and files that sort behind that sub-directory are left out")
		}
		// R12.8 only files are collected: a path is appended to the list only where the entry was tested not to be a directory
		for _, call := range core.CallsIn(f) {
			bi, isB := call.Common().Value.(*ssa.Builtin)
			if !isB || bi.Name() != "append" {
				continue
			}
			notDir := false
			otherInfo := ""
			for _, fct := range core.FactsAtInstr(call) {
				cv, isCall := fct.Cond.(*ssa.Call)
				if !isCall {
					continue
				}
				name := ""
				if cv.Call.IsInvoke() {
					name = cv.Call.Method.Name()
				} else if cal := cv.Call.StaticCallee(); cal != nil {
					name = cal.Name()
				}
				if name == "IsDir" && !fct.Truth {
					notDir = true
				}
				// R12.14: ... and by nothing else the FileInfo says: a test of the mode bits (IsRegular, Type, Perm), the size or
				// the time leaves out entries - a symbolic link to a text, an empty file - that one AddContent per file includes
				switch name {
				case "IsRegular", "Type", "Perm", "Size", "ModTime", "Mode":
					otherInfo = name + " (" + p.Pos(cv.Pos()) + ")"
				}
			}
			if notDir {
				c.R.Check(otherInfo == "", "R12.14", core.ShortFn(f)+": an entry is collected by its name and by not being a directory, nothing else", p.Pos(call.Pos()), "no other property of the FileInfo is tested",
					"whether an entry is collected also depends on "+otherInfo+": entries that are not regular files - a symbolic link to a license text - are silently left out, while AddContent per file includes them")
			}
			c.R.Check(notDir, "R12.8", core.ShortFn(f)+": only entries that are not directories are collected", p.Pos(call.Pos()), "the append is dominated by IsDir() == false",
				"a path is collected by its name alone: a directory whose name ends in \"txt\" is read as a file, which fails (\"is a directory\") and makes LoadLicenses return without loading the files that sort after it")
		}
	}
	c.R.RequireMin("R12.5", "walk callbacks in LoadLicenses", n, 1)
}

// checkDocsSingleWriter: R12.7.
func checkDocsSingleWriter(c *Ctx, p *core.Prog) {
	rl := rolesOf(p)
	if !c.R.Anchor(rl.ok, "v2.Classifier corpus map field") {
		return
	}
	nc := p.Func(v2pkg, "NewClassifier")
	bad := 0
	for _, fn := range v2Funcs(p) {
		for _, b := range fn.Blocks {
			for _, in := range b.Instrs {
				st, ok := in.(*ssa.Store)
				if !ok {
					continue
				}
				fa, ok := st.Addr.(*ssa.FieldAddr)
				if !ok || core.FieldName(fa) != rl.docs || !strings.HasSuffix(core.TypeName(fa.X.Type()), "/v2.Classifier") {
					continue
				}
				if fn == nc {
					continue
				}
				bad++
				c.R.Fail("R12.7", core.ShortFn(fn)+": the corpus map of the classifier is replaced", p.Pos(st.Pos()), "Classifier."+rl.docs+" is assigned outside the constructor: documents added earlier (AddContent, an earlier LoadLicenses) are discarded, so the classifier is no longer equivalent to one built by AddContent per file")
			}
		}
	}
	if bad == 0 {
		c.R.OK("R12.7", "the corpus map is assigned only by NewClassifier", "v2/classifier.go", "no other store to Classifier."+rl.docs)
	}
}

// splitOperand: v is strings.Split(x, sep), or the result of a helper of the repository that returns
// strings.Split(<its parameter>, sep): returns x.
func splitOperand(v ssa.Value) (ssa.Value, bool) {
	call, ok := v.(*ssa.Call)
	if !ok {
		return nil, false
	}
	if core.StaticCalleeName(&call.Call) == "strings.Split" {
		return call.Call.Args[0], true
	}
	g := call.Call.StaticCallee()
	if g == nil || !core.InRepo(g) || len(g.Blocks) != 1 {
		return nil, false
	}
	ret, ok := g.Blocks[0].Instrs[len(g.Blocks[0].Instrs)-1].(*ssa.Return)
	if !ok || len(ret.Results) != 1 {
		return nil, false
	}
	inner, ok := ret.Results[0].(*ssa.Call)
	if !ok || core.StaticCalleeName(&inner.Call) != "strings.Split" {
		return nil, false
	}
	for i, prm := range g.Params {
		if inner.Call.Args[0] == ssa.Value(prm) && i < len(call.Call.Args) {
			return call.Call.Args[i], true
		}
	}
	return nil, false
}

// onlyTraces: a helper that does nothing but call the trace configuration (a wrapper around c.tc.trace): no store, no map
// update, and every call it makes is a method of TraceConfiguration.
func onlyTraces(g *ssa.Function) bool {
	if g == nil || len(g.Blocks) == 0 {
		return false
	}
	n := 0
	for _, b := range g.Blocks {
		for _, in := range b.Instrs {
			switch x := in.(type) {
			case *ssa.MapUpdate, *ssa.Send, *ssa.Go, *ssa.Defer:
				return false
			case *ssa.Store:
				if _, local := x.Addr.(*ssa.Alloc); !local {
					if ia, isIA := x.Addr.(*ssa.IndexAddr); !isIA || !isLocalArray(ia.X) {
						return false
					}
				}
			case ssa.CallInstruction:
				if _, isB := x.Common().Value.(*ssa.Builtin); isB {
					continue
				}
				if !isTraceFn(x.Common().StaticCallee()) {
					return false
				}
				n++
			}
		}
	}
	return n > 0
}

func isLocalArray(v ssa.Value) bool {
	al, ok := v.(*ssa.Alloc)
	return ok && !al.Heap || ok
}
