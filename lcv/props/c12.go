package props

import (
	"fmt"
	"path/filepath"
	"strings"

	"lcv/core"
)

// assetTreeShape: every file selected by the //go:embed patterns of v2/assets has exactly three path
// components and ends in "txt", so DefaultClassifier's unguarded splits[0..2] cannot fail and
// LoadLicenses on the assets directory accepts exactly the same set of files.
func assetTreeShape(c *Ctx, p *core.Prog) (bool, string) {
	pk := p.Pkg(core.V2Mod + "/assets")
	if pk == nil {
		return false, "package v2/assets not loaded"
	}
	if len(pk.EmbedFiles) == 0 {
		return false, "no embedded files found for v2/assets"
	}
	dir := filepath.Join(p.Dir, "assets")
	for _, f := range pk.EmbedFiles {
		rel, err := filepath.Rel(dir, f)
		if err != nil {
			return false, err.Error()
		}
		comps := strings.Split(filepath.ToSlash(rel), "/")
		if len(comps) != 3 {
			return false, fmt.Sprintf("embedded file %s has %d path components (need exactly 3: category/name/variant)", rel, len(comps))
		}
		if !strings.HasSuffix(rel, "txt") {
			return false, fmt.Sprintf("embedded file %s does not end in txt: DefaultClassifier loads it but LoadLicenses on the same directory skips it", rel)
		}
	}
	return true, fmt.Sprintf("all %d embedded files (patterns %v) have exactly 3 components and end in txt", len(pk.EmbedFiles), pk.EmbedPatterns)
}
